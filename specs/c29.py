"""C29 - the asyncio API matches the sync API and is safe under cancellation (partial: aiosqlite only)."""
import os

ID = "C29"
LEVEL = "proof"
PROPS = "props/C29.v"
RUNNER = ("SAV.engine.AsyncRun", "run_case")
STATIC_MODULES = ["SAV.engine.AsyncRun"]
RULE = (
    "programs = 1-3 blocks (async with engine.connect() / explicit try-finally close / never closed) of 0-5 "
    "operations (begin, insert v, select, commit, rollback) on a file SQLite database, pool_size 1-2, run through "
    "Engine/Connection on pysqlite AND AsyncEngine/AsyncConnection on aiosqlite; for the asyncio run a real "
    "Task.cancel() is delivered at EVERY suspension of the user task (enumerated by a stepping awaitable that drives "
    "the program coroutine), one position per case, the cancelled driver request either left queued (aiosqlite's real "
    "behaviour) or dropped before it reaches the connection thread (what other drivers may do); plus seeded double "
    "cancellations. Compared with the Coq model: block outcomes, pool.checkedout() before/after gc, user-visible "
    "results, labelled suspension trace, SQL statements seen by SQLite (trace callback), committed rows, "
    "in_transaction of every DBAPI connection, idle pool records, checkout/return/warning counters. Oracle-only "
    "families: savepoints, engine.begin(), conn.begin() context managers and AsyncSession programs (sync vs async "
    "results + cancellation at sampled/all suspensions and at every await_ call made by a shielded inner task). "
    "non-trivial = a cancellation is delivered, or the program writes"
)
TRUSTED = [
    "hand-written Gallina transcription of greenlet_spawn/await_, the asyncio DBAPI adapter, _finalize_fairy and the "
    "Connection/RootTransaction paths listed in coq/engine/AsyncConn.v (pinned normalised source of 47 functions + "
    "behavioural correspondence on every run)",
    "the greenlet C extension (switch/throw resume the continuation) and the asyncio event loop (a cancellation is "
    "delivered at a suspension point of the task; a shielded inner task runs to completion)",
    "the driver model io_step (aiosqlite: one FIFO request queue per connection; a queued request still executes "
    "after its future was cancelled) - validated against real aiosqlite on every run",
]
ASSUMPTIONS = [
    "one Connection checked out at a time per engine in the modelled programs; no pool-wide invalidation, no recycle, "
    "pool_size >= 1",
    "the documented SQLite transaction recipe is installed (connect: isolation_level=None, begin: BEGIN)",
    "at most one cancellation per case in the safety theorems",
]
LEVEL_TEXT = (
    "Coq proof (closed under the global context): (1) greenlet_spawn is the identity on resumption trees, hence for "
    "EVERY sync program and driver the coroutine performs the same DBAPI calls in the same order with the same "
    "results/exceptions (trampoline_transparent), and for every block of the modelled alphabet the AsyncEngine/"
    "AsyncConnection program equals the Engine/Connection program (api_transparent); (2) for every program, every "
    "single cancellation position and both 'request took effect / did not' outcomes: nothing stays checked out, every "
    "record handed out came back exactly once, every pooled connection is alive, NO connection is left in a "
    "transaction, no garbage collection or warning is needed (block_safe), a never-closed connection is detached and "
    "terminated by the collector (leak_safe), any sequence of tasks keeps the engine safe (tasks_safe) and a later "
    "block completes (later_operations_work). Tie: source pin + correspondence on real cancellations at every "
    "suspension."
)
LEVEL_NOTE = (
    "partial: only aiosqlite can run (asyncpg/psycopg/aiomysql are covered by the model's 'effect / no effect' "
    "quantification only, the no-effect case is emulated on aiosqlite by dropping the request); Connection-level "
    "alphabet in the model (savepoints, engine.begin(), conn.begin() blocks, AsyncSession: differential + "
    "cancellation oracle only); ONE cancellation per case in the safety theorems (a second cancellation inside "
    "terminate() races with the shielded graceful close: known finding, outside the model); event-loop scheduling, "
    "thread timing of aiosqlite and the greenlet extension are trusted. Found and fixed during the build: a "
    "cancellation inside the pool's rollback-on-return lost the pool slot (/repo 51edfd0, 356c0aa)."
)
TECHNIQUE = "Coq proof over resumption trees (trampoline transparency + cancellation invariant) + real Task.cancel() at every suspension"
ANCHORS = [
    ("lib/sqlalchemy/util/concurrency.py", "greenlet_spawn"),
    ("lib/sqlalchemy/util/concurrency.py", "await_"),
    ("lib/sqlalchemy/util/concurrency.py", "is_exit_exception"),
    ("lib/sqlalchemy/connectors/asyncio.py", "AsyncAdapt_terminate.terminate"),
    ("lib/sqlalchemy/connectors/asyncio.py", "AsyncAdapt_dbapi_cursor.close"),
    ("lib/sqlalchemy/connectors/asyncio.py", "AsyncAdapt_dbapi_cursor.execute"),
    ("lib/sqlalchemy/connectors/asyncio.py", "AsyncAdapt_dbapi_cursor._execute_async"),
    ("lib/sqlalchemy/connectors/asyncio.py", "AsyncAdapt_dbapi_connection.rollback"),
    ("lib/sqlalchemy/connectors/asyncio.py", "AsyncAdapt_dbapi_connection.commit"),
    ("lib/sqlalchemy/dialects/sqlite/aiosqlite.py", "AsyncAdapt_aiosqlite_connection.rollback"),
    ("lib/sqlalchemy/dialects/sqlite/aiosqlite.py", "AsyncAdapt_aiosqlite_connection.commit"),
    ("lib/sqlalchemy/dialects/sqlite/aiosqlite.py", "AsyncAdapt_aiosqlite_connection._terminate_force_close"),
    ("lib/sqlalchemy/pool/base.py", "_finalize_fairy"),
    ("lib/sqlalchemy/pool/base.py", "Pool._close_connection"),
    ("lib/sqlalchemy/pool/base.py", "_ConnectionRecord.checkout"),
    ("lib/sqlalchemy/pool/base.py", "_ConnectionRecord.checkin"),
    ("lib/sqlalchemy/pool/base.py", "_ConnectionRecord._checkin_failed"),
    ("lib/sqlalchemy/pool/base.py", "_ConnectionRecord.invalidate"),
    ("lib/sqlalchemy/pool/base.py", "_ConnectionRecord.get_connection"),
    ("lib/sqlalchemy/pool/base.py", "_ConnectionRecord.__close"),
    ("lib/sqlalchemy/pool/base.py", "_ConnectionRecord.__connect"),
    ("lib/sqlalchemy/pool/base.py", "_ConnectionFairy._reset"),
    ("lib/sqlalchemy/pool/base.py", "_ConnectionFairy.invalidate"),
    ("lib/sqlalchemy/pool/base.py", "_ConnectionFairy.detach"),
    ("lib/sqlalchemy/pool/impl.py", "QueuePool._do_get"),
    ("lib/sqlalchemy/pool/impl.py", "QueuePool._do_return_conn"),
    ("lib/sqlalchemy/engine/base.py", "Connection.invalidate"),
    ("lib/sqlalchemy/engine/base.py", "Connection._revalidate_connection"),
    ("lib/sqlalchemy/engine/base.py", "Connection.close"),
    ("lib/sqlalchemy/engine/base.py", "Connection._begin_impl"),
    ("lib/sqlalchemy/engine/base.py", "Connection._rollback_impl"),
    ("lib/sqlalchemy/engine/base.py", "Connection._commit_impl"),
    ("lib/sqlalchemy/engine/base.py", "Connection._execute_context"),
    ("lib/sqlalchemy/engine/base.py", "Connection._handle_dbapi_exception"),
    ("lib/sqlalchemy/engine/base.py", "RootTransaction._close_impl"),
    ("lib/sqlalchemy/engine/base.py", "RootTransaction._do_commit"),
    ("lib/sqlalchemy/ext/asyncio/engine.py", "AsyncConnection.start"),
    ("lib/sqlalchemy/ext/asyncio/engine.py", "AsyncConnection.execute"),
    ("lib/sqlalchemy/ext/asyncio/engine.py", "AsyncConnection.commit"),
    ("lib/sqlalchemy/ext/asyncio/engine.py", "AsyncConnection.rollback"),
    ("lib/sqlalchemy/ext/asyncio/engine.py", "AsyncConnection.close"),
    ("lib/sqlalchemy/ext/asyncio/engine.py", "AsyncConnection.__aexit__"),
    ("lib/sqlalchemy/ext/asyncio/engine.py", "AsyncTransaction.start"),
    ("lib/sqlalchemy/ext/asyncio/engine.py", "AsyncTransaction.__aexit__"),
    ("lib/sqlalchemy/ext/asyncio/result.py", "_ensure_sync_result"),
    ("lib/sqlalchemy/ext/asyncio/session.py", "AsyncSession.__aexit__"),
    ("lib/sqlalchemy/ext/asyncio/session.py", "AsyncSession.close"),
]


# T1 table: every method the asyncio classes share with the class they proxy must give every shared
# parameter the same default (or both none).  A drifted default makes the proxy forward an explicit value
# where the sync API lets execution_options / the Session's own defaults decide.
PROXY_PAIRS = [
    ("ext/asyncio/session.py", "AsyncSession", "orm/session.py", "Session"),
    ("ext/asyncio/engine.py", "AsyncConnection", "engine/base.py", "Connection"),
    ("ext/asyncio/engine.py", "AsyncEngine", "engine/base.py", "Engine"),
    ("ext/asyncio/engine.py", "AsyncTransaction", "engine/base.py", "Transaction"),
    ("ext/asyncio/result.py", "AsyncResult", "engine/result.py", "Result"),
    ("ext/asyncio/result.py", "AsyncScalarResult", "engine/result.py", "ScalarResult"),
    ("ext/asyncio/result.py", "AsyncMappingResult", "engine/result.py", "MappingResult"),
    ("ext/asyncio/scoping.py", "async_scoped_session", "ext/asyncio/session.py", "AsyncSession"),
    ("ext/asyncio/session.py", "async_sessionmaker", "orm/session.py", "sessionmaker"),
    ("ext/asyncio/session.py", "AsyncSessionTransaction", "orm/session.py", "SessionTransaction"),
]
# intended differences: the session class a sessionmaker builds
SIG_ALLOWED = {("async_sessionmaker", "__init__", "class_")}


def _class_defaults(repo, path, cls):
    import ast

    with open(os.path.join(repo, "lib", "sqlalchemy", path)) as f:
        tree = ast.parse(f.read())
    found = [n for n in tree.body if isinstance(n, ast.ClassDef) and n.name == cls]
    if len(found) != 1:
        raise RuntimeError("C29 signature table: class %s not found exactly once in %s" % (cls, path))
    out = {}
    for m in found[0].body:
        if not isinstance(m, (ast.FunctionDef, ast.AsyncFunctionDef)):
            continue
        if any(isinstance(d, ast.Name) and d.id == "overload" for d in m.decorator_list):
            continue
        a = m.args
        pos = a.posonlyargs + a.args
        d = {x.arg: "<required>" for x in pos[: len(pos) - len(a.defaults)]}
        for arg, default in zip(pos[len(pos) - len(a.defaults) :], a.defaults):
            d[arg.arg] = ast.unparse(default)
        for arg, default in zip(a.kwonlyargs, a.kw_defaults):
            d[arg.arg] = "<required>" if default is None else ast.unparse(default)
        out[m.name] = d
    return out


def signature_rows(repo):
    rows = []
    for ap, ac, sp, sc in PROXY_PAIRS:
        am, sm = _class_defaults(repo, ap, ac), _class_defaults(repo, sp, sc)
        shared = sorted(set(am) & set(sm))
        if len(shared) < 3:
            raise RuntimeError("C29 signature table: %s/%s share only %d methods" % (ac, sc, len(shared)))
        for name in shared:
            for prm in sorted(set(am[name]) & set(sm[name])):
                if prm in ("self", "cls") or (ac, name, prm) in SIG_ALLOWED:
                    continue
                rows.append((ac, name, prm, am[name][prm], sm[name][prm]))
    if len(rows) < 150:
        raise RuntimeError("C29 signature table: only %d rows" % len(rows))
    return rows


def translate(repo, outdir):
    import zlib

    from translate import fingerprint

    fingerprint.check(repo, ANCHORS, "C29")
    if os.environ.get("VERIF_PIN") == "1":
        return []
    rows = signature_rows(repo)
    h = lambda t: zlib.crc32(t.encode("utf8"))
    lines = [
        "(* generated by specs/c29.py from %d proxied methods: (async default, sync default) as crc32 of the" % len(rows),
        "   default expression source, one row per shared parameter *)",
        "From Coq Require Import List ZArith Bool.",
        "Import ListNotations.",
        "Open Scope Z_scope.",
        "Definition gen_defaults : list (Z * Z) := [",
    ]
    body = []
    for ac, name, prm, x, y in rows:
        note = "" if x == y else "  (* DIFFERS: %s.%s(%s): async %s / sync %s *)" % (ac, name, prm, x.replace("*)", "* )"), y.replace("*)", "* )"))
        body.append("  (%d, %d)%s" % (h(x), h(y), note))
    lines.append(";\n".join(body))
    lines += [
        "].",
        "Definition defaults_agree : bool := forallb (fun r => fst r =? snd r) gen_defaults.",
        "Lemma c29_proxy_defaults_agree : defaults_agree = true.",
        "Proof. vm_compute; reflexivity. Qed.",
    ]
    path = os.path.join(outdir, "C29_sigs.v")
    with open(path, "w") as f:
        f.write("\n".join(lines) + "\n")
    _FACTS["proxy_signature_rows"] = len(rows)
    _FACTS["proxy_signature_mismatches"] = [
        "%s.%s(%s): async %s / sync %s" % r for r in rows if r[3] != r[4]
    ]
    return [path]


_FACTS = {}


def impl_facts():
    return dict(_FACTS)


# ------------------------------------------------------------------ case generation
OPS = [[0], [1, 1], [1, 2], [1, 3], [2], [3], [4]]
FINAL_BLOCK = [0, [[2], [1, 9], [3]]]  # "later operations on the engine work"


def _nsusp(blocks, ps):
    """upper estimate of the number of suspensions of the user tasks (no cancellation)"""
    n = 0
    pooled = 0
    for sty, ops in blocks:
        n += 0 if pooled else 4
        txn = False
        for o in ops:
            if o[0] == 0:
                n += 0 if txn else 3
                txn = True
            elif o[0] in (1, 2):
                n += 3 + (0 if txn else 3)
                txn = True
            else:
                n += 1 if txn else 0
                txn = False
        if sty == 0:
            n += 2
            pooled = 1
        elif sty == 1:
            n += 1
            pooled = 1
        else:
            pooled = 0
    return n


def _rand_ops(rng, n):
    return [list(rng.choice(OPS)) for _ in range(n)]


def gen_cases(rng, tier):
    cases = []
    thorough = tier == "thorough"
    progs = []
    # fixed small programs covering every operation and style
    base = [
        [[0, [[1, 1], [2], [3]]]],
        [[0, [[0], [1, 1], [1, 1], [2]]]],
        [[1, [[1, 1], [3]]]],
        [[0, [[1, 1], [3]]], [0, [[2], [1, 2], [4]]]],
        [[2, [[1, 1], [2]]]],
        [[1, [[0], [0], [3], [3], [4]]]],
    ]
    if thorough:
        base += [[[1, [[1, 2], [2]]]], [[0, []]], [[2, []], [1, [[2]]]]]
    for b in base:
        progs.append((rng.choice([1, 2]), 0, b))
    nrand = 40 if thorough else 2
    for _ in range(nrand):
        nb = rng.choice([1, 1, 2])
        bl = [[rng.choice([0, 0, 1, 1, 2]), _rand_ops(rng, rng.randint(0, 4))] for _ in range(nb)]
        progs.append((rng.choice([1, 2]), rng.choice([0, 1]), bl))
    for ps, mo, bl in progs:
        blocks = [[s, o] for s, o in bl] + [FINAL_BLOCK]
        sync_ok = all(s != 2 for s, _ in bl)
        if sync_ok:
            cases.append({"in": [0, ps, mo, blocks, []], "kind": "sync"})
        cases.append({"in": [1, ps, mo, blocks, []], "kind": "async-nocancel", "also_sync": sync_ok})
        n = _nsusp(bl, ps)
        for k in range(n + 1):
            # 1: the cancelled request still takes effect (aiosqlite); 2: it never reached the driver
            cases.append({"in": [1, ps, mo, blocks, [0] * k + [rng.choice([1, 1, 2])]], "kind": "async-cancel"})
        # double cancellation (second one anywhere in the following six suspensions)
        ndbl = 3 if thorough else (1 if len(cases) < 80 else 0)
        for _ in range(ndbl):
            k = rng.randrange(n + 1)
            j = rng.randrange(6)
            cases.append({"in": [1, ps, mo, blocks, [0] * k + [1] + [0] * j + [1]], "kind": "async-cancel2"})
    cases += _extra_cases(rng, tier)
    return cases


def _is_x(c):
    """oracle-only families are recognised by their top-level code"""
    return c["in"][0] >= 100


def nontrivial(c):
    if _is_x(c):
        return True
    return any(d for d in c["in"][4]) or any(o[0] == 1 for _, ops in c["in"][3] for o in ops)


# ------------------------------------------------------------------ implementation side
_DIR = None
_N = [0]


def _dbpath():
    global _DIR
    import tempfile

    if _DIR is None:
        _DIR = tempfile.mkdtemp(prefix="c29_", dir="/dev/shm" if os.path.isdir("/dev/shm") else None)
    _N[0] += 1
    return os.path.join(_DIR, "db%d.sqlite" % _N[0])


_EXC = {
    "CancelledError": 1,
    "IntegrityError": 2,
    "OperationalError": 3,
    "InvalidRequestError": 5,
    "PendingRollbackError": 6,
    "ResourceClosedError": 7,
    "AwaitRequired": 8,
    "TimeoutError": 9,
}


def _exc_code(e):
    return _EXC.get(type(e).__name__, 10)


class _Reg:
    """registry of DBAPI connections in creation order + SQL statements seen by SQLite"""

    def __init__(self):
        self.conns = []  # sqlite3 connections (None while not yet / never created)
        self.sql = []

    def new(self):
        self.conns.append(None)
        return len(self.conns) - 1

    def opened(self, cid, raw):
        self.conns[cid] = raw

        def cb(stmt, cid=cid):
            s = stmt.strip().upper()
            code = (
                0
                if s.startswith("BEGIN")
                else 1
                if s.startswith("INSERT")
                else 2
                if s.startswith("SELECT")
                else 3
                if s.startswith("COMMIT")
                else 4
                if s.startswith("ROLLBACK") and "SAVEPOINT" not in s
                else 5
                if s.startswith("SAVEPOINT")
                else 6
                if s.startswith("ROLLBACK")
                else 7
                if s.startswith("RELEASE")
                else 8
                if s.startswith("UPDATE")
                else 9
                if s.startswith("DELETE")
                else None
            )
            if code is not None:
                self.sql.append([cid, code])

        raw.set_trace_callback(cb)

    def cid_of(self, raw):
        for i, r in enumerate(self.conns):
            if r is raw:
                return i
        return -2

    def in_txn(self):
        out = []
        for r in self.conns:
            try:
                out.append(1 if (r is not None and r.in_transaction) else 0)
            except Exception:
                out.append(0)
        return out


def _install_recipe(sync_engine):
    from sqlalchemy import event

    @event.listens_for(sync_engine, "connect")
    def _c(dbc, rec):
        dbc.isolation_level = None

    @event.listens_for(sync_engine, "begin")
    def _b(conn):
        conn.exec_driver_sql("BEGIN")


def _patch_pool(pool, cnt):
    orig_ret = pool._do_return_conn
    orig_get = pool._do_get

    def ret(record):
        cnt["in"] += 1
        return orig_ret(record)

    def get():
        r = orig_get()
        cnt["out"] += 1
        return r

    orig_inv = pool._invalidate

    def inv(*a, **kw):
        cnt["oom"] = 1  # pool-wide invalidation after a disconnect error: outside the model
        return orig_inv(*a, **kw)

    pool._do_return_conn = ret
    pool._do_get = get
    pool._invalidate = inv


def _warn_count(ws):
    n = 0
    for w in ws:
        m = str(w.message)
        if "Double checkin" in m or "garbage collector is trying to clean up" in m:
            n += 1
    return n


def _create_schema(path):
    import sqlite3

    c = sqlite3.connect(path)
    c.execute("create table t (id integer primary key)")
    c.execute("create table u (id integer primary key, x integer)")
    c.commit()
    c.close()


def _committed(path):
    import sqlite3

    c = sqlite3.connect(path, timeout=0.2)
    try:
        return [r[0] for r in c.execute("select id from t order by id")]
    finally:
        c.close()


def _lockfree(path):
    import sqlite3

    c = sqlite3.connect(path, timeout=0.05)
    try:
        c.execute("BEGIN IMMEDIATE")
        c.rollback()
        return 1
    except Exception:
        return 0
    finally:
        c.close()


# ---- sync run of the modelled programs
def _run_sync_blocks(ps, mo, blocks):
    import gc
    import sqlite3
    import warnings

    from sqlalchemy import create_engine, insert, select, MetaData, Table, Column, Integer

    path = _dbpath()
    _create_schema(path)
    reg = _Reg()
    md = MetaData()
    t = Table("t", md, Column("id", Integer, primary_key=True))

    def creator():
        cid = reg.new()
        raw = sqlite3.connect(path, check_same_thread=False)
        reg.opened(cid, raw)
        return raw

    engine = create_engine("sqlite:///" + path, creator=creator, pool_size=ps, max_overflow=mo)
    _install_recipe(engine)
    with engine.connect():
        pass
    engine.dispose()
    reg.conns.clear()
    reg.sql.clear()
    cnt = {"in": 0, "out": 0}
    _patch_pool(engine.pool, cnt)
    log = []
    outs = []
    nwarn = 0

    def do_ops(conn, ops):
        for o in ops:
            try:
                if o[0] == 0:
                    conn.begin()
                    log.append([0])
                elif o[0] == 1:
                    conn.execute(insert(t).values(id=o[1]))
                    log.append([0])
                elif o[0] == 2:
                    log.append([1, [r[0] for r in conn.execute(select(t.c.id)).all()]])
                elif o[0] == 3:
                    conn.commit()
                    log.append([0])
                else:
                    conn.rollback()
                    log.append([0])
            except Exception as e:
                log.append([2, _exc_code(e)])

    for sty, ops in blocks:
        with warnings.catch_warnings(record=True) as ws:
            warnings.simplefilter("always")
            out = 0
            try:
                if sty == 0:
                    with engine.connect() as conn:
                        do_ops(conn, ops)
                else:
                    conn = engine.connect()
                    try:
                        do_ops(conn, ops)
                    finally:
                        conn.close()
            except BaseException as e:
                out = _exc_code(e)
            conn = None
            co1 = engine.pool.checkedout()
            gc.collect()
            co2 = engine.pool.checkedout()
        nwarn += _warn_count(ws)
        outs.append([out, co1, co2])
    idle = [reg.cid_of(r.dbapi_connection) if r.dbapi_connection is not None else -1 for r in list(engine.pool._pool.queue)]
    obs = [outs, log, [], list(reg.sql), _committed(path), reg.in_txn(), idle, [cnt["out"], cnt["in"], nwarn], 0]
    engine.dispose()
    os.remove(path)
    return obs


# ---- asyncio machinery shared by all async runs
class _Stepper:
    """drives a coroutine; counts the suspensions of the task; delivers Task.cancel() at chosen suspensions"""

    def __init__(self, coro, ctl):
        self.coro = coro
        self.ctl = ctl

    def __await__(self):
        import asyncio

        coro = self.coro
        ctl = self.ctl
        val = None
        exc = None
        while True:
            try:
                fut = coro.throw(exc) if exc is not None else coro.send(val)
            except StopIteration as si:
                return si.value
            k = ctl["n"]
            ctl["n"] += 1
            cancel = k < len(ctl["cs"]) and ctl["cs"][k] != 0
            if cancel and ctl["cs"][k] == 2 and ctl.get("dropped") != k:
                ctl["cs"][k] = 1  # not a droppable driver request: the cancellation finds it in effect
            ctl.pop("dropped", None)
            if getattr(fut, "_c29_term", False):
                label = 9
            elif getattr(fut, "_c29_shield", False):
                label = 13
            elif ctl["label"] is None:
                label = 6  # a direct await of the asyncio layer: cursor._async_soft_close()
            else:
                q = ctl["label"]
                ctl["sub"] += 1
                label = _LABELS.get(q, 99)
                if label == 4 and ctl["sub"] > 1:
                    label = 5
            ctl["trace"].append([label, 1 if cancel else 0])
            if cancel:
                if label == 9:
                    ctl["term_cancel"] = True  # delivered at the shield inside terminate()
                if ctl["in_reset"]:
                    ctl["reset_cancel"] = True  # delivered inside the pool's rollback-on-return
                asyncio.current_task().cancel()
            try:
                val = yield fut
                exc = None
            except BaseException as e:
                exc = e
                val = None


_LABELS = {
    "Connection": 1,
    "Connection.create_function": 2,
    "Future": 2,
    "Result.__aenter__": 3,
    "AsyncAdapt_dbapi_cursor._execute_async": 4,
    "Cursor.close": 6,
    "Connection.commit": 7,
    "Connection.rollback": 8,
    "Connection.close": 10,
    "wait_for": 14,
}

_PATCHED = {}


def _patch_async(ctl_holder):
    """count await_ calls (the awaitable names label the suspensions); tag the shield used by terminate()"""
    if _PATCHED:
        _PATCHED["holder"] = ctl_holder
        return
    import asyncio
    import sys
    import types

    import sqlalchemy.connectors.asyncio as casync
    import sqlalchemy.dialects.sqlite.aiosqlite as aios
    import sqlalchemy.util.concurrency as conc
    import sqlalchemy.util.queue as uq

    _PATCHED["holder"] = ctl_holder
    orig = conc.await_

    def counting_await(aw):
        ctl = _PATCHED["holder"].get("ctl")
        if ctl is None:
            return orig(aw)
        ctl["na"] += 1
        if "inner" in ctl and ctl["task"] is not None and asyncio.current_task() is not ctl["task"]:
            ctl["inner"].append(ctl["na"])
        if ctl["acancel"] is not None and ctl["na"] == ctl["acancel"] and ctl["task"] is not None:
            ctl["task"].cancel()
        old = (ctl["label"], ctl["sub"], ctl["in_reset"])
        ctl["label"] = getattr(aw, "__qualname__", type(aw).__name__)
        ctl["sub"] = 0
        ctl["in_reset"] = False
        if ctl["label"] == "Connection.rollback":
            f = sys._getframe(1)
            while f is not None:
                if f.f_code.co_name == "_reset" and f.f_code.co_filename.endswith("pool/base.py"):
                    ctl["in_reset"] = True
                    break
                f = f.f_back
        try:
            return orig(aw)
        finally:
            ctl["label"], ctl["sub"], ctl["in_reset"] = old

    for mod in (casync, aios, uq):
        if hasattr(mod, "await_"):
            setattr(mod, "await_", counting_await)

    class _AsyncioShim(types.ModuleType):
        def __getattr__(self, k):
            return getattr(asyncio, k)

    shim = _AsyncioShim("asyncio_c29")

    def shield(aw):
        f = asyncio.shield(aw)
        f._c29_term = True
        return f

    shim.shield = shield
    casync.asyncio = shim

    import aiosqlite.core as acore

    orig_execute = acore.Connection._execute

    def _noop():
        return None

    async def _execute(self, fn, *args, **kwargs):
        # decision 2 ("cancelled before the request reached the driver"): the request of the suspension
        # that is about to be cancelled is never queued on the connection thread
        ctl = _PATCHED["holder"].get("ctl")
        if ctl is not None:
            k = ctl["n"]
            if k < len(ctl["cs"]) and ctl["cs"][k] == 2 and asyncio.current_task() is ctl.get("task"):
                ctl["dropped"] = k
                return await orig_execute(self, _noop)  # same machinery, no database effect
        return await orig_execute(self, fn, *args, **kwargs)

    acore.Connection._execute = _execute

    import sqlalchemy.ext.asyncio.engine as aeng
    import sqlalchemy.ext.asyncio.session as asess

    shim2 = _AsyncioShim("asyncio_c29b")

    def shield2(aw):
        f = asyncio.shield(aw)
        f._c29_shield = True
        return f

    shim2.shield = shield2
    aeng.asyncio = shim2
    asess.asyncio = shim2


def _new_ctl(cs):
    return {
        "n": 0,
        "cs": list(cs),
        "trace": [],
        "label": None,
        "sub": 0,
        "na": 0,
        "acancel": None,
        "task": None,
        "in_reset": False,
        "reset_cancel": False,
        "term_cancel": False,
    }


async def _settle(engine_pool):
    """let shielded inner tasks finish, then drop garbage; returns (checkedout before gc, after gc, warnings)"""
    import asyncio
    import gc
    import warnings

    me = asyncio.current_task()
    for _ in range(3):
        others = [x for x in asyncio.all_tasks() if x is not me]
        if not others:
            break
        await asyncio.wait(others, timeout=0.25)
    hung = [x for x in asyncio.all_tasks() if x is not me]
    for x in hung:
        x.cancel()
    if hung:
        await asyncio.wait(hung, timeout=0.25)
    co1 = engine_pool.checkedout()
    with warnings.catch_warnings(record=True) as ws:
        warnings.simplefilter("always")
        # a connection that was never closed is reclaimed whenever the collector gets to it: late
        # callbacks of the connection thread can keep the garbage alive for a few loop iterations
        for _ in range(4):
            await asyncio.sleep(0)
            await asyncio.sleep(0)
            gc.collect()
            await asyncio.sleep(0.003)  # orphaned aiosqlite connections are stopped on their own thread
            if engine_pool.checkedout() == 0:
                break
    return co1, engine_pool.checkedout(), _warn_count(ws), len(hung)


def _async_engine(path, ps, mo, reg, pool_timeout=0.3):
    import sqlite3

    import aiosqlite
    from sqlalchemy.ext.asyncio import create_async_engine

    def creator_fn(*a, **kw):
        cid = reg.new()

        def connector():
            raw = sqlite3.connect(path, check_same_thread=False)
            reg.opened(cid, raw)
            return raw

        c = aiosqlite.Connection(connector, 64)
        c._thread.daemon = True
        return c

    engine = create_async_engine(
        "sqlite+aiosqlite:///" + path,
        pool_size=ps,
        max_overflow=mo,
        pool_timeout=pool_timeout,
        connect_args={"async_creator_fn": creator_fn},
    )
    _install_recipe(engine.sync_engine)
    return engine


def _idle_records(pool, reg):
    out = []
    for r in list(pool._pool._queue._queue):
        d = r.dbapi_connection
        if d is None:
            out.append(-1)
        else:
            raw = d._connection._connection
            out.append(reg.cid_of(raw) if raw is not None else -3)
    return out


async def _run_async_blocks(ps, mo, blocks, cs):
    import asyncio
    import logging
    import warnings

    from sqlalchemy import insert, select, MetaData, Table, Column, Integer

    logging.disable(logging.CRITICAL)
    path = _dbpath()
    _create_schema(path)
    reg = _Reg()
    md = MetaData()
    t = Table("t", md, Column("id", Integer, primary_key=True))
    holder = {}
    _patch_async(holder)
    engine = _async_engine(path, ps, mo, reg)
    async with engine.connect():
        pass
    await engine.dispose()
    await asyncio.sleep(0.002)
    reg.conns.clear()
    reg.sql.clear()
    pool = engine.sync_engine.pool
    cnt = {"in": 0, "out": 0}
    _patch_pool(pool, cnt)
    ctl = _new_ctl(cs)
    holder["ctl"] = ctl
    log = []
    outs = []
    nwarn = 0
    hung = 0

    async def do_ops(conn, ops):
        for o in ops:
            try:
                if o[0] == 0:
                    await conn.begin()
                    log.append([0])
                elif o[0] == 1:
                    await conn.execute(insert(t).values(id=o[1]))
                    log.append([0])
                elif o[0] == 2:
                    log.append([1, [r[0] for r in (await conn.execute(select(t.c.id))).all()]])
                elif o[0] == 3:
                    await conn.commit()
                    log.append([0])
                else:
                    await conn.rollback()
                    log.append([0])
            except Exception as e:
                log.append([2, _exc_code(e)])

    async def block(sty, ops):
        if sty == 0:
            async with engine.connect() as conn:
                await do_ops(conn, ops)
        elif sty == 1:
            conn = await engine.connect()
            try:
                await do_ops(conn, ops)
            finally:
                await conn.close()
        else:
            conn = await engine.connect()
            await do_ops(conn, ops)

    async def runner(sty, ops):
        return await _Stepper(block(sty, ops), ctl)

    cs_eff = ctl["cs"]
    for bi, (sty, ops) in enumerate(blocks):
        if bi == len(blocks) - 1:
            ctl["cs"] = []  # the last block is the "later operations" probe: never cancelled
        with warnings.catch_warnings(record=True) as ws:
            warnings.simplefilter("always")
            task = asyncio.create_task(runner(sty, ops))
            ctl["task"] = task
            out = 0
            try:
                await task
            except BaseException as e:
                out = _exc_code(e)
            task = None
            ctl["task"] = None
            holder["ctl"] = None
            co1, co2, nw, nh = await _settle(pool)
            holder["ctl"] = ctl
        nwarn += nw + _warn_count(ws)
        hung += nh
        outs.append([out, co2 if sty == 2 else co1, co2])
    holder["ctl"] = None
    obs = [
        outs,
        log,
        ctl["trace"],
        list(reg.sql),
        _committed(path),
        reg.in_txn(),
        _idle_records(pool, reg),
        [cnt["out"], cnt["in"], nwarn],
        cnt.get("oom", 0),
    ]
    extra = {
        "hung": hung,
        "lockfree": _lockfree(path),
        "reset_cancel": ctl["reset_cancel"],
        "term_cancel": ctl["term_cancel"],
        "cs": list(cs_eff),
    }
    await engine.dispose()
    await asyncio.sleep(0.002)
    os.remove(path)
    return obs, extra


def impl_setup():
    import gc

    import aiosqlite  # noqa
    import sqlalchemy  # noqa
    import sqlalchemy.ext.asyncio  # noqa
    import sqlalchemy.orm  # noqa
    import sqlalchemy.dialects.sqlite.aiosqlite  # noqa

    gc.collect()
    gc.freeze()  # keeps gc.collect() in the settle step cheap


class _Hang(BaseException):
    pass


_HANGS = [0]


def _with_watchdog(fn, seconds=25):
    """run fn(); a case that does not terminate becomes an observation instead of blocking the check
    (after two hangs the remaining cases of the run are reported as hanging without being run)"""
    import signal

    if _HANGS[0] >= 2:
        return None

    def on_alarm(sig, frm):
        signal.setitimer(signal.ITIMER_REAL, 5)  # once more, should the clean-up of the loop hang too
        raise _Hang()

    old = signal.signal(signal.SIGALRM, on_alarm)
    signal.setitimer(signal.ITIMER_REAL, seconds)
    try:
        return fn()
    except _Hang:
        _HANGS[0] += 1
        return None
    finally:
        signal.setitimer(signal.ITIMER_REAL, 0)
        signal.signal(signal.SIGALRM, old)


def impl(c):
    import asyncio

    if _is_x(c):
        r = _with_watchdog(lambda: _impl_extra(c), 90)
        return r if r is not None else [[99], [98], [0, 0, 0], [[-1, 0, "the program did not terminate (hang)"]]]
    api, ps, mo, blocks, cs = c["in"]
    if api == 0:
        return [_run_sync_blocks(ps, mo, blocks), None, None]
    r = _with_watchdog(lambda: asyncio.run(_run_async_blocks(ps, mo, blocks, cs)))
    if r is None:
        return [[99], None, {"hang": 1}]
    obs, extra = r
    other = None
    if c.get("also_sync"):
        other = _run_sync_blocks(ps, mo, blocks)
    return [obs, other, extra]


def model_pair(c, obs):
    if obs[0] == [99]:
        return c["in"], [99]
    if obs[2] and "cs" in obs[2]:
        # decisions as they took place (a "no effect" cancellation is only possible on a driver request)
        c = dict(c)
        c["in"] = c["in"][:4] + [obs[2]["cs"]]
    if obs[0][8] or (obs[2] and obs[2].get("term_cancel")):
        return c["in"], [77]  # pool-wide invalidation / cancelled inside terminate(): outside the model
    return c["in"], obs[0]


# ------------------------------------------------------------------ oracle
def _safety(blocks, main, extra, what="async"):
    """the cancellation clause of C29 on one observation of the modelled programs"""
    outs, log, trace, sql, committed, in_txn, idle, (n_out, n_in, n_warn), _ = main
    cancelled_blocks = [i for i, o in enumerate(outs) if o[0] == 1]
    for i, (o, (sty, _ops)) in enumerate(zip(outs, blocks)):
        if o[2] != 0:
            return "%s: block %d: pool.checkedout() = %d after the task ended and garbage was collected" % (what, i, o[2])
        if sty != 2 and o[1] != 0:
            return (
                "%s: block %d (style %d): pool.checkedout() = %d after the task ended; the record only came back "
                "through garbage collection" % (what, i, sty, o[1])
            )
    for k in idle:
        if k == -3 or (k >= 0 and k < len(in_txn) and in_txn[k]):
            return "%s: an idle pool record holds a %s connection" % (what, "dead" if k == -3 else "in-transaction")
    if n_in != n_out:
        return "%s: %d checkouts but %d returns to the pool" % (what, n_out, n_in)
    if n_warn and all(sty != 2 for sty, _ in blocks):
        return "%s: %d double-checkin / gc-cleanup warnings although every connection was closed explicitly" % (what, n_warn)
    if outs[-1][0] != 0:
        return "%s: a later block on the same engine failed with code %d" % (what, outs[-1][0])
    if log[-3:] != [[1, [x for x in committed if x != 9]], [0], [0]]:
        return "%s: later operations on the engine did not work: %s (committed %s)" % (what, log[-3:], committed)
    if extra and extra.get("hung"):
        return "%s: %d shielded clean-up task(s) never finished" % (what, extra["hung"])
    if extra and not extra.get("lockfree", 1):
        return "%s: the database is still write-locked after clean-up" % what
    return None


def oracle(c, obs):
    v = _oracle(c, obs)
    if v and not _is_x(c) and obs[2]:
        if obs[2].get("reset_cancel"):
            v += " [cancelled inside the pool's rollback-on-return]"
        if obs[2].get("term_cancel"):
            v += " [second cancellation inside terminate()]"
    return v


def _oracle(c, obs):
    if _is_x(c):
        return _oracle_extra(c, obs)
    main, other, extra = obs
    if extra and extra.get("hang"):
        return "async: the program did not terminate within 25 s (a task or the event loop hangs)"
    api, ps, mo, blocks, cs = c["in"]
    if other is not None:
        # same results, same SQL seen by the database, same final contents, same pool state
        for name, i in (("block outcomes", 0), ("results", 1), ("SQL statements", 3), ("committed rows", 4), ("counters", 7)):
            if main[i] != other[i]:
                return "asyncio API differs from sync API in %s: %s vs %s" % (name, main[i], other[i])
    return _safety(blocks, main, extra, "sync" if api == 0 else "async")


def match_finding(c, what):
    in_reset = "[cancelled inside the pool's rollback-on-return]" in what
    if in_reset and "only came back through garbage collection" in what:
        return "C29-cancel-in-unshielded-close-needs-gc"
    if in_reset and ("after clean-up and gc" in what or "after the task ended and garbage was collected" in what):
        return "C29-session-cancel-in-reset-leaks-slot"
    if _is_x(c):
        if c["in"][0] >= 300 and "was NOT cancelled failed" in what and "database is locked" in what:
            return "C29-cancel-in-select-keeps-write-lock-until-gc"
        return None
    ncancel = sum(1 for d in c["in"][4] if d)
    if ncancel >= 2 and "[second cancellation inside terminate()]" in what:
        return "C29-second-cancel-in-terminate-races-graceful-close"
    return None


# ------------------------------------------------------------------ oracle-only families
# Core statements:  [0] conn.begin()  [1,v] insert v  [2] select  [3] conn.commit()  [4] conn.rollback()
#   [5,[..]] with conn.begin(): ..   [6,[..]] with conn.begin_nested(): ..   [7] sp = conn.begin_nested()
#   [8] sp.rollback()  [9] sp.commit()  [10] raise ValueError
# Core top level:   100 = with engine.connect() as conn   101 = with engine.begin() as conn
# ORM statements:   [1,v] s.add(A(id=v,x=v))  [2] s.flush()  [3] s.commit()  [4] s.rollback()  [5,v] s.refresh(obj v)
#   [6] select all  [7,v] s.get(A, v)  [8,v] s.delete(obj v)  [9,[..]] with s.begin_nested(): ..  [10] raise ValueError
#   [11,v] obj v .x += 10
# ORM top level:    200 = with Session(engine) as s    201 = with Session(engine) as s, s.begin()
X_CORE = [
    [100, [[1, 1], [2], [3]]],
    [101, [[1, 1], [6, [[1, 2]]], [2]]],
    [100, [[5, [[1, 1], [6, [[1, 2], [10]]]]], [2]]],
    [100, [[1, 1], [7], [1, 2], [8], [2], [3], [2]]],
    [101, [[1, 1], [1, 1], [7], [1, 2], [9], [2]]],
    [100, [[0], [1, 1], [3], [5, [[1, 2]]], [4], [2]]],
    [101, [[1, 1], [10]]],
    [100, [[6, [[1, 1], [6, [[1, 2]]], [2]]], [4], [2]]],
]
X_ORM = [
    [200, [[1, 1], [2], [6], [3]]],
    [201, [[1, 1], [1, 2], [2], [11, 1], [6]]],
    [200, [[1, 1], [3], [5, 1], [11, 1], [3], [6]]],
    [200, [[1, 1], [9, [[1, 2], [2], [10]]], [6], [3], [6]]],
    [201, [[1, 1], [2], [8, 1], [2], [6], [7, 1]]],
    [200, [[1, 1], [1, 1], [2], [4], [6]]],
    [200, [[1, 1], [3], [7, 1], [8, 1], [4], [6], [3]]],
]


# the behaviour of a proxied method is steered through execution_options / session defaults while its own
# optional parameters stay at their DEFAULTS: [20,v] commit + another connection adds 100 to row v;
# [21..24,28,29] get / get_one (plain, execution_options populate_existing, explicit populate_existing);
# [25] execute [26] scalars [27,v] scalar with execution_options; [30] scalars plain; [31,v] merge; [32,v] refresh(x)
X_OPT = [
    [202, [[1, 1], [1, 2], [3], [21, 1], [20, 1], [21, 1], [23, 1], [20, 1], [22, 1], [24, 1]]],
    [202, [[1, 1], [3], [22, 1], [20, 1], [24, 1], [20, 1], [29, 1], [20, 1], [28, 1]]],
    [202, [[1, 1], [1, 2], [3], [30], [20, 2], [30], [26], [20, 1], [25], [20, 2], [27, 2]]],
    [202, [[1, 1], [3], [21, 1], [20, 1], [32, 1], [20, 1], [31, 1], [2], [30], [5, 1]]],
    [202, [[1, 1], [3], [21, 1], [20, 1], [21, 1], [8, 1], [2], [21, 1], [24, 1], [3]]],
]


def _extra_cases(rng, tier):
    cases = []
    thorough = tier == "thorough"
    for top, prog in X_OPT:
        # differential only (plus two sampled cancellations): these programs are about results
        cases.append({"in": [top, prog, [-1] if thorough else [2, rng.randrange(1 << 20)]], "kind": "x-opt", "model": False})
    for variant in (300, 301, 302):
        # quick: the last eight suspensions of task A (commit / close / reset-on-return live there) are all tried
        cases.append({"in": [variant, [], [-1] if thorough else [-3, 0, 0]], "kind": "x-two", "model": False})
    for fam, progs in (("x-core", X_CORE), ("x-orm", X_ORM)):
        pick = progs if thorough else [progs[0]] + rng.sample(progs[1:], 2)
        for top, prog in pick:
            # sel: [-1] = every position; otherwise that many seeded positions
            sel = [-1] if thorough else [6, rng.randrange(1 << 20)]
            cases.append({"in": [top, prog, sel], "kind": fam, "model": False})
    return cases


class _UserError(Exception):
    pass


def _mapped():
    if "A" not in _PATCHED_ORM:
        from sqlalchemy import Column, Integer
        from sqlalchemy.orm import declarative_base

        Base = declarative_base()

        class A(Base):
            __tablename__ = "u"
            id = Column(Integer, primary_key=True)
            x = Column(Integer)

        _PATCHED_ORM["A"] = A
    return _PATCHED_ORM["A"]


_PATCHED_ORM = {}


def _ostate(obj):
    from sqlalchemy import inspect

    i = inspect(obj)
    return [int(i.transient), int(i.pending), int(i.persistent), int(i.deleted), int(i.detached)]


def _x_sync(top, prog, path):
    """the program through Engine/Connection/Session; returns [outcome, log]"""
    import sqlite3

    from sqlalchemy import create_engine, insert, select, MetaData, Table, Column, Integer
    from sqlalchemy.orm import Session

    reg = _Reg()

    def creator():
        cid = reg.new()
        raw = sqlite3.connect(path, check_same_thread=False)
        reg.opened(cid, raw)
        return raw

    engine = create_engine("sqlite:///" + path, creator=creator, pool_size=2, max_overflow=0)
    _install_recipe(engine)
    with engine.connect():
        pass
    engine.dispose()
    reg.conns.clear()
    reg.sql.clear()
    md = MetaData()
    t = Table("t", md, Column("id", Integer, primary_key=True))
    log = []
    out = 0
    if top < 200:
        sps = []

        def run(conn, stmts):
            for st in stmts:
                try:
                    k = st[0]
                    if k == 0:
                        conn.begin()
                    elif k == 1:
                        conn.execute(insert(t).values(id=st[1]))
                    elif k == 2:
                        log.append([1, [r[0] for r in conn.execute(select(t.c.id)).all()]])
                        continue
                    elif k == 3:
                        conn.commit()
                    elif k == 4:
                        conn.rollback()
                    elif k == 5:
                        with conn.begin():
                            run(conn, st[1])
                    elif k == 6:
                        with conn.begin_nested():
                            run(conn, st[1])
                    elif k == 7:
                        sps.append(conn.begin_nested())
                    elif k == 8:
                        if sps:
                            sps.pop().rollback()
                    elif k == 9:
                        if sps:
                            sps.pop().commit()
                    elif k == 10:
                        raise _UserError()
                    log.append([0])
                except _UserError:
                    raise
                except Exception as e:
                    log.append([2, _exc_code(e)])

        try:
            if top == 100:
                with engine.connect() as conn:
                    run(conn, prog)
            else:
                with engine.begin() as conn:
                    run(conn, prog)
        except _UserError:
            out = 20
        except BaseException as e:
            out = _exc_code(e)
    else:
        A = _mapped()
        objs = {}

        def run(s, stmts):
            for st in stmts:
                try:
                    k = st[0]
                    if k == 1:
                        o = A(id=st[1], x=st[1])
                        objs.setdefault(st[1], o)
                        s.add(o)
                    elif k == 2:
                        s.flush()
                    elif k == 3:
                        s.commit()
                    elif k == 4:
                        s.rollback()
                    elif k == 5:
                        if st[1] in objs:
                            s.refresh(objs[st[1]])
                            log.append([3, objs[st[1]].x])
                            continue
                    elif k == 6:
                        log.append([1, [[a.id, a.x] for a in s.execute(select(A).order_by(A.id)).scalars().all()]])
                        continue
                    elif k == 7:
                        g = s.get(A, st[1])
                        log.append([4, 0 if g is None else 1])
                        continue
                    elif k == 8:
                        if st[1] in objs:
                            s.delete(objs[st[1]])
                    elif k == 9:
                        with s.begin_nested():
                            run(s, st[1])
                    elif k == 10:
                        raise _UserError()
                    elif k == 11:
                        if st[1] in objs and "x" in objs[st[1]].__dict__:
                            objs[st[1]].x = objs[st[1]].__dict__["x"] + 10
                    elif k == 20:  # another connection changes the row (the session holds no transaction)
                        s.commit()
                        _ext_update(path, st[1])
                    elif k in (21, 22, 23, 24, 28, 29):
                        kw = {}
                        if k in (23, 24):
                            kw["execution_options"] = {"populate_existing": True}
                        if k in (28, 29):
                            kw["populate_existing"] = True
                        g = (s.get if k in (21, 23, 28) else s.get_one)(A, st[1], **kw)
                        objs.setdefault(st[1], g)
                        log.append([6, -1 if g is None else g.__dict__.get("x", -2)])
                        continue
                    elif k == 25:
                        r = s.execute(select(A).order_by(A.id), execution_options={"populate_existing": True}).scalars().all()
                        log.append([1, [[a.id, a.__dict__.get("x", -2)] for a in r]])
                        continue
                    elif k == 26:
                        r = s.scalars(select(A).order_by(A.id), execution_options={"populate_existing": True}).all()
                        log.append([1, [[a.id, a.__dict__.get("x", -2)] for a in r]])
                        continue
                    elif k == 27:
                        a = s.scalar(select(A).where(A.id == st[1]), execution_options={"populate_existing": True})
                        log.append([6, -1 if a is None else a.__dict__.get("x", -2)])
                        continue
                    elif k == 30:
                        r = s.scalars(select(A).order_by(A.id)).all()
                        log.append([1, [[a.id, a.__dict__.get("x", -2)] for a in r]])
                        continue
                    elif k == 31:
                        m = s.merge(A(id=st[1], x=7))
                        log.append([6, m.__dict__.get("x", -2)])
                        continue
                    elif k == 32:
                        if st[1] in objs and objs[st[1]] is not None:
                            s.refresh(objs[st[1]], attribute_names=["x"])
                            log.append([6, objs[st[1]].__dict__.get("x", -2)])
                            continue
                    log.append([0])
                except _UserError:
                    raise
                except Exception as e:
                    log.append([2, _exc_code(e)])

        try:
            if top == 202:
                with Session(engine, expire_on_commit=False) as s:
                    run(s, prog)
            elif top == 200:
                with Session(engine) as s:
                    run(s, prog)
            else:
                with Session(engine) as s, s.begin():
                    run(s, prog)
        except _UserError:
            out = 20
        except BaseException as e:
            out = _exc_code(e)
        # the asyncio program drops its session with the coroutine frame; do the same here (whether an
        # object deleted in a committed transaction reads as "deleted" or "detached" depends on the
        # Session object still being alive)
        s = None
        log.append([5, [[k] + _ostate(o) for k, o in sorted(objs.items()) if o is not None]])
    res = [out, log, list(reg.sql), _committed(path), _committed_u(path), engine.pool.checkedout()]
    engine.dispose()
    return res


def _ext_update(path, v):
    import sqlite3

    c = sqlite3.connect(path, timeout=1.0)
    try:
        c.execute("update u set x = x + 100 where id = ?", (v,))
        c.commit()
    finally:
        c.close()


def _committed_u(path):
    import sqlite3

    c = sqlite3.connect(path, timeout=0.2)
    try:
        return [list(r) for r in c.execute("select id, x from u order by id")]
    finally:
        c.close()


async def _x_async_once(top, prog, path, cs, acancel):
    """one asyncio run of the program; returns (result like _x_sync, safety dict)"""
    import asyncio
    import logging
    import warnings

    from sqlalchemy import insert, select, text, MetaData, Table, Column, Integer
    from sqlalchemy.ext.asyncio import AsyncSession

    logging.disable(logging.CRITICAL)
    reg = _Reg()
    holder = {}
    _patch_async(holder)
    engine = _async_engine(path, 2, 0, reg)
    async with engine.connect():
        pass
    await engine.dispose()
    await asyncio.sleep(0.002)
    reg.conns.clear()
    reg.sql.clear()
    pool = engine.sync_engine.pool
    cnt = {"in": 0, "out": 0}
    _patch_pool(pool, cnt)
    ctl = _new_ctl(cs)
    ctl["acancel"] = acancel
    ctl["inner"] = []
    md = MetaData()
    t = Table("t", md, Column("id", Integer, primary_key=True))
    log = []
    out = 0
    if top < 200:
        sps = []

        async def run(conn, stmts):
            for st in stmts:
                try:
                    k = st[0]
                    if k == 0:
                        await conn.begin()
                    elif k == 1:
                        await conn.execute(insert(t).values(id=st[1]))
                    elif k == 2:
                        log.append([1, [r[0] for r in (await conn.execute(select(t.c.id))).all()]])
                        continue
                    elif k == 3:
                        await conn.commit()
                    elif k == 4:
                        await conn.rollback()
                    elif k == 5:
                        async with conn.begin():
                            await run(conn, st[1])
                    elif k == 6:
                        async with conn.begin_nested():
                            await run(conn, st[1])
                    elif k == 7:
                        sps.append(await conn.begin_nested())
                    elif k == 8:
                        if sps:
                            await sps.pop().rollback()
                    elif k == 9:
                        if sps:
                            await sps.pop().commit()
                    elif k == 10:
                        raise _UserError()
                    log.append([0])
                except _UserError:
                    raise
                except Exception as e:
                    log.append([2, _exc_code(e)])

        async def program():
            if top == 100:
                async with engine.connect() as conn:
                    await run(conn, prog)
            else:
                async with engine.begin() as conn:
                    await run(conn, prog)

        objs = None
    else:
        A = _mapped()
        objs = {}

        async def run(s, stmts):
            for st in stmts:
                try:
                    k = st[0]
                    if k == 1:
                        o = A(id=st[1], x=st[1])
                        objs.setdefault(st[1], o)
                        s.add(o)
                    elif k == 2:
                        await s.flush()
                    elif k == 3:
                        await s.commit()
                    elif k == 4:
                        await s.rollback()
                    elif k == 5:
                        if st[1] in objs:
                            await s.refresh(objs[st[1]])
                            log.append([3, objs[st[1]].x])
                            continue
                    elif k == 6:
                        log.append([1, [[a.id, a.x] for a in (await s.execute(select(A).order_by(A.id))).scalars().all()]])
                        continue
                    elif k == 7:
                        g = await s.get(A, st[1])
                        log.append([4, 0 if g is None else 1])
                        continue
                    elif k == 8:
                        if st[1] in objs:
                            await s.delete(objs[st[1]])
                    elif k == 9:
                        async with s.begin_nested():
                            await run(s, st[1])
                    elif k == 10:
                        raise _UserError()
                    elif k == 11:
                        if st[1] in objs and "x" in objs[st[1]].__dict__:
                            objs[st[1]].x = objs[st[1]].__dict__["x"] + 10
                    elif k == 20:  # another connection changes the row (the session holds no transaction)
                        await s.commit()
                        _ext_update(path, st[1])
                    elif k in (21, 22, 23, 24, 28, 29):
                        kw = {}
                        if k in (23, 24):
                            kw["execution_options"] = {"populate_existing": True}
                        if k in (28, 29):
                            kw["populate_existing"] = True
                        g = await (s.get if k in (21, 23, 28) else s.get_one)(A, st[1], **kw)
                        objs.setdefault(st[1], g)
                        log.append([6, -1 if g is None else g.__dict__.get("x", -2)])
                        continue
                    elif k == 25:
                        r = (await s.execute(select(A).order_by(A.id), execution_options={"populate_existing": True})).scalars().all()
                        log.append([1, [[a.id, a.__dict__.get("x", -2)] for a in r]])
                        continue
                    elif k == 26:
                        r = (await s.scalars(select(A).order_by(A.id), execution_options={"populate_existing": True})).all()
                        log.append([1, [[a.id, a.__dict__.get("x", -2)] for a in r]])
                        continue
                    elif k == 27:
                        a = await s.scalar(select(A).where(A.id == st[1]), execution_options={"populate_existing": True})
                        log.append([6, -1 if a is None else a.__dict__.get("x", -2)])
                        continue
                    elif k == 30:
                        r = (await s.scalars(select(A).order_by(A.id))).all()
                        log.append([1, [[a.id, a.__dict__.get("x", -2)] for a in r]])
                        continue
                    elif k == 31:
                        m = await s.merge(A(id=st[1], x=7))
                        log.append([6, m.__dict__.get("x", -2)])
                        continue
                    elif k == 32:
                        if st[1] in objs and objs[st[1]] is not None:
                            await s.refresh(objs[st[1]], attribute_names=["x"])
                            log.append([6, objs[st[1]].__dict__.get("x", -2)])
                            continue
                    log.append([0])
                except _UserError:
                    raise
                except Exception as e:
                    log.append([2, _exc_code(e)])

        async def program():
            if top == 202:
                async with AsyncSession(engine, expire_on_commit=False) as s:
                    await run(s, prog)
            elif top == 200:
                async with AsyncSession(engine) as s:
                    await run(s, prog)
            else:
                async with AsyncSession(engine) as s, s.begin():
                    await run(s, prog)

    async def runner():
        return await _Stepper(program(), ctl)

    holder["ctl"] = ctl
    with warnings.catch_warnings(record=True) as ws:
        warnings.simplefilter("always")
        task = asyncio.create_task(runner())
        ctl["task"] = task
        try:
            await task
        except _UserError:
            out = 20
        except BaseException as e:
            out = _exc_code(e)
        task = None
        ctl["task"] = None
        holder["ctl"] = None
        co1, co2, nw, nh = await _settle(pool)
    nwarn = nw + _warn_count(ws)
    if objs is not None:
        log.append([5, [[k] + _ostate(o) for k, o in sorted(objs.items()) if o is not None]])
    res = [out, log, list(reg.sql), _committed(path), _committed_u(path), co2]
    # later operations on the engine work
    later = None
    try:
        async with engine.connect() as c1, engine.connect() as c2:
            await c1.execute(text("select 1"))
            await c2.execute(insert(t).values(id=77))
            await c2.commit()
    except BaseException as e:
        later = "%s: %s" % (type(e).__name__, str(e)[:80])
    idle = _idle_records(pool, reg)
    in_txn = reg.in_txn()
    safety = {
        "co1": co1,
        "co2": co2,
        "nwarn": nwarn,
        "hung": nh,
        "later": later,
        "idle_bad": [k for k in idle if k == -3 or (0 <= k < len(in_txn) and in_txn[k])],
        "cnt": [cnt["out"], cnt["in"]],
        "lockfree": _lockfree(path),
        "co_end": pool.checkedout(),
        "nsusp": ctl["n"],
        "nawait": ctl["na"],
        "inner": ctl["inner"],
        "reset_cancel": ctl["reset_cancel"],
    }
    await engine.dispose()
    await asyncio.sleep(0.002)
    return res, safety


def _x_safety(sf):
    if sf["co2"] != 0 or sf["co_end"] != 0:
        return "pool.checkedout() = %d after clean-up and gc" % max(sf["co2"], sf["co_end"])
    if sf["co1"] != 0:
        return "pool.checkedout() = %d after the task ended; the record only came back through garbage collection" % sf["co1"]
    if sf["idle_bad"]:
        return "an idle pool record holds a dead / in-transaction connection"
    if sf["cnt"][0] != sf["cnt"][1]:
        return "%d checkouts but %d returns to the pool" % tuple(sf["cnt"])
    if sf["nwarn"]:
        return "%d double-checkin / gc-cleanup warnings" % sf["nwarn"]
    if sf["later"]:
        return "later operations on the engine failed: %s" % sf["later"]
    if sf["hung"]:
        return "%d shielded clean-up task(s) never finished" % sf["hung"]
    if not sf["lockfree"]:
        return "the database is still write-locked after clean-up"
    return None


# ---- two tasks on a pool of one connection: task A (cancelled at its k-th suspension) holds the only
# connection, task B (never cancelled) waits on the exhausted pool.  Whatever happens to A, B must get a
# usable connection: a record may become available to another checkout only AFTER it was invalidated.
#   300: A = conn = await engine.connect(); insert 1; commit; (finally) await conn.close()
#   301: A = async with AsyncSession(engine) as s: s.add(A(1)); await s.commit()
#   302: A = async with engine.connect() as conn: insert 1; select; commit
async def _two_once(variant, path, cs):
    import asyncio
    import logging
    import warnings

    from sqlalchemy import insert, select, text, MetaData, Table, Column, Integer
    from sqlalchemy.ext.asyncio import AsyncSession

    logging.disable(logging.CRITICAL)
    reg = _Reg()
    holder = {}
    _patch_async(holder)
    engine = _async_engine(path, 1, 0, reg, pool_timeout=3)
    async with engine.connect():
        pass
    await engine.dispose()
    await asyncio.sleep(0.002)
    reg.conns.clear()
    reg.sql.clear()
    pool = engine.sync_engine.pool
    cnt = {"in": 0, "out": 0}
    _patch_pool(pool, cnt)
    ctl = _new_ctl(cs)
    md = MetaData()
    t = Table("t", md, Column("id", Integer, primary_key=True))
    started = asyncio.Event()
    b_log = []

    async def prog_a():
        if variant == 300:
            conn = await engine.connect()
            try:
                started.set()
                await asyncio.sleep(0)
                await asyncio.sleep(0)
                await conn.execute(insert(t).values(id=1))
                await conn.commit()
            finally:
                await conn.close()
        elif variant == 301:
            Acls = _mapped()
            async with AsyncSession(engine) as s:
                s.add(Acls(id=1, x=1))
                await s.flush()
                started.set()
                await asyncio.sleep(0)
                await asyncio.sleep(0)
                await s.commit()
        else:
            async with engine.connect() as conn:
                started.set()
                await asyncio.sleep(0)
                await asyncio.sleep(0)
                await conn.execute(insert(t).values(id=1))
                (await conn.execute(select(t.c.id))).all()
                await conn.commit()

    async def prog_b():
        await started.wait()
        try:
            async with engine.connect() as c:
                rows = [r[0] for r in (await c.execute(select(t.c.id))).all()]
                await c.execute(insert(t).values(id=50))
                await c.commit()
            b_log.append([0, rows])
        except BaseException as e:
            b_log.append([1, "%s: %s" % (type(e).__name__, str(e)[:90])])

    async def runner():
        return await _Stepper(prog_a(), ctl)

    holder["ctl"] = ctl
    out = 0
    with warnings.catch_warnings(record=True) as ws:
        warnings.simplefilter("always")
        tb = asyncio.create_task(prog_b())
        ta = asyncio.create_task(runner())
        ctl["task"] = ta
        try:
            await ta
        except BaseException as e:
            out = _exc_code(e)
        if not started.is_set():
            started.set()  # A died before it had a connection: B just runs
        try:
            await asyncio.wait_for(tb, 6)
        except BaseException as e:
            b_log.append([1, "task B did not finish: %s" % type(e).__name__])
        ta = tb = None
        ctl["task"] = None
        holder["ctl"] = None
        co1, co2, nw, nh = await _settle(pool)
    later = None
    try:
        async with engine.connect() as c1:
            await c1.execute(insert(t).values(id=77))
            await c1.commit()
    except BaseException as e:
        later = "%s: %s" % (type(e).__name__, str(e)[:80])
    idle = _idle_records(pool, reg)
    in_txn = reg.in_txn()
    sf = {
        "co1": co1,
        "co2": co2,
        "nwarn": nw + _warn_count(ws),
        "hung": nh,
        "later": later,
        "idle_bad": [k for k in idle if k == -3 or (0 <= k < len(in_txn) and in_txn[k])],
        "cnt": [cnt["out"], cnt["in"]],
        "lockfree": _lockfree(path),
        "co_end": pool.checkedout(),
        "nsusp": ctl["n"],
        "nawait": ctl["na"],
        "inner": [],
        "reset_cancel": ctl["reset_cancel"],
        "a_out": out,
        "b": b_log[0] if b_log else [1, "task B produced nothing"],
        "committed": _committed(path),
    }
    await engine.dispose()
    await asyncio.sleep(0.002)
    return sf


def _two_safety(sf):
    b = sf["b"]
    if b[0] != 0:
        return "the task that was NOT cancelled failed while waiting for / using the pooled connection: %s" % b[1]
    if b[1] not in ([], [1]):
        return "the waiting task read %s" % (b[1],)
    if 50 not in sf["committed"]:
        return "the waiting task's committed row is missing: %s" % (sf["committed"],)
    return _x_safety(sf)


def _impl_two(c):
    import asyncio

    variant, _prog, sel = c["in"]

    def fresh():
        path = _dbpath()
        _create_schema(path)
        return path

    p = fresh()
    sf0 = asyncio.run(_two_once(variant, p, []))
    os.remove(p)
    viols = []
    v0 = _two_safety(sf0)
    if v0:
        viols.append([-1, 0, v0])
    n = sf0["nsusp"]
    positions = list(range(n))
    if sel[0] == -2:
        positions = [sel[2]]
    elif sel[0] == -3:
        positions = positions[-8:]
    elif sel != [-1]:
        import random

        positions = random.Random(sel[1]).sample(positions, min(sel[0], len(positions)))
    for k in positions:
        p = fresh()
        sf = asyncio.run(_two_once(variant, p, [0] * k + [1]))
        os.remove(p)
        v = _two_safety(sf)
        if v:
            viols.append([0, k, v + (" [cancelled inside the pool's rollback-on-return]" if sf["reset_cancel"] else "")])
    base = [sf0["a_out"], sf0["b"], sf0["committed"]]
    return [base, base, [n, 0, len(positions)], viols[:5]]


def _impl_extra(c):
    import asyncio
    import random

    top, prog, sel = c["in"]
    if top >= 300:
        return _impl_two(c)

    def fresh():
        path = _dbpath()
        _create_schema(path)
        return path

    p = fresh()
    sync_res = _x_sync(top, prog, p)
    os.remove(p)
    p = fresh()
    async_res, sf0 = asyncio.run(_x_async_once(top, prog, p, [], None))
    os.remove(p)
    viols = []
    v0 = _x_safety(sf0)
    if v0:
        viols.append([-1, 0, v0])
    n, inner = sf0["nsusp"], sf0["inner"]
    positions = [(0, k) for k in range(n)] + [(1, m) for m in inner]
    if sel[0] == -2:
        positions = [(sel[1], sel[2])]
    elif sel != [-1]:
        positions = random.Random(sel[1]).sample(positions, min(sel[0], len(positions)))
    for mode, k in positions:
        p = fresh()
        if mode == 0:
            _, sf = asyncio.run(_x_async_once(top, prog, p, [0] * k + [1], None))
        else:
            _, sf = asyncio.run(_x_async_once(top, prog, p, [], k))
        os.remove(p)
        v = _x_safety(sf)
        if v:
            viols.append([mode, k, v + (" [cancelled inside the pool's rollback-on-return]" if sf["reset_cancel"] else "")])
    return [sync_res, async_res, [n, len(inner), len(positions)], viols[:5]]


def _oracle_extra(c, obs):
    sync_res, async_res, _counts, viols = obs
    if sync_res == [99]:
        return viols[0][2]
    names = ["outcome", "results", "SQL statements", "rows of t", "rows of u", "checkedout"]
    for nm, a, b in zip(names, sync_res, async_res):
        if a != b:
            return "asyncio API differs from sync API in %s: sync %s vs async %s" % (nm, a, b)
    if viols:
        # a violation that is not the known write-lock finding is reported first
        viols = sorted(viols, key=lambda x: "database is locked" in x[2])
        mode, k, v = viols[0]
        return "cancelled at %s %d: %s" % ("suspension" if mode == 0 else "await_ call (inner task)", k, v)
    return None
