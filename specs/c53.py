"""C53 - horizontal sharding routes reads and writes per the shard choosers.

Case (tree):  [n, shard_chooser, identity_chooser, execute_chooser, init, ops]   (see coq/orm/ShardRun.v)
  n                 number of shards (2 or 3), SQLite files s0.db .. s2.db
  shard_chooser     [0, sel, table, dflt]  table[key mod len]       (hash / attribute based)
                    [1, sel, [[bound, shard] ..], dflt]              (range based)    sel 0 pk, 1 grp, 2 val
  identity_chooser  table of shard lists indexed by pk mod len
  execute_chooser   [all, grp_table, pk_table, val_table]: shard lists per query kind / argument
  init              rows [pk, grp, val] present in each shard before the session starts
  ops               [0,pk,grp,val,pre] add | [1,o,g,v] set | [2] flush | [3] commit | [4,[o..]] delete (one flush) |
                    [5,qkind,arg,tgt,how] query | [6,k,tok] get | [7,o] refresh | [8,pk,grp,val,tok] merge
Observation (run_full): [per-op [ret, writes, shards read, object states, visible rows per shard], error code,
committed rows per shard]; model and implementation are compared through a digest of it (run_case).
"""
import atexit
import os
import shutil
import sqlite3
import tempfile
import warnings

ID = "C53"
LEVEL = "proof"
PROPS = "props/C53.v"
RUNNER = ("SAV.orm.ShardRun", "run_case")
STATIC_MODULES = ["SAV.orm.ShardRun"]
RULE = (
    "programs of 1..9 session operations (add [with/without preset identity token], attribute change, flush, "
    "commit, delete of one or several objects in one flush, merge of a detached object carrying an identity token, query by all/grp/pk/val with or without an explicit shard given through set_shard / "
    "bind_arguments / set_shard_id, get with and without identity_token, refresh) against 2-3 SQLite file "
    "databases pre-seeded with generated rows (same primary keys in several shards on purpose) under "
    "generated table-encoded shard/identity/execute choosers (hash, attribute and range based; execute "
    "choosers may repeat or omit shards, rarely return no shard). Families: all ordered pairs of 30 fixed "
    "operations (incl. primary-key conflicts, preset token, no-net-change assignment, an assignment that makes "
    "the chooser prefer another shard) after a fixed prefix in a fixed 2-shard world with primary key 1 in both "
    "shards; directed same-pk-in-several-shards programs; random programs. non-trivial (static) = the same "
    "primary key can live in two shards (initial data or two adds), or the adds go to two different shards, "
    "or an untargeted query is sent to two different shards"
)
TRUSTED = [
    "hand-written Gallina transcription (coq/orm/Shard.v) of ShardedSession._choose_shard_and_assign / "
    "_identity_lookup / get_bind / connection_callable, execute_and_instances, the identity-token handling of "
    "loading._load_on_ident / _set_get_options / _instance_processor and Session._get_impl, and of the unit of "
    "work for one mapper (UPDATE pass, INSERT pass in add order, one DELETE per deleted object), Session.merge/_merge for a "
    "detached single-table object; pinned to the normalised source of "
    "the anchors and compared behaviourally on every run",
    "SQLite as the reference database of each shard (primary-key constraint, ORDER BY pk); harness reads the "
    "shard files with the sqlite3 module and the in-transaction rows through the session's own connections",
    "harness conventions: one mapped class T(pk, grp, val) with client-supplied primary key; "
    "expire_on_commit=False, autoflush=True; delete is flush+delete+flush; operations on an object in the "
    "wrong lifecycle state are rejected by the harness (code 3); a run ends at the first exception",
]
ASSUMPTIONS = [
    "the three chooser functions are arbitrary but return identifiers of bound shards",
    "primary keys are not modified; no relationships, no bulk UPDATE/DELETE statements, no row switch "
    "(delete and add of the same identity in one flush), no expired attributes, no rollback continuation",
]
ANCHORS = [
    ("lib/sqlalchemy/ext/horizontal_shard.py", "ShardedQuery.set_shard"),
    ("lib/sqlalchemy/ext/horizontal_shard.py", "ShardedSession._identity_lookup"),
    ("lib/sqlalchemy/ext/horizontal_shard.py", "ShardedSession._choose_shard_and_assign"),
    ("lib/sqlalchemy/ext/horizontal_shard.py", "ShardedSession.connection_callable"),
    ("lib/sqlalchemy/ext/horizontal_shard.py", "ShardedSession.get_bind"),
    ("lib/sqlalchemy/ext/horizontal_shard.py", "ShardedSession.bind_shard"),
    ("lib/sqlalchemy/ext/horizontal_shard.py", "execute_and_instances"),
    ("lib/sqlalchemy/orm/session.py", "Session._identity_lookup"),
    ("lib/sqlalchemy/orm/loading.py", "_load_on_ident"),
    ("lib/sqlalchemy/orm/loading.py", "_set_get_options"),
    ("lib/sqlalchemy/orm/loading.py", "get_from_identity"),
    ("lib/sqlalchemy/orm/mapper.py", "Mapper.identity_key_from_primary_key"),
    ("lib/sqlalchemy/orm/mapper.py", "Mapper._identity_key_from_state"),
    ("lib/sqlalchemy/orm/persistence.py", "_connections_for_states"),
    ("lib/sqlalchemy/orm/persistence.py", "_organize_states_for_save"),
    ("lib/sqlalchemy/orm/persistence.py", "_organize_states_for_delete"),
    ("lib/sqlalchemy/orm/persistence.py", "_collect_delete_commands"),
    ("lib/sqlalchemy/orm/session.py", "Session.merge"),
    ("lib/sqlalchemy/orm/session.py", "Session._merge"),
]

NAMES = ["s0", "s1", "s2"]
M60 = (1 << 60) - 1


def translate(repo, outdir):
    from translate import fingerprint

    fingerprint.check(repo, ANCHORS, "C53")
    return []


# ---------------------------------------------------------------- digest (same function as ShardRun.hash_tree)
def _hash(h, t):
    if isinstance(t, int):
        return (h * 1000003 + (2 * t + 4 if t >= 0 else -2 * t + 3)) & M60
    h = (h * 1000003 + 1) & M60
    for x in t:
        h = _hash(h, x)
    return (h * 1000003 + 2) & M60


def model_pair(c, obs):
    return c["in"], [_hash(7, obs), obs[1], len(obs[0])]


# ---------------------------------------------------------------- chooser tables (shared by harness and oracle)
def _nth_mod(tab, k):
    return tab[k % len(tab)] if tab else None


def shard_choice(spec, row):
    kind, sel, tab, dflt = spec
    key = row[sel]
    if kind == 0:
        r = _nth_mod(tab, key)
        return dflt if r is None else r
    for b, s in tab:
        if key < b:
            return s
    return dflt


def ident_choice(spec, k):
    r = _nth_mod(spec, k)
    return [] if r is None else r


def exec_choice(spec, q):
    kind, arg = q
    if kind == 0:
        return spec[0]
    r = _nth_mod(spec[kind], arg)
    return [] if r is None else r


def qmatch(q, row):
    kind, arg = q
    return kind == 0 or (kind == 1 and row[1] == arg) or (kind == 2 and row[0] == arg) or (kind == 3 and row[2] >= arg)


# ---------------------------------------------------------------- implementation side
_ENV = {}


def _env():
    if _ENV:
        return _ENV
    from sqlalchemy import Column, Integer, create_engine, event
    from sqlalchemy.orm import declarative_base

    warnings.simplefilter("ignore")
    base = "/dev/shm" if os.path.isdir("/dev/shm") else None
    d = tempfile.mkdtemp(prefix="c53_", dir=base)
    atexit.register(shutil.rmtree, d, True)
    Base = declarative_base()

    class T(Base):
        __tablename__ = "t"
        pk = Column(Integer, primary_key=True, autoincrement=False)
        grp = Column(Integer)
        val = Column(Integer)

    log = []
    state = {"quiet": False}
    engines, files = [], []
    for k in range(3):
        path = os.path.join(d, "s%d.db" % k)
        e = create_engine("sqlite:///" + path, connect_args={"autocommit": False})
        Base.metadata.create_all(e)

        def bce(conn, cursor, statement, parameters, context, executemany, k=k):
            if not state["quiet"]:
                log.append((k, statement, parameters, executemany))

        event.listen(e, "before_cursor_execute", bce)
        engines.append(e)
        files.append(path)
    _ENV.update(T=T, engines=engines, files=files, log=log, state=state)
    return _ENV


def _classify(log):
    """-> (writes sorted, shards read in order)"""
    writes, reads = [], []
    for k, stmt, params, many in log:
        head = stmt.lstrip().split(None, 1)[0].upper()
        plist = list(params) if many else [params]
        if head == "SELECT":
            reads.append(k)
        elif head == "INSERT":
            assert stmt.startswith("INSERT INTO t (pk, grp, val)"), stmt
            for p in plist:
                writes.append([0, k, p[0], p[1], p[2]])
        elif head == "UPDATE":
            for p in plist:
                writes.append([1, k, p[-1]])
        elif head == "DELETE":
            for p in plist:
                writes.append([2, k, p[-1]])
        else:
            raise AssertionError("unexpected statement %r" % stmt)
    writes.sort(key=lambda w: (w[0], w[1], w[2]))
    return writes, reads


def impl(c):
    from sqlalchemy import exc, inspect, select
    from sqlalchemy.ext.horizontal_shard import ShardedSession, set_shard_id
    from sqlalchemy.orm import exc as orm_exc
    from sqlalchemy.orm import make_transient_to_detached

    env = _env()
    T, engines, files, log, hstate = env["T"], env["engines"], env["files"], env["log"], env["state"]
    n, scs, ics, ecs, init, ops = c["in"]
    for k in range(3):
        con = sqlite3.connect(files[k])
        con.execute("DELETE FROM t")
        if k < n:
            con.executemany("INSERT INTO t (pk, grp, val) VALUES (?,?,?)", [tuple(r) for r in init[k]])
        con.commit()
        con.close()

    def shard_chooser(mapper, instance, clause=None):
        return NAMES[shard_choice(scs, (instance.pk, instance.grp, instance.val))]

    def identity_chooser(mapper, primary_key, *, lazy_loaded_from, execution_options, bind_arguments, **kw):
        return [NAMES[s] for s in ident_choice(ics, primary_key[0])]

    def execute_chooser(ctx):
        wc = ctx.statement.whereclause
        if wc is None:
            q = (0, 0)
        else:
            v = wc.right.value
            if v is None:
                v = ctx.parameters[wc.right.key]
            q = ({"grp": 1, "pk": 2, "val": 3}[wc.left.name], v)
        return [NAMES[s] for s in exec_choice(ecs, q)]

    sess = ShardedSession(
        shard_chooser=shard_chooser,
        identity_chooser=identity_chooser,
        execute_chooser=execute_chooser,
        shards={NAMES[k]: engines[k] for k in range(n)},
        expire_on_commit=False,
    )
    objs = []

    def num(o):
        for i, x in enumerate(objs):
            if x is o:
                return i
        objs.append(o)
        return len(objs) - 1

    def pick(o):
        return objs[o % len(objs)] if objs else None

    def states():
        out = []
        for o in objs:
            st = inspect(o)
            life = 0 if (st.pending or st.transient) else 1 if st.persistent else 2
            tok = st.identity_token
            d = st.dict
            out.append([life, -1 if tok is None else NAMES.index(tok), d["pk"], d["grp"], d["val"]])
        return out

    def snapshot():
        hstate["quiet"] = True
        try:
            return [
                [list(r) for r in sess.connection(bind_arguments={"shard_id": NAMES[k]}).exec_driver_sql(
                    "SELECT pk, grp, val FROM t ORDER BY pk").all()]
                for k in range(n)
            ]
        finally:
            hstate["quiet"] = False

    def where(stmt_or_query, kind, arg):
        if kind == 1:
            return stmt_or_query.where(T.grp == arg)
        if kind == 2:
            return stmt_or_query.where(T.pk == arg)
        if kind == 3:
            return stmt_or_query.where(T.val >= arg)
        return stmt_or_query

    trace = []
    err = 0
    try:
        for op in ops:
            del log[:]
            code = op[0]
            ret = []
            try:
                if code == 0:
                    o = T(pk=op[1], grp=op[2], val=op[3])
                    if op[4] >= 0:
                        inspect(o).identity_token = NAMES[op[4]]
                    sess.add(o)
                    num(o)
                elif code == 1:
                    o = pick(op[1])
                    if o is None or not (inspect(o).pending or inspect(o).persistent):
                        err = 3
                        break
                    o.grp = op[2]
                    o.val = op[3]
                elif code == 2:
                    sess.flush()
                elif code == 3:
                    sess.commit()
                elif code == 4:
                    victims = [pick(x) for x in op[1]]
                    if any(o is None or not inspect(o).persistent for o in victims):
                        err = 3
                        break
                    sess.flush()
                    for o in victims:  # all of them are deleted by ONE flush
                        sess.delete(o)
                    sess.flush()
                elif code == 5:
                    _, kind, arg, tgt, how = op
                    stmt = where(select(T), kind, arg).order_by(T.pk)
                    if how == 1:
                        qy = where(sess.query(T), kind, arg).order_by(T.pk)
                        res = (qy.set_shard(NAMES[tgt]) if tgt >= 0 else qy).all()
                    elif tgt < 0:
                        res = sess.execute(stmt).scalars().all()
                    elif how == 0:
                        res = sess.execute(stmt, bind_arguments={"shard_id": NAMES[tgt]}).scalars().all()
                    else:
                        res = sess.execute(stmt.options(set_shard_id(NAMES[tgt]))).scalars().all()
                    ret = [1, [num(o) for o in res]]
                elif code == 6:
                    if op[2] >= 0:
                        o = sess.get(T, op[1], identity_token=NAMES[op[2]])
                    else:
                        o = sess.get(T, op[1])
                    ret = [2] if o is None else [2, num(o)]
                elif code == 7:
                    o = pick(op[1])
                    if o is None or not inspect(o).persistent:
                        err = 3
                        break
                    try:
                        sess.refresh(o)
                    except exc.InvalidRequestError:
                        err = 5
                        break
                elif code == 8:
                    # a detached object whose identity key carries the shard: (T, (pk,), token)
                    o = T(pk=op[1], grp=op[2], val=op[3])
                    inspect(o).identity_token = NAMES[op[4]]
                    make_transient_to_detached(o)
                    m = sess.merge(o)
                    ret = [2, num(m)]
                else:
                    raise AssertionError("bad op")
            except exc.IntegrityError:
                err = 1
                break
            except orm_exc.MultipleResultsFound:
                err = 2
                break
            except IndexError:
                err = 4
                break
            except Exception as e:  # anything else escaping from the Session API: reported by the oracle
                err = 9
                unexpected = "%s: %s" % (type(e).__name__, str(e)[:200])
                break
            for o in list(sess.identity_map.values()):
                num(o)
            writes, reads = _classify(log)
            trace.append([ret, writes, reads, states(), snapshot()])
    finally:
        sess.rollback()
        sess.close()
    final = []
    for k in range(n):
        con = sqlite3.connect(files[k])
        final.append([list(r) for r in con.execute("SELECT pk, grp, val FROM t ORDER BY pk")])
        con.close()
    if err == 9:
        return [trace, err, final, [ord(ch) for ch in unexpected]]
    return [trace, err, final]


# ---------------------------------------------------------------- generators
def _rand_choosers(rng, n):
    sh = list(range(n))
    if rng.random() < 0.6:
        sc = [0, rng.choice([0, 1, 1, 2]), [rng.choice(sh) for _ in range(rng.randint(1, 4))], rng.choice(sh)]
    else:
        bounds = sorted(rng.sample(range(1, 8), rng.randint(1, 2)))
        sc = [1, rng.choice([0, 1, 2]), [[b, rng.choice(sh)] for b in bounds], rng.choice(sh)]

    def shlist(allow_empty=False):
        r = rng.random()
        if r < 0.45:
            l = list(sh)
            rng.shuffle(l)
            return l
        if r < 0.85:
            return rng.sample(sh, rng.randint(1, n))
        if r < 0.93 or not allow_empty:
            return [rng.choice(sh) for _ in range(rng.randint(1, 3))]  # may repeat a shard
        return []

    ic = [shlist(True) for _ in range(rng.randint(1, 3))]
    ec = [shlist(True)] + [[shlist(True) for _ in range(rng.randint(1, 3))] for _ in range(3)]
    return sc, ic, ec


def _rand_init(rng, n, maxpk=4):
    return [
        [[pk, rng.randint(0, 2), rng.randint(0, 9)] for pk in sorted(rng.sample(range(maxpk + 1), rng.randint(0, 3)))]
        for _ in range(n)
    ]


def _rand_op(rng, n, maxpk=4):
    r = rng.random()
    tgt = lambda: rng.randrange(n) if rng.random() < 0.4 else -1
    if r < 0.22:
        return [0, rng.randint(0, maxpk), rng.randint(0, 2), rng.randint(0, 9), rng.randrange(n) if rng.random() < 0.12 else -1]
    if r < 0.36:
        return [1, rng.randint(0, 7), rng.randint(0, 2), rng.randint(0, 9)]
    if r < 0.42:
        return [2]
    if r < 0.50:
        return [3]
    if r < 0.58:
        return [4, [rng.randint(0, 7) for _ in range(rng.choice([1, 1, 2, 2, 3]))]]
    if r < 0.80:
        kind = rng.choice([0, 0, 1, 2, 3])
        arg = 0 if kind == 0 else rng.randint(0, 2) if kind == 1 else rng.randint(0, maxpk) if kind == 2 else rng.randint(0, 9)
        return [5, kind, arg, tgt(), rng.randint(0, 2)]
    if r < 0.90:
        return [6, rng.randint(0, maxpk), tgt()]
    if r < 0.96:
        return [8, rng.randint(0, maxpk), rng.randint(0, 2), rng.randint(0, 9), rng.randrange(n)]
    return [7, rng.randint(0, 7)]


def _random_case(rng):
    n = rng.choice([2, 3, 3])
    sc, ic, ec = _rand_choosers(rng, n)
    ops = [_rand_op(rng, n) for _ in range(rng.randint(1, 9))]
    return {"in": [n, sc, ic, ec, _rand_init(rng, n), ops], "kind": "random"}


# fixed world of the exhaustive family: attribute-based shard chooser (grp mod 2), primary key 1 in both shards
_FIX = dict(
    n=2,
    sc=[0, 1, [0, 1], 0],
    ic=[[0, 1]],
    ec=[[0, 1], [[0], [1]], [[0, 1]], [[1, 0]]],
    init=[[[1, 0, 5]], [[1, 1, 6], [2, 1, 7]]],
    prefix=[[0, 3, 1, 4, -1], [5, 0, 0, -1, 0]],  # objects: 0 = new pk 3; 1 = (1, s0); 2 = (1, s1); 3 = (2, s1)
)
_ALPHABET = [
    [0, 1, 0, 1, -1],  # add pk 1 -> s0: primary key conflict
    [0, 1, 1, 1, -1],  # add pk 1 -> s1: conflict
    [0, 4, 0, 2, -1],
    [0, 4, 1, 2, -1],
    [0, 4, 0, 2, 1],  # preset token s1 although the chooser says s0
    [1, 0, 0, 9],  # object 0 (s1): grp := 0, the chooser would now say s0
    [1, 1, 1, 3],  # object 1 (s0): grp := 1
    [1, 2, 1, 6],  # no net change
    [2],
    [3],
    [4, [0]],
    [4, [2]],
    [4, [1, 2]],  # the objects with primary key 1 of BOTH shards in one flush
    [8, 1, 0, 8, 0],  # merge onto (1, s0)
    [8, 1, 1, 8, 1],  # merge onto (1, s1): same primary key, other shard
    [8, 2, 0, 8, 0],  # no row (2, s0): new pending object
    [8, 3, 1, 2, 1],  # (3, s1): the object added by the prefix, still pending before the autoflush
    [5, 0, 0, -1, 0],
    [5, 1, 1, -1, 1],
    [5, 2, 1, 0, 0],
    [5, 2, 1, 1, 2],
    [5, 0, 0, 1, 1],
    [6, 1, -1],
    [6, 1, 0],
    [6, 1, 1],
    [6, 4, -1],
    [7, 0],
    [7, 1],
]


def _fixed_case(ops, kind):
    f = _FIX
    return {"in": [f["n"], f["sc"], f["ic"], f["ec"], f["init"], f["prefix"] + ops], "kind": kind}


def _samepk_case(rng):
    """directed: the same primary key added to / present in several shards, then read back in every way"""
    n = rng.choice([2, 3])
    sel = rng.choice([1, 2])
    sc = [0, sel, list(range(n)), 0] if rng.random() < 0.5 else [1, sel, [[1, 0], [2, 1]], n - 1]
    order = list(range(n))
    rng.shuffle(order)
    ic = [order[: rng.randint(1, n)]]
    ec = [order, [order], [order if rng.random() < 0.7 else order[:1]], [order]]
    k = rng.randint(0, 3)
    init = [[[k, s, 10 + s]] if rng.random() < 0.4 else [] for s in range(n)]
    ops = []
    for s in rng.sample(range(n), rng.randint(1, n)):
        ops.append([0, k, s, s, -1] if sel == 1 else [0, k, 0, s, -1])
    tail = [[5, 2, k, -1, rng.randint(0, 1)], [5, 0, 0, -1, rng.randint(0, 1)], [6, k, rng.randrange(n)], [6, k, -1],
            [1, rng.randint(0, 3), rng.randint(0, 2), rng.randint(0, 9)], [4, [rng.randint(0, 3)]], [7, rng.randint(0, 3)],
            [4, [0, 1, 2, 3][: rng.randint(2, 4)]], [4, [rng.randint(0, 3), rng.randint(0, 3)]],
            [8, k, rng.randint(0, 2), rng.randint(0, 9), rng.randrange(n)], [8, k, rng.randint(0, 2), rng.randint(0, 9), rng.randrange(n)],
            [3], [5, 2, k, rng.randrange(n), rng.randint(0, 2)]]
    rng.shuffle(tail)
    if rng.random() < 0.5:  # load everything, delete several same-pk objects of different shards in one flush
        ops += [[5, 0, 0, -1, 0], [4, list(range(rng.randint(2, 4)))], [5, 0, 0, -1, rng.randint(0, 1)]]
    if n >= 2 and rng.random() < 0.5:  # only shard a's object is in the session when shard b's is merged
        a, b = rng.sample(range(n), 2)
        ops += [[6, k, a], [8, k, rng.randint(0, 2), rng.randint(0, 9), b], [3]]
    ops += tail[: rng.randint(2, 6)]
    return {"in": [n, sc, ic, ec, init, ops], "kind": "samepk"}


def gen_cases(rng, tier):
    cases = []
    for a in _ALPHABET:
        cases.append(_fixed_case([a, [3]], "single"))
        for b in _ALPHABET:
            cases.append(_fixed_case([a, b, [5, 0, 0, -1, 0]], "pairs"))
    for _ in range(3000 if tier == "thorough" else 200):
        cases.append(_samepk_case(rng))
    for _ in range(12000 if tier == "thorough" else 300):
        cases.append(_random_case(rng))
    return cases


def nontrivial(c):
    """statically: the same primary key can live in two shards (initial data or two adds), or the adds /
    some untargeted query involve two different shards"""
    n, scs, ics, ecs, init, ops = c["in"]
    pks = [set(r[0] for r in rows) for rows in init]
    if any(pks[a] & pks[b] for a in range(len(pks)) for b in range(a)):
        return True
    adds = [op for op in ops if op[0] == 0]
    if len({op[1] for op in adds}) < len(adds):
        return True
    if len({op[4] if op[4] >= 0 else shard_choice(scs, op[1:4]) for op in adds}) > 1:
        return True
    return any(op[0] == 5 and op[3] < 0 and len(set(exec_choice(ecs, (op[1], op[2])))) > 1 for op in ops)


# ---------------------------------------------------------------- the property itself, on the observation
def oracle(c, obs):
    n, scs, ics, ecs, init, ops = c["in"]
    trace, err, final = obs[:3]
    if err == 9:
        return "op %d %s raised %s" % (len(trace), ops[len(trace)], "".join(chr(x) for x in obs[3]))
    if err == 2 and (ops[len(trace)][0] == 8 or (ops[len(trace)][0] == 6 and ops[len(trace)][2] >= 0)):
        return "op %d %s raised MultipleResultsFound although an identity token names the only shard to consult" % (
            len(trace), ops[len(trace)])
    prev_states = []
    prev_snap = [sorted(list(r) for r in rows) for rows in init]
    for k, (ret, writes, reads, states, snap) in enumerate(trace):
        op = ops[k]
        where = "op %d %s: " % (k, op)
        # ---- clause 1: writes go to the chosen shard, and nowhere else
        for w in writes:
            if w[0] == 0:
                row = w[2:5]
                cands = [st for st in prev_states if st[0] == 0 and st[2:5] == row]
                if op[0] == 1:  # not reached: set never flushes
                    cands = []
                if not any(w[1] == (st[1] if st[1] >= 0 else shard_choice(scs, row)) for st in cands):
                    return where + "INSERT of row %s into shard %d, the shard chooser selects %d (pending objects: %s)" % (
                        row, w[1], shard_choice(scs, row), cands)
            else:
                if not any(st[0] == 1 and st[1] == w[1] and st[2] == w[2] for st in prev_states):
                    return where + "%s on shard %d for primary key %d: no persistent object with that identity token" % (
                        "UPDATE" if w[0] == 1 else "DELETE", w[1], w[2])
        touched = {(w[1], w[2]) for w in writes}
        for s in range(n):
            a = [r for r in prev_snap[s] if (s, r[0]) not in touched]
            b = [r for r in snap[s] if (s, r[0]) not in touched]
            if a != b:
                return where + "shard %d changed outside the emitted statements: %s -> %s" % (s, prev_snap[s], snap[s])
        for j, st in enumerate(states):
            was = prev_states[j] if j < len(prev_states) else None
            if was is not None and was[0] == 0 and st[0] == 1:  # flushed by this operation
                want = was[1] if was[1] >= 0 else shard_choice(scs, was[2:5])
                if st[1] != want:
                    return where + "object %d %s flushed with identity token %d, chosen shard is %d" % (j, was[2:5], st[1], want)
                if was[2:5] not in snap[want]:
                    return where + "object %d %s flushed but its row is not in the chosen shard %d: %s" % (j, was[2:5], want, snap)
            if was is not None and was[0] >= 1 and (st[1], st[2]) != (was[1], was[2]):
                return where + "object %d changed identity (token, pk) %s -> %s" % (j, was[1:3], st[1:3])
        flushed = sorted(
            [was[1] if was[1] >= 0 else shard_choice(scs, was[2:5])] + was[2:5]
            for was, st in zip(prev_states, states) if was[0] == 0 and st[0] == 1
        )
        if flushed != sorted(w[1:5] for w in writes if w[0] == 0):
            return where + "INSERTs %s, flushed objects with their chosen shards %s" % (
                [w[1:5] for w in writes if w[0] == 0], flushed)
        if op[0] in (2, 3, 4, 5, 7) and any(st[0] == 0 for st in states):
            return where + "a flush left pending objects: %s" % (states,)
        for j, st in enumerate(states):
            was = prev_states[j] if j < len(prev_states) else None
            if was is not None and was[0] == 1 and st[0] == 2 and any(r[0] == st[2] for r in snap[st[1]]):
                return where + "object %d (pk %d, shard %d) was deleted and flushed but its row is still in shard %d: %s" % (
                    j, st[2], st[1], st[1], snap[st[1]])
        if op[0] == 8:
            t, given = op[4], op[1:4]
            o = ret[1]
            st = states[o]
            if st[2:5] != given:
                return where + "merge returned object %s, the given values are %s" % (st, given)
            present = any(r[0] == given[0] for r in snap[t])
            if st[0] == 1 and (st[1] != t or not present):
                return where + "merge of identity (pk %d, shard %d) returned the persistent object %s" % (given[0], t, st)
            if st[0] == 0 and present:
                return where + "merge created a new object although shard %d has the row with pk %d" % (t, given[0])
            for j, (was, now) in enumerate(zip(prev_states, states)):
                if j != o and was[2:5] != now[2:5]:
                    return where + "merge of identity (pk %d, shard %d) changed another object: %s -> %s" % (given[0], t, was, now)
        # ---- clause 3: identity key = (pk, token)
        keys = [(st[2], st[1]) for st in states if st[0] == 1]
        if len(set(keys)) != len(keys):
            return where + "two different persistent objects share (pk, token): %s" % (states,)
        for st in states:
            if st[0] == 1 and not any(r[0] == st[2] for r in snap[st[1]]):
                return where + "persistent object %s has no row in the shard of its token" % (st,)
            if st[0] == 1 and op[0] in (2, 3, 4, 5, 7) and st[2:5] not in snap[st[1]]:
                # everything is flushed / freshly loaded: the object must show the row of ITS shard
                return where + "object %s does not show the row of its shard %d: %s" % (st, st[1], snap[st[1]])
        # ---- clause 2: query result = union of the chosen shards
        if op[0] == 5:
            q = (op[1], op[2])
            shards = [op[3]] if op[3] >= 0 else exec_choice(ecs, q)
            want = [(s, r) for s in shards for r in snap[s] if qmatch(q, r)]
            if op[4] == 1:
                seen, uniq = set(), []
                for s, r in want:
                    if (s, r[0]) not in seen:
                        seen.add((s, r[0]))
                        uniq.append((s, r))
                want = uniq
            got = [(states[o][1], states[o][2:5]) for o in ret[1]]
            if got != want:
                return where + "query over shards %s returned %s, the rows of these shards are %s" % (shards, got, want)
            for a in range(len(want)):
                for b in range(a):
                    same = (want[a][0], want[a][1][0]) == (want[b][0], want[b][1][0])
                    if same != (ret[1][a] == ret[1][b]):
                        return where + "rows %s and %s: objects %d and %d" % (want[a], want[b], ret[1][a], ret[1][b])
        if op[0] == 6 and op[2] >= 0:
            t, kk = op[2], op[1]
            present = any(r[0] == kk for r in snap[t])
            if len(ret) == 1 and present:
                return where + "get(%d, identity_token=%d) returned None but shard %d has the row" % (kk, t, t)
            if len(ret) == 2:
                st = states[ret[1]]
                if st[1] != t or st[2] != kk or not present:
                    return where + "get(%d, identity_token=%d) returned object %s; shard %d: %s" % (kk, t, st, t, snap[t])
        if op[0] == 6 and op[2] < 0 and len(ret) == 2 and states[ret[1]][2] != op[1]:
            return where + "get(%d) returned an object with primary key %d" % (op[1], states[ret[1]][2])
        prev_states, prev_snap = states, snap
    return None


def match_finding(c, what):
    return None


LEVEL_TEXT = (
    "Machine-checked proof (Coq) over an executable model of a ShardedSession on n reference databases, for ALL "
    "shard/identity/execute chooser functions, all initial data sets with unique primary keys per shard and all "
    "programs over the modelled operations (induction over the operation list, invariant: session/database "
    "coherence + identity keys (pk, token) distinct + database = replay of the statement log): every pending "
    "object is INSERTed into the shard of its preset token / shard_chooser and nowhere else, UPDATE/DELETE go to "
    "the (sticky) identity token; a query returns exactly one object per matching row of each shard of "
    "execute_chooser (or of the explicitly given shard) in shard-then-pk order with the source shard as token "
    "(multiset = union; legacy Query: de-duplicated); rows with the same pk from different shards are different "
    "objects; get with identity_token consults only that shard. Tie: pinned normalised source of 15 anchored "
    "functions + behavioural correspondence against real ShardedSessions on 2-3 SQLite files."
)
LEVEL_NOTE = (
    "PARTIAL with respect to the ORM surface: one mapped class with a client-supplied integer primary key; "
    "operations add / attribute assignment / flush / commit / delete / select (4 predicates, ORDER BY pk; "
    "2.0-style, legacy Query, set_shard, bind_arguments shard_id, set_shard_id option) / get with and without "
    "identity_token / refresh / delete of several objects in one flush / merge of a detached object whose key carries "
    "a shard token. NOT covered: relationships and lazy/eager loaders (lazy_loaded_from, "
    "propagate_to_loaders), ORM-enabled bulk UPDATE/DELETE and their synchronize_session, row switch, expired "
    "attributes and expire_on_commit=True, continuation after an exception/rollback, the deprecated "
    "id_chooser/query_chooser wrappers, unbound shard ids (KeyError), two-phase commit. Trusted: Coq kernel; the "
    "hand transcription (source pin + correspondence); SQLite as reference database; chooser functions are pure. "
    "No axioms (Print Assumptions: closed under the global context)."
)
TECHNIQUE = (
    "Coq: state-machine model, invariant by induction over programs, refinement of the merged result to the "
    "per-shard SELECTs; source pin; differential correspondence via observation digest + direct property oracle"
)
