"""C26 - the pool recovers from any fault without leaking or reusing dead connections."""
import itertools

ID = "C26"
LEVEL = "proof"
PROPS = "props/C26.v"
RUNNER = ("SAV.engine.PoolSeqRun", "run_case")
STATIC_MODULES = ["SAV.engine.PoolSeqRun"]
RULE = (
    "real QueuePool (pool_size 0-2, max_overflow -1/0/1, FIFO/LIFO, timeout=0), NullPool, StaticPool, "
    "SingletonThreadPool and AssertionPool with a scripted fake DBAPI (creator/close/rollback/commit/ping raise "
    "Exception or BaseException on script; ping may report a disconnect; a 'checkout' listener may raise "
    "DisconnectionError / InvalidatePoolError / Exception / BaseException), the real DefaultDialect for reset/close/"
    "pre-ping, and a patched logical clock (pool.base.time; per-call ticking or frozen).  Histories of <= 6 harness "
    "operations (connect, close, invalidate hard/soft, detach, del+gc, clock advance, Pool._invalidate) followed by a "
    "release phase (pool_recycle unset / expired / not yet expired via the logical clock, combined with soft and pool-wide invalidation), x EVERY single fault placement (every external call of the fault-free run x every code applicable "
    "to that call); thorough adds every double placement on a subset, plus random longer histories with random fault "
    "scripts.  Compared after every operation: result class, connection handed out (creation index), whether a new "
    "fairy was made, the exact sequence of DBAPI calls, records in use, checkedout()/checkedin()/overflow(); at the end "
    "close-call counts and the idle / held / detached sets.  non-trivial = at least one injected fault is consumed by a "
    "DBAPI call of the history"
)
TRUSTED = [
    "hand-written Gallina transcription (coq/engine/PoolSeq.v) of _ConnectionRecord, _ConnectionFairy._checkout, "
    "_finalize_fairy, Pool._invalidate/_close_connection and the five pools' _do_get/_do_return_conn, pinned to the "
    "normalised source and compared behaviourally on every run",
    "CPython reference counting: a fairy is finalised when its last reference goes away (the harness drops the "
    "exception of a failed checkout and runs a young-generation collection after every operation)",
    "the fake DBAPI counts close() calls before raising; 'closed' in the ledger means close() was called",
]
ASSUMPTIONS = [
    "one thread (interleavings of the QueuePool accounting are C25)",
    "no_dead_reuse is claimed for a clock whose every reading is strictly larger than the previous one; the equal-stamp "
    "case is proved possible (c26_equal_stamp_reuse_possible), as the comment in get_connection concedes",
    "Pool.dispose()/recreate(), asyncio dialects, connect/first_connect/reset/checkin listeners are out of scope",
]
LEVEL_TEXT = (
    "Coq proofs over a sequential model of the record/fairy life cycle of the five pool classes with a fault oracle at "
    "every DBAPI call, for all operation histories, fault scripts and configurations (code as of d50803e): no_leak (all "
    "five pools; only excluded region: BaseException out of close() inside _finalize_fairy's error handler running as "
    "weakref callback - shown necessary), overflow_consistent / checkedout() exact on every failure path (QueuePool; guard: "
    "no BaseException out of close(); what still fails is shown by a witness: close() raising out of the final checkin "
    "leaves a stale fairy); refutations of ledger (StaticPool abandons an invalidated connection) and of no_dead_reuse "
    "under equal time stamps; the decision kernel of no_dead_reuse (get_connection) for all states."
)
LEVEL_NOTE = (
    "PARTIAL: the positive whole-history theorems for `ledger` and `no_dead_reuse` are not proved (only refutation "
    "witnesses, the get_connection kernel c26_no_dead_reuse_kernel_partial, and - inside the accounting invariant - "
    "'queued records are never in use'); both clauses are checked on every run by the direct oracle on the implementation "
    "and by the model/implementation correspondence.  The guard of overflow_consistent (no BaseException out of any "
    "close()) is coarser than the region that still fails.  Trusted: Coq kernel; the hand transcription (source pin + "
    "exhaustive single-fault correspondence on the real pools); CPython refcount finalisation order.  No axioms."
)
TECHNIQUE = "Coq invariant proofs over a sequential fault-injected state machine; source pin; exhaustive fault-placement correspondence against the real pools with a fake DBAPI"
ANCHORS = [
    ("lib/sqlalchemy/pool/base.py", "Pool._close_connection"),
    ("lib/sqlalchemy/pool/base.py", "Pool._invalidate"),
    ("lib/sqlalchemy/pool/base.py", "Pool._return_conn"),
    ("lib/sqlalchemy/pool/base.py", "_ConnectionRecord.__init__"),
    ("lib/sqlalchemy/pool/base.py", "_ConnectionRecord.checkout"),
    ("lib/sqlalchemy/pool/base.py", "_ConnectionRecord._checkin_failed"),
    ("lib/sqlalchemy/pool/base.py", "_ConnectionRecord.checkin"),
    ("lib/sqlalchemy/pool/base.py", "_ConnectionRecord.close"),
    ("lib/sqlalchemy/pool/base.py", "_ConnectionRecord.invalidate"),
    ("lib/sqlalchemy/pool/base.py", "_ConnectionRecord.get_connection"),
    ("lib/sqlalchemy/pool/base.py", "_ConnectionRecord._is_hard_or_soft_invalidated"),
    ("lib/sqlalchemy/pool/base.py", "_ConnectionRecord.__close"),
    ("lib/sqlalchemy/pool/base.py", "_ConnectionRecord.__connect"),
    ("lib/sqlalchemy/pool/base.py", "_finalize_fairy"),
    ("lib/sqlalchemy/pool/base.py", "_ConnectionFairy._checkout"),
    ("lib/sqlalchemy/pool/base.py", "_ConnectionFairy._checkout_existing"),
    ("lib/sqlalchemy/pool/base.py", "_ConnectionFairy._checkin"),
    ("lib/sqlalchemy/pool/base.py", "_ConnectionFairy._reset"),
    ("lib/sqlalchemy/pool/base.py", "_ConnectionFairy.invalidate"),
    ("lib/sqlalchemy/pool/base.py", "_ConnectionFairy.detach"),
    ("lib/sqlalchemy/pool/base.py", "_ConnectionFairy.close"),
    ("lib/sqlalchemy/pool/impl.py", "QueuePool.__init__"),
    ("lib/sqlalchemy/pool/impl.py", "QueuePool._do_return_conn"),
    ("lib/sqlalchemy/pool/impl.py", "QueuePool._do_get"),
    ("lib/sqlalchemy/pool/impl.py", "QueuePool._inc_overflow"),
    ("lib/sqlalchemy/pool/impl.py", "QueuePool._dec_overflow"),
    ("lib/sqlalchemy/pool/impl.py", "QueuePool.checkedin"),
    ("lib/sqlalchemy/pool/impl.py", "QueuePool.overflow"),
    ("lib/sqlalchemy/pool/impl.py", "QueuePool.checkedout"),
    ("lib/sqlalchemy/pool/impl.py", "NullPool._do_return_conn"),
    ("lib/sqlalchemy/pool/impl.py", "NullPool._do_get"),
    ("lib/sqlalchemy/pool/impl.py", "SingletonThreadPool._do_return_conn"),
    ("lib/sqlalchemy/pool/impl.py", "SingletonThreadPool._do_get"),
    ("lib/sqlalchemy/pool/impl.py", "SingletonThreadPool.connect"),
    ("lib/sqlalchemy/pool/impl.py", "StaticPool.connection"),
    ("lib/sqlalchemy/pool/impl.py", "StaticPool._do_return_conn"),
    ("lib/sqlalchemy/pool/impl.py", "StaticPool._do_get"),
    ("lib/sqlalchemy/pool/impl.py", "AssertionPool._do_return_conn"),
    ("lib/sqlalchemy/pool/impl.py", "AssertionPool._do_get"),
    ("lib/sqlalchemy/util/queue.py", "Queue.get"),
    ("lib/sqlalchemy/util/queue.py", "Queue.put"),
    ("lib/sqlalchemy/util/queue.py", "Queue._full"),
    ("lib/sqlalchemy/util/queue.py", "Queue._get"),
    ("lib/sqlalchemy/util/langhelpers.py", "safe_reraise.__exit__"),
    ("lib/sqlalchemy/engine/default.py", "DefaultDialect._do_ping_w_event"),
    ("lib/sqlalchemy/engine/default.py", "DefaultDialect.do_ping"),
    ("lib/sqlalchemy/engine/default.py", "DefaultDialect.do_rollback"),
    ("lib/sqlalchemy/engine/default.py", "DefaultDialect.do_commit"),
    ("lib/sqlalchemy/engine/default.py", "DefaultDialect.do_terminate"),
    ("lib/sqlalchemy/engine/default.py", "DefaultDialect.do_close"),
]

K_CONNECT, K_CLOSE, K_ROLLBACK, K_COMMIT, K_PING, K_EVENT = 0, 1, 2, 3, 4, 5
# operations: [op, holder, dt]
O_CONNECT, O_CLOSE, O_INV, O_SOFT, O_DETACH, O_DEL, O_TICK, O_POOLINV = range(8)
KQ, KN, KST, KSG, KAS = range(5)


def translate(repo, outdir):
    from translate import fingerprint

    fingerprint.check(repo, ANCHORS, "C26")
    return []


# ---------------------------------------------------------------------------------------------------
# generation aid: a call-sequence simulator.  It is NOT the reference (the Coq model is); it is only
# used to know how many DBAPI calls a history makes and of which kind, so that fault placements can
# be enumerated exactly, and to count non-trivial cases.  A mistake here only wastes cases.
class _X(Exception):
    def __init__(self, code):
        self.code = code


class _Rec:
    def __init__(self):
        self.dbc = None
        self.start = 0
        self.soft = 0
        self.fresh = False
        self.fairy = None


class _Fairy:
    def __init__(self, dbc, rec):
        self.dbc = dbc
        self.rec = rec
        self.orig = rec
        self.counter = 0
        self.refs = 0
        self.dead = False


class _Sim:
    def __init__(m, cfg, faults):
        (m.kind, m.psize, m.maxov, m.lifo, m.recycle, m.pre_ping, m.listener, m.reset, m.tick) = cfg
        m.faults = list(faults)
        m.clock = 0
        m.calls = []  # (kind, code consumed)
        m.nconn = 0
        m.fairies = []
        m.holders = []
        m.inv_time = 0
        m.q = []
        m.overflow = -m.psize
        if m.kind == KQ and m.psize == 0:
            m.maxov = -1
        m.static = m.sg_rec = m.sg_fairy = m.as_conn = None
        m.as_out = False

    def now(m):
        if m.tick:
            m.clock += 1
        return m.clock

    def ext(m, kind):
        c = m.faults.pop(0) if m.faults else 0
        m.calls.append((kind, c))
        if c in (1, 2):
            raise _X(c)
        return c

    def close_connection(m):
        try:
            m.ext(K_CLOSE)
        except _X as e:
            if e.code == 2:
                raise

    def rec_close(m, r):
        m.close_connection()
        r.dbc = None

    def rec_connect(m, r):
        r.dbc = None
        r.start = m.now()
        m.ext(K_CONNECT)
        r.dbc = m.nconn
        m.nconn += 1
        r.fresh = True

    def rec_invalidate(m, r, soft):
        if r.dbc is None:
            return
        if soft:
            r.soft = m.now()
        else:
            m.rec_close(r)
            r.dbc = None

    def get_connection(m, r):
        recycle = False
        if r.dbc is None:
            m.rec_connect(r)
        elif m.recycle > -1 and m.now() - r.start > m.recycle:
            recycle = True
        elif m.inv_time > r.start:
            recycle = True
        elif r.soft > r.start:
            recycle = True
        if recycle:
            m.rec_close(r)
            m.rec_connect(r)
        return r.dbc

    def rec_checkin(m, r, fwc):
        if r.fairy is None and fwc:
            return
        r.fairy = None
        m.do_return_conn(r)

    def checkin_failed(m, r, fwc):
        m.rec_invalidate(r, False)
        m.rec_checkin(r, fwc)

    def new_record(m):
        r = _Rec()
        m.rec_connect(r)
        return r

    def do_get(m):
        k = m.kind
        if k == KQ:
            if m.q:
                return m.q.pop() if m.lifo else m.q.pop(0)
            if m.maxov > -1 and m.overflow >= m.maxov:
                raise _X(3)
            m.overflow += 1
            try:
                return m.new_record()
            except _X:
                m.overflow -= 1
                raise
        if k == KN:
            return m.new_record()
        if k == KST:
            if m.static is None:
                m.static = m.new_record()
            r = m.static
            if r.dbc is None or m.inv_time > r.start or r.soft > r.start:
                m.static = None
                m.static = m.new_record()
                r = m.static
            return r
        if k == KSG:
            if m.sg_rec is None:
                m.sg_rec = m.new_record()
            return m.sg_rec
        if m.as_out:
            raise _X(5)
        if m.as_conn is None:
            m.as_conn = m.new_record()
        m.as_out = True
        return m.as_conn

    def do_return_conn(m, r):
        k = m.kind
        if k == KQ:
            if m.psize > 0 and len(m.q) == m.psize:
                try:
                    if r.dbc is not None:
                        m.rec_close(r)
                finally:
                    m.overflow -= 1
            else:
                m.q.append(r)
        elif k == KN:
            if r.dbc is not None:
                m.rec_close(r)
        elif k == KSG:
            m.sg_fairy = None
        elif k == KAS:
            if not m.as_out:
                raise _X(5)
            m.as_out = False

    def record_checkout(m):
        r = m.do_get()
        try:
            dbc = m.get_connection(r)
        except _X:
            m.checkin_failed(r, False)
            raise
        f = _Fairy(dbc, r)
        m.fairies.append(f)
        r.fairy = f
        return f

    def fairy_checkout(m, f=None, threadconns=False):
        if f is None:
            f = m.record_checkout()
            if threadconns:
                m.sg_fairy = f
        if f.rec is None or f.dbc is None:
            raise _X(5)
        f.counter += 1
        if (not m.listener and not m.pre_ping) or f.counter != 1:
            return f
        attempts = 2
        while attempts > 0:
            fresh = f.rec.fresh
            f.rec.fresh = False
            try:
                if m.pre_ping and not fresh:
                    if m.ext(K_PING) == 3:
                        raise _X(8)
                if m.listener:
                    c = m.ext(K_EVENT)
                    if c == 3:
                        raise _X(7)
                    if c == 4:
                        raise _X(8)
                return f
            except _X as e:
                if e.code in (7, 8):
                    m.rec_invalidate(f.rec, False)
                    if e.code == 8:
                        m.pool_invalidate(f, False)
                    try:
                        f.dbc = m.get_connection(f.rec)
                    except _X:
                        m.checkin_failed(f.rec, True)
                        raise
                    attempts -= 1
                else:
                    if f.rec is not None:
                        m.checkin_failed(f.rec, True)
                    raise
        m.fairy_invalidate(f, False)
        raise _X(4)

    def pool_invalidate(m, f, checkin):
        r = f.rec
        if r is None or m.inv_time < r.start:
            m.inv_time = m.now()
        if checkin and f.dbc is not None:
            m.fairy_invalidate(f, False)

    def finalize(m, dbc, r, gcf, f):
        if gcf is not None:
            if r.fairy is not gcf:
                return
            dbc = r.dbc
        if dbc is not None:
            try:
                if m.reset == 0:
                    m.ext(K_ROLLBACK)
                elif m.reset == 1:
                    m.ext(K_COMMIT)
                if r is None:
                    m.close_connection()
            except _X as e:
                if r is not None:
                    m.rec_invalidate(r, False)
                if e.code == 2:
                    raise
        if r is not None and r.fairy is not None:
            m.rec_checkin(r, True)
        if f is not None:
            f.dbc = None
            f.rec = None

    def fairy_close(m, f):
        f.counter -= 1
        if f.counter == 0:
            m.finalize(f.dbc, f.rec, None, f)

    def fairy_invalidate(m, f, soft):
        if f.dbc is None:
            return
        if f.rec is not None:
            m.rec_invalidate(f.rec, soft)
        if not soft:
            f.dbc = None
            m.finalize(f.dbc, f.rec, None, f)

    def fairy_detach(m, f):
        if f.rec is not None:
            r = f.rec
            r.fairy = None
            r.dbc = None
            m.do_return_conn(r)
            f.rec = None

    def gc_fairy(m, f):
        if f.dead:
            return
        f.dead = True
        try:
            m.finalize(None, f.orig, f, None)
        except _X:
            pass

    def step(m, op, arg, dt):
        m.clock += dt
        nf = len(m.fairies)
        try:
            if op == O_CONNECT:
                if m.kind == KSG and m.sg_fairy is not None and not m.sg_fairy.dead:
                    f = m.fairy_checkout(m.sg_fairy)
                else:
                    f = m.fairy_checkout(None, m.kind == KSG)
                f.refs += 1
                m.holders.append(f)
            elif op == O_TICK or arg >= len(m.holders) or m.holders[arg] is None:
                pass
            elif op == O_CLOSE:
                m.fairy_close(m.holders[arg])
            elif op == O_INV:
                m.fairy_invalidate(m.holders[arg], False)
            elif op == O_SOFT:
                m.fairy_invalidate(m.holders[arg], True)
            elif op == O_DETACH:
                m.fairy_detach(m.holders[arg])
            elif op == O_DEL:
                f = m.holders[arg]
                m.holders[arg] = None
                f.refs -= 1
                if f.refs == 0:
                    m.gc_fairy(f)
            elif op == O_POOLINV:
                m.pool_invalidate(m.holders[arg], True)
        except _X:
            pass
        for f in m.fairies[nf:]:
            if f.refs == 0:
                m.gc_fairy(f)


def _calls(cfg, ops, faults):
    m = _Sim(cfg, faults)
    for o in ops:
        m.step(*o)
    return m.calls


_CODES = {K_CONNECT: (1, 2), K_CLOSE: (1, 2), K_ROLLBACK: (1, 2), K_COMMIT: (1, 2), K_PING: (1, 2, 3), K_EVENT: (1, 2, 3, 4)}


def _single_faults(cfg, ops, base=()):
    """every fault script that extends [base] by exactly one more fault at a later call"""
    base = list(base)
    calls = _calls(cfg, ops, base)
    out = []
    for k in range(len(base), len(calls)):
        for code in _CODES[calls[k][0]]:
            out.append(base + [0] * (k - len(base)) + [code])
    return out


def _rand_cfg(rng, kind=None):
    if kind is None:
        kind = rng.choice([KQ, KQ, KQ, KN, KST, KSG, KAS])
    return [
        kind,
        rng.choice([0, 1, 1, 2]),
        rng.choice([-1, 0, 1]),
        rng.randint(0, 1),
        rng.choice([-1, -1, 0, 3, 50]),
        rng.randint(0, 1),
        rng.randint(0, 1),
        rng.choice([0, 0, 1, 2]),
        rng.choice([1, 1, 1, 0]),
    ]


def _rand_history(rng, n):
    """mostly meaningful: holder arguments refer to connects made so far"""
    ops = []
    nconn = 0
    for _ in range(n):
        if nconn == 0 or rng.random() < 0.3:
            op = O_CONNECT
        else:
            op = rng.choice([O_CONNECT, O_CLOSE, O_CLOSE, O_INV, O_SOFT, O_DETACH, O_DEL, O_DEL, O_TICK, O_POOLINV])
        arg = rng.randrange(nconn) if nconn and rng.random() < 0.9 else rng.randint(0, 2)
        ops.append([op, arg if op not in (O_CONNECT, O_TICK) else 0, rng.choice([0, 1, 1, 1, 5])])
        if op == O_CONNECT:
            nconn += 1
    return ops, nconn


def _release(rng, nconn, mode):
    ops = []
    for h in range(nconn):
        if mode == 0 or (mode == 2 and rng.random() < 0.5):
            ops.append([O_CLOSE, h, 1])
        ops.append([O_DEL, h, 1])
    return ops


def gen_cases(rng, tier):
    thorough = tier == "thorough"
    cases = []
    # (a) structured histories x every single fault placement
    nhist = 2600 if thorough else 115
    for i in range(nhist):
        cfg = _rand_cfg(rng, kind=[KQ, KQ, KN, KST, KSG, KAS][i % 6] if i % 2 else None)
        ops, nconn = _rand_history(rng, rng.randint(1, 6))
        ops += _release(rng, nconn, rng.choice([0, 0, 1, 2, 3]))
        cases.append({"in": [cfg, ops, []], "kind": "fault-free"})
        singles = _single_faults(cfg, ops)
        for fl in singles:
            cases.append({"in": [cfg, ops, fl], "kind": "single-fault"})
        if thorough and i % 5 == 0:
            for fl in singles:
                for fl2 in _single_faults(cfg, ops, fl):
                    cases.append({"in": [cfg, ops, fl2], "kind": "double-fault"})
    # (b) random longer histories, random fault scripts (also codes on calls they do not apply to)
    for _ in range(12000 if thorough else 350):
        cfg = _rand_cfg(rng)
        ops, nconn = _rand_history(rng, rng.randint(1, 9))
        if rng.random() < 0.6:
            ops += _release(rng, nconn, rng.choice([0, 1, 2]))
        faults = [0] * rng.randint(0, 16)
        for _ in range(rng.choice([0, 1, 1, 2, 2, 3, 6])):
            if faults:
                faults[rng.randrange(len(faults))] = rng.choice([1, 2, 3, 4])
        cases.append({"in": [cfg, ops, faults], "kind": "random"})
    # (b2) staleness vs. recycle: pool_recycle configured (not yet expired / expired through the logical clock)
    #      combined with soft invalidation and pool-wide invalidation, then fresh checkouts
    for _ in range(900 if thorough else 90):
        kind = rng.choice([KQ, KQ, KQ, KSG, KAS, KST])
        cfg = [kind, rng.choice([1, 2, 2]), rng.choice([0, 1]), rng.randint(0, 1), rng.choice([50, 50, 200, 6]),
               rng.randint(0, 1), rng.randint(0, 1), rng.choice([0, 1, 2]), 1]
        fam = rng.randint(0, 3)
        late = [[O_TICK, 0, rng.choice([1, 60, 300])]] if rng.random() < 0.4 else []
        if fam == 0:  # soft-invalidate, return, check out again
            ops = [[O_CONNECT, 0, 1], [O_SOFT, 0, 1], [rng.choice([O_CLOSE, O_DEL]), 0, 1]] + late + [[O_CONNECT, 0, 1]]
            faults = []
        elif fam == 1:  # Pool._invalidate through one holder while another connection is idle
            ops = [[O_CONNECT, 0, 1], [O_CONNECT, 0, 1], [O_CLOSE, 1, 1], [O_POOLINV, 0, 1]] + late + [[O_CONNECT, 0, 1], [O_CONNECT, 0, 1]]
            faults = []
        elif fam == 2:  # the checkout listener / pre-ping of a later checkout invalidates the pool
            cfg[5], cfg[6] = rng.choice([(0, 1), (1, 0), (1, 1)])
            ops = [[O_CONNECT, 0, 1], [O_CONNECT, 0, 1], [O_CLOSE, 0, 1], [O_CLOSE, 1, 1], [O_CONNECT, 0, 1]] + late + [[O_CONNECT, 0, 1]]
            ncalls = len(_calls(cfg, ops[:4], []))
            faults = [0] * ncalls + [rng.choice([3, 4])]
        else:
            ops, nconn = _rand_history(rng, rng.randint(3, 7))
            faults = [rng.choice([0, 0, 0, 0, 3, 4]) for _ in range(rng.randint(0, 10))]
        cases.append({"in": [cfg, ops, faults], "kind": "recycle-vs-invalidation"})
    # (c) the witnesses of the refutation theorems in props/C26.v
    for w in WITNESSES:
        cases.append({"in": w, "kind": "refutation-witness"})
    if len(cases) > 140000:
        cases = cases[:140000]
    return cases


# witnesses used by the _refuted theorems (kept in step with coq/props/C26.v)
WITNESSES = [
    [[0, 1, 1, 0, -1, 0, 0, 0, 1], [[0, 0, 1], [5, 0, 1]], [0, 1, 2]],  # c26_no_leak_refuted_baseexception_from_close_in_gc_handler
    [[0, 1, 1, 0, -1, 0, 0, 0, 1], [[0, 0, 1], [5, 0, 1]], [0, 2]],  # c26_ex_fixed_leaks (51edfd0)
    [[0, 1, -1, 1, 0, 1, 0, 1, 1], [[0, 0, 1]], [0, 2, 2]],  # c26_ex_fixed_leaks (d50803e)
    [[0, 1, 1, 0, -1, 0, 0, 0, 1], [[0, 0, 1], [0, 0, 1], [1, 0, 1], [1, 1, 1], [4, 1, 1]], [0, 0, 0, 0, 2]],  # c26_overflow_refuted_baseexception_from_close_at_checkin
    [[0, 1, 1, 0, -1, 0, 0, 0, 1], [[0, 0, 1], [1, 0, 1], [4, 0, 1]], [0, 2]],  # c26_ex_fixed_stale_fairy (356c0aa)
    [[0, 2, 0, 0, -1, 1, 1, 0, 1], [[0, 0, 1], [0, 0, 1]], [0, 4, 2]],  # c26_ex_fixed_closed_connection_not_reused (d50803e)
    [[0, 1, 0, 0, -1, 0, 0, 0, 0], [[0, 0, 1], [3, 0, 0], [1, 0, 1], [0, 0, 1]], []],  # equal stamps: soft
    [[0, 2, 0, 0, -1, 0, 0, 0, 0], [[0, 0, 1], [0, 0, 0], [1, 1, 0], [7, 0, 0], [0, 0, 1]], []],  # equal stamps: pool
    [[2, 1, 0, 0, -1, 0, 0, 0, 1], [[0, 0, 1], [3, 0, 1], [1, 0, 1], [0, 0, 1]], []],  # c26_ledger_refuted_staticpool
    [
        [0, 1, 1, 0, 3, 1, 1, 0, 1],
        [[0, 0, 1], [0, 0, 1], [1, 0, 5], [0, 0, 1], [5, 1, 1], [1, 2, 1], [5, 0, 1], [5, 2, 1]],
        [0, 3, 0, 0, 1, 0, 4, 0, 0, 1],
    ],  # c26_ex_history
]


def nontrivial(c):
    cfg, ops, faults = c["in"]
    calls = _calls(cfg, ops, faults)
    return any(code != 0 and code in _CODES[k] for k, code in calls)


# ---------------------------------------------------------------------------------------------------
# implementation side
_cache = {}


def _setup():
    if _cache:
        return _cache
    import logging
    import types
    import warnings

    from sqlalchemy.engine.default import DefaultDialect

    warnings.simplefilter("ignore")
    logging.disable(logging.CRITICAL)

    class FakeError(Exception):
        pass

    class FakeDisconnect(FakeError):
        pass

    class FakeBase(BaseException):
        pass

    class Dialect(DefaultDialect):
        def is_disconnect(self, e, connection, cursor):
            return isinstance(e, FakeDisconnect)

    dbapi = types.SimpleNamespace(Error=FakeError, paramstyle="qmark")
    _cache.update(FakeError=FakeError, FakeDisconnect=FakeDisconnect, FakeBase=FakeBase, dialect=Dialect(dbapi=dbapi))
    return _cache


def impl(c):
    import gc
    import sys
    import types

    import sqlalchemy.pool.base as pb
    from sqlalchemy import event, exc
    from sqlalchemy import pool as sapool

    env = _setup()
    FakeError, FakeDisconnect, FakeBase = env["FakeError"], env["FakeDisconnect"], env["FakeBase"]
    cfg, ops, faults = c["in"]
    kind, psize, maxov, lifo, recycle, pre_ping, listener, reset, tick = cfg
    st = {"clock": 0, "faults": list(faults), "trace": [], "conns": [], "recs": []}

    def fault():
        return st["faults"].pop(0) if st["faults"] else 0

    def raise_for(code):
        if code == 1:
            raise FakeError("scripted fault")
        if code == 2:
            raise FakeBase("scripted fault")

    class Cur:
        def __init__(self, conn):
            self.conn = conn

        def execute(self, *a, **k):
            code = fault()
            st["trace"].append([K_PING, self.conn.cid])
            raise_for(code)
            if code == 3:
                raise FakeDisconnect("server has gone away")

        def close(self):
            pass

    class Conn:
        def __init__(self, cid):
            self.cid = cid
            self.nclose = 0

        def close(self):
            code = fault()
            st["trace"].append([K_CLOSE, self.cid])
            self.nclose += 1
            raise_for(code)

        def rollback(self):
            code = fault()
            st["trace"].append([K_ROLLBACK, self.cid])
            raise_for(code)

        def commit(self):
            code = fault()
            st["trace"].append([K_COMMIT, self.cid])
            raise_for(code)

        def cursor(self):
            return Cur(self)

    def creator(rec):
        if not any(r is rec for r in st["recs"]):
            st["recs"].append(rec)
        code = fault()
        if code in (1, 2):
            st["trace"].append([K_CONNECT, -1])
            raise_for(code)
        conn = Conn(len(st["conns"]))
        st["conns"].append(conn)
        st["trace"].append([K_CONNECT, conn.cid])
        return conn

    kw = dict(
        recycle=recycle,
        pre_ping=bool(pre_ping),
        dialect=env["dialect"],
        reset_on_return={0: "rollback", 1: "commit", 2: None}[reset],
    )
    if kind == KQ:
        p = sapool.QueuePool(creator, pool_size=psize, max_overflow=maxov, timeout=0, use_lifo=bool(lifo), **kw)
    elif kind == KN:
        p = sapool.NullPool(creator, **kw)
    elif kind == KST:
        p = sapool.StaticPool(creator, **kw)
    elif kind == KSG:
        p = sapool.SingletonThreadPool(creator, **kw)
    else:
        p = sapool.AssertionPool(creator, **kw)
    if listener:

        def on_checkout(dbc, rec, fairy):
            code = fault()
            st["trace"].append([K_EVENT, dbc.cid])
            raise_for(code)
            if code == 3:
                raise exc.DisconnectionError("scripted")
            if code == 4:
                raise exc.InvalidatePoolError("scripted")

        event.listen(p, "checkout", on_checkout)

    def now():
        if tick:
            st["clock"] += 1
        return st["clock"]

    def classify(e):
        if isinstance(e, FakeBase):
            return 2
        if isinstance(e, FakeError):
            return 1
        if isinstance(e, exc.TimeoutError):
            return 3
        if isinstance(e, exc.InvalidRequestError):
            return 4
        if isinstance(e, AssertionError):
            return 5
        return None

    old_time, old_hook = pb.time, sys.unraisablehook
    pb.time = types.SimpleNamespace(time=now)
    sys.unraisablehook = lambda u: None
    holders = []
    detached = []
    out = []
    try:
        for op, arg, dt in ops:
            st["clock"] += dt
            st["trace"] = []
            code = 0
            got = -1
            is_new = 0
            try:
                if op == O_CONNECT:
                    holders.append(None)
                    holders[-1] = p.connect()
                    d = holders[-1].dbapi_connection
                    got = d.cid if d is not None else -2
                    d = None
                    is_new = int(not any(h is holders[-1] for h in holders[:-1]))
                elif op == O_TICK:
                    pass
                elif arg >= len(holders) or holders[arg] is None:
                    code = 9
                elif op == O_CLOSE:
                    holders[arg].close()
                elif op == O_INV:
                    holders[arg].invalidate()
                elif op == O_SOFT:
                    holders[arg].invalidate(soft=True)
                elif op == O_DETACH:
                    rec = holders[arg]._connection_record
                    was = [holders[arg].dbapi_connection, rec.dbapi_connection] if rec is not None else []
                    try:
                        holders[arg].detach()
                    finally:
                        # the fairy's and the record's connection (normally the same) leave the pool's ledger
                        detached += [x.cid for x in was if x is not None]
                        was = rec = None
                elif op == O_DEL:
                    holders[arg] = None
                elif op == O_POOLINV:
                    p._invalidate(holders[arg])
                else:
                    raise ValueError("unknown operation")
            except BaseException as e:
                code = classify(e)
                if code is None:
                    raise
                if op == O_CONNECT:
                    holders.pop()
            e = None
            gc.collect(0)
            obs = [code, got, is_new, [k * 1000 + cid + 1 for k, cid in st["trace"]], sum(1 for r in st["recs"] if r.in_use)]
            if kind == KQ:
                obs.append([p.checkedout(), p.checkedin(), p.overflow()])
            elif kind == KAS:
                obs.append([int(p._checked_out)])
            else:
                obs.append([])
            out.append(obs)
        if kind == KQ:
            stored = list(p._pool.queue)
        elif kind == KST:
            stored = [p.__dict__["connection"]] if "connection" in p.__dict__ else []
        elif kind == KSG:
            stored = list(p._all_conns)
        elif kind == KAS:
            stored = [p._conn] if p._conn else []
        else:
            stored = []
        idle = sorted({r.dbapi_connection.cid for r in stored if not r.in_use and r.dbapi_connection is not None})
        held = sorted({h.dbapi_connection.cid for h in holders if h is not None and h.dbapi_connection is not None})
        return [out, [cn.nclose for cn in st["conns"]], idle, held, sorted(set(detached))]
    finally:
        st["trace"] = []
        holders = None
        gc.collect(0)
        pb.time = old_time
        sys.unraisablehook = old_hook


# ---------------------------------------------------------------------------------------------------
# the property itself, decided on the implementation's observation (no reference to the Coq model)
def _tr(trace):
    return [(x // 1000, x % 1000 - 1) for x in trace]


def _analyse(c, obs):
    """which BaseException faults were consumed by a close() call: in an operation whose _finalize_fairy runs
    as weakref callback (del+gc, failed connect) / in an explicit operation"""
    cfg, ops, faults = c["in"]
    steps = obs[0]
    k = 0
    close_gc = close_explicit = False
    for (op, arg, dt), o in zip(ops, steps):
        for kind, cid in _tr(o[3]):
            code = faults[k] if k < len(faults) else 0
            k += 1
            if code == 2 and kind == K_CLOSE:
                if op in (O_CONNECT, O_DEL):
                    close_gc = True
                else:
                    close_explicit = True
    return close_gc, close_explicit


def oracle(c, obs):
    cfg, ops, faults = c["in"]
    kind, psize, maxov, lifo, recycle, pre_ping, listener, reset, tick = cfg
    if kind == KQ and psize == 0:
        maxov = -1
    steps, nclose, idle, held, detached = obs
    close_gc, close_explicit = _analyse(c, obs)
    tags = "%s%s%s" % (
        " [BaseException-from-close-in-gc]" if close_gc else "",
        " [BaseException-from-close-in-explicit-op]" if close_explicit else "",
        " [StaticPool]" if kind == KST else "",
    )
    # --- replay the harness-level facts
    holder_conn = []  # per holder: connection obtained at its checkout
    alive = []  # holder still referenced by the harness
    touched = []  # holder was closed / invalidated / detached / used for Pool._invalidate before
    closed = set()  # close() was called on the connection
    soft = set()  # soft-invalidated connections
    stale = set()  # connections older than an effective pool invalidation
    birth = {}  # cid -> global index of the creator call
    last_inv = -1  # global call index of the last effective pool invalidation
    call = 0
    for (op, arg, dt), o in zip(ops, steps):
        code, got, is_new, trace, in_use = o[:5]
        known = arg < len(holder_conn) and op not in (O_CONNECT, O_TICK)
        if tick and op == O_POOLINV and code != 9 and known and not touched[arg] and holder_conn[arg] >= 0:
            # Pool._invalidate(fairy): effective unless the fairy's connection is younger than the last
            # effective invalidation (the "generation" rule documented in Pool._invalidate)
            if birth.get(holder_conn[arg], -1) > last_inv:
                last_inv = call - 0.5
                stale |= set(birth)
        made_here = set()
        for tk, cid in _tr(trace):
            fc = faults[call] if call < len(faults) else 0
            if tk == K_CONNECT and cid >= 0:
                birth[cid] = call
                made_here.add(cid)
            if tk == K_CLOSE:
                closed.add(cid)
            if tick and ((tk == K_PING and fc == 3) or (tk == K_EVENT and fc == 4)):
                if birth.get(cid, -1) > last_inv:
                    last_inv = call
                    stale |= set(birth)
            call += 1
        if op == O_CONNECT and code == 0:
            holder_conn.append(got)
            alive.append(True)
            touched.append(False)
            if is_new and got >= 0:
                if got in closed:
                    return "reuse: connection %d is handed out after close() was called on it%s" % (got, tags)
                if got not in made_here:
                    if got in stale:
                        return "reuse: connection %d is older than a pool invalidation and is handed out again%s" % (got, tags)
                    if got in soft:
                        return "reuse: connection %d was soft-invalidated and is handed out again%s" % (got, tags)
        elif known and code != 9:
            if tick and op == O_SOFT and code == 0 and not touched[arg] and holder_conn[arg] >= 0 and kind != KSG:
                soft.add(holder_conn[arg])
            if op == O_DEL:
                alive[arg] = False
            elif op != O_SOFT:
                touched[arg] = True
        # --- overflow_consistent (QueuePool), after every operation
        if kind == KQ:
            co, ci, ov = o[5]
            if co != in_use:
                return "overflow: checkedout()=%d but %d records are in use%s" % (co, in_use, tags)
            if psize > 0 and ci > psize:
                return "overflow: %d idle records > pool_size %d%s" % (ci, psize, tags)
            if maxov >= 0 and ov > maxov:
                return "overflow: overflow()=%d > max_overflow=%d%s" % (ov, maxov, tags)
    # --- no_leak: every holder released (dropped)
    if steps and not any(alive):
        in_use = steps[-1][4]
        if in_use != 0:
            return "leak: every holder was dropped but %d record(s) are still checked out%s" % (in_use, tags)
        if kind == KQ and steps[-1][5][0] != 0:
            return "leak: every holder was dropped but checkedout()=%d%s" % (steps[-1][5][0], tags)
    # --- ledger
    for cid, n in enumerate(nclose):
        owners = (cid in idle) + (cid in held)
        if n == 0 and cid not in detached:
            if owners == 0:
                return "ledger: connection %d is open but neither idle in the pool nor held%s" % (cid, tags)
            if owners > 1 and kind != KST:  # StaticPool shares its one connection between holders by design
                return "ledger: connection %d is both idle in the pool and held%s" % (cid, tags)
        if n > 0 and cid in idle:
            return "ledger: connection %d had close() called and is idle in the pool%s" % (cid, tags)
    return None


def match_finding(c, what):
    cfg, ops, faults = c["in"]
    if (
        "[StaticPool]" in what
        and "is open but neither idle in the pool nor held" in what
        and (any(o[0] in (O_SOFT, O_POOLINV) for o in ops) or any(f in (3, 4) for f in faults))
    ):
        return "C26-staticpool-abandons-connection"
    if "[BaseException-from-close-in-gc]" in what and what.startswith(("leak:", "overflow:")):
        return "C26-baseexception-from-close-in-finalize-handler"
    if "[BaseException-from-close-in-explicit-op]" in what and any(o[0] in (O_DETACH, O_INV, O_POOLINV, O_SOFT) for o in ops):
        return "C26-baseexception-from-close-at-checkin-leaves-stale-fairy"
    return None
