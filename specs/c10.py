"""C10 - Result objects deliver exactly the underlying rows under any access pattern."""
import itertools

ID = "C10"
LEVEL = "proof"
PROPS = "props/C10.v"
RUNNER = ("SAV.engine.ResultRun", "run_case")
STATIC_MODULES = ["SAV.engine.ResultRun"]
RULE = (
    "case = (fetch strategy, row width, rows, operation sequence). Small scope: every ordered pair "
    "(thorough: triple) of a 17-operation alphabet x 5 strategy settings on a 3-row set with duplicates; "
    "random: 0..12 rows (thorough 0..40) of width 1..3 over a 3-value domain incl. Python lists, "
    "sequences <= 15 (thorough <= 60) of fetchone/next/iterate(k)/fetchmany(n|None)/partitions(n|None,k)/"
    "all/fetchall/first/one/one_or_none/scalar/scalar_one/scalar_one_or_none/scalars(i)/mappings/tuples/"
    "columns/unique(strategy)/yield_per/close/freeze (+ merge, oracle only) on the real CursorResult over sqlite3 (default, "
    "stream_results with max_row_buffer in {0,1,2,5,7,1000}, fully buffered) and on IteratorResult; every "
    "return value, exception class, result.closed and the buffered strategy's (len(_rowbuffer), _bufsize, "
    "_growth_factor, _max_row_buffer) compared with the Coq model after each call. non-trivial = at "
    "least one row and at least two row-delivering calls"
)
TRUSTED = [
    "hand-written Gallina transcription of the fetch strategies (engine/cursor.py), IteratorResult / "
    "FrozenResult / Result / ScalarResult / MappingResult (engine/result.py) and the row getters of "
    "engine/_result_cy.py incl. their memoisation, pinned to the normalised source by "
    "translate/fingerprint.py and compared behaviourally on every run (pure-Python _result_cy/_row_cy "
    "loaded from source)",
    "the DBAPI cursor is modelled as the list of rows not yet delivered (fetchone/fetchmany(n>=1)/fetchall "
    "of sqlite3)",
    "the harness installs FullyBufferedCursorFetchStrategy on a fresh CursorResult itself (no SQLite code "
    "path selects it for SELECT); BufferedRowCursorFetchStrategy is selected by stream_results",
]
ASSUMPTIONS = [
    "sizes passed to fetchmany/partitions are >= 1 (sqlite3 treats fetchmany(0) as 'all rows'); "
    "fetchmany()/partitions() without a size only after yield_per(n>=1) (otherwise the chunk size is "
    "DBAPI specific)",
    "unique() with the default strategy only on hashable rows (a list inside a row raises TypeError from "
    "the set lookup; with unique(strategy=...) lists are covered)",
    "MergedResult (Result.merge) is outside the Coq model: 'merge' cases compare the implementation with the "
    "list-model oracle only",
]
ANCHORS = [
    ("lib/sqlalchemy/engine/cursor.py", "NoCursorFetchStrategy"),
    ("lib/sqlalchemy/engine/cursor.py", "NoCursorDQLFetchStrategy"),
    ("lib/sqlalchemy/engine/cursor.py", "CursorFetchStrategy"),
    ("lib/sqlalchemy/engine/cursor.py", "BufferedRowCursorFetchStrategy"),
    ("lib/sqlalchemy/engine/cursor.py", "FullyBufferedCursorFetchStrategy"),
    ("lib/sqlalchemy/engine/cursor.py", "CursorResult._soft_close"),
    ("lib/sqlalchemy/engine/cursor.py", "CursorResult._fetchiter_impl"),
    ("lib/sqlalchemy/engine/cursor.py", "CursorResult._fetchone_impl"),
    ("lib/sqlalchemy/engine/cursor.py", "CursorResult._fetchall_impl"),
    ("lib/sqlalchemy/engine/cursor.py", "CursorResult._fetchmany_impl"),
    ("lib/sqlalchemy/engine/cursor.py", "CursorResult.close"),
    ("lib/sqlalchemy/engine/cursor.py", "CursorResult.yield_per"),
    ("lib/sqlalchemy/engine/_result_cy.py", "BaseResultInternal._iterator_getter"),
    ("lib/sqlalchemy/engine/_result_cy.py", "BaseResultInternal._allrows"),
    ("lib/sqlalchemy/engine/_result_cy.py", "BaseResultInternal._onerow_getter"),
    ("lib/sqlalchemy/engine/_result_cy.py", "BaseResultInternal._manyrow_getter"),
    ("lib/sqlalchemy/engine/_result_cy.py", "BaseResultInternal._only_one_row"),
    ("lib/sqlalchemy/engine/_result_cy.py", "BaseResultInternal._iter_impl"),
    ("lib/sqlalchemy/engine/_result_cy.py", "BaseResultInternal._next_impl"),
    ("lib/sqlalchemy/engine/_result_cy.py", "BaseResultInternal._unique_strategy"),
    ("lib/sqlalchemy/engine/_result_cy.py", "_apply_unique_strategy"),
    ("lib/sqlalchemy/engine/result.py", "ResultInternal"),
    ("lib/sqlalchemy/engine/result.py", "Result"),
    ("lib/sqlalchemy/engine/result.py", "FilterResult"),
    ("lib/sqlalchemy/engine/result.py", "ScalarResult"),
    ("lib/sqlalchemy/engine/result.py", "MappingResult"),
    ("lib/sqlalchemy/engine/result.py", "FrozenResult"),
    ("lib/sqlalchemy/engine/result.py", "IteratorResult"),
    ("lib/sqlalchemy/sql/base.py", "_generative"),
    ("lib/sqlalchemy/sql/base.py", "InPlaceGenerative"),
]

# operation codes (see coq/engine/ResultRun.v)
FETCHONE, NEXT, ITER, FETCHMANY, PARTS, ALL, ONLYONE, ROOT, SCALARS, MAPPINGS = range(10)
COLUMNS, UNIQUE, YIELDPER, CLOSE, FREEZE, FETCHALL, TUPLES, MERGE = range(10, 18)
ONLYONE_NAMES = ["first", "one_or_none", "one", "scalar", "scalar_one", "scalar_one_or_none"]
# (raise_for_second_row, raise_for_none, scalar)
ONLYONE_FLAGS = [(0, 0, 0), (1, 0, 0), (1, 1, 0), (0, 0, 1), (1, 1, 1), (1, 0, 1)]
E_CLOSED, E_NORESULT, E_MULTI, E_ATTR, E_INDEX, E_OTHER = 1, 2, 3, 4, 5, 99
FETCH_OPS = (FETCHONE, NEXT, ITER, FETCHMANY, PARTS, ALL, FETCHALL, ONLYONE)


def translate(repo, outdir):
    from translate import fingerprint

    fingerprint.check(repo, ANCHORS, "C10")
    return []


# ---------------------------------------------------------------- generator
def _val(rng, lists):
    if lists and rng.random() < 0.25:
        return [rng.randint(0, 1)] if rng.random() < 0.8 else []
    return rng.randint(0, 2)


def _rand_op(rng, st):
    """st: generator-side sketch of the state, used only to keep most operations meaningful"""
    r = rng.random()
    w = st["w"]
    if r < 0.50:
        k = rng.random()
        if k < 0.14:
            return [FETCHONE]
        if k < 0.26:
            return [NEXT]
        if k < 0.38:
            return [ITER, rng.randint(0, 4)]
        if k < 0.62:
            if rng.random() < (0.3 if st["yp"] else 0.04):
                return [FETCHMANY, None]
            return [FETCHMANY, rng.randint(1, 4)]
        if k < 0.80:
            n = None if rng.random() < (0.3 if st["yp"] else 0.04) else rng.randint(1, 3)
            return [PARTS, n, rng.randint(0, 3)]
        if k < 0.90:
            return [rng.choice([ALL, FETCHALL])]
        return [ONLYONE, rng.randint(0, 5)]
    if r < 0.60:
        st["w"] = 1
        return [SCALARS, rng.randint(0, w - 1) if rng.random() < 0.93 else w + rng.randint(0, 1)]
    if r < 0.66:
        return [MAPPINGS]
    if r < 0.72:
        return [rng.choice([ROOT, TUPLES])]
    if r < 0.79:
        n = rng.randint(1, 3)
        idx = [rng.randint(0, w - 1) for _ in range(n)]
        if rng.random() < 0.07:
            idx[rng.randrange(n)] = w + rng.randint(0, 1)
        else:
            st["w"] = n
        return [COLUMNS, idx]
    if r < 0.90:
        return [UNIQUE, rng.choice(st["strats"])]
    if r < 0.95:
        n = rng.choice([0, 1, 1, 2, 2, 3, 5])
        if n:
            st["yp"] = True
        return [YIELDPER, n]
    if r < 0.975:
        return [CLOSE]
    return [FREEZE]


def _rand_case(rng, maxrows, maxops):
    w = rng.randint(1, 3)
    lists = rng.random() < 0.3
    n = rng.choice([0, 1, 2, 3, 4, 5, 6, 8, 10, maxrows])
    n = min(n, maxrows)
    dom = rng.choice([1, 2, 3])
    rows = []
    for _ in range(n):
        if rows and rng.random() < 0.35:
            rows.append(list(rng.choice(rows)))
        else:
            rows.append([(_val(rng, lists) if dom == 3 else min(_val(rng, False), dom - 1)) for _ in range(w)])
    has_list = any(isinstance(v, list) for r in rows for v in r)
    strategy = rng.choice([[0], [0], [1, 0], [1, 1], [1, 2], [1, 5], [1, 7], [1, 1000], [2], [2], [3], [3]])
    st = {"w": w, "yp": False, "strats": [1, 2] if has_list else [0, 0, 1, 2]}
    nops = rng.randint(1, maxops)
    ops = []
    if rng.random() < 0.35:
        ops.append([UNIQUE, rng.choice(st["strats"])])
    for _ in range(nops):
        ops.append(_rand_op(rng, st))
    return {"in": [strategy, w, rows, ops], "kind": "random"}


def _merge_case(rng):
    """result.merge(other): outside the Coq model; implementation vs the list-model oracle only"""
    w = rng.randint(1, 2)
    n = rng.randint(0, 6)
    rows = []
    for _ in range(n):
        rows.append(list(rng.choice(rows)) if rows and rng.random() < 0.35 else [rng.randint(0, 2) for _ in range(w)])
    other = [list(rng.choice(rows)) if rows and rng.random() < 0.4 else [rng.randint(0, 2) for _ in range(w)]
             for _ in range(rng.randint(0, 4))]
    strategy = rng.choice([[0], [1, 2], [2], [3], [3]])
    st = {"w": w, "yp": False, "strats": [0, 0, 1, 2]}
    ops = []
    for _ in range(rng.randint(0, 3)):
        o = _rand_op(rng, st)
        if o[0] in (FETCHONE, NEXT, ITER, FETCHMANY, PARTS, UNIQUE, YIELDPER, COLUMNS) and not (
            o[0] in (FETCHMANY, PARTS) and o[1] is None
        ):
            ops.append(o)
    ops.append([ROOT])
    ops.append([MERGE, other])
    for _ in range(rng.randint(1, 8)):
        ops.append(_rand_op(rng, st))
    return {"in": [strategy, w, rows, ops], "kind": "merge", "model": False}


ALPHABET = [
    [FETCHONE], [NEXT], [ITER, 2], [FETCHMANY, 1], [FETCHMANY, 2], [PARTS, 2, 1], [ALL], [ONLYONE, 0],
    [ONLYONE, 1], [ONLYONE, 4], [SCALARS, 0], [MAPPINGS], [COLUMNS, [1]], [UNIQUE, 0], [YIELDPER, 2],
    [CLOSE], [FREEZE],
]
SMALL_STRATEGIES = [[0], [1, 1], [1, 2], [2], [3]]
SMALL_ROWS = [[2, 0], [2, 0], [2, 1]]


def gen_cases(rng, tier):
    cases = []
    depth = 3 if tier == "thorough" else 2
    for strategy in SMALL_STRATEGIES:
        for ops in itertools.product(ALPHABET, repeat=depth):
            if depth == 3 and strategy not in ([0], [1, 2], [3]):
                continue
            cases.append({"in": [strategy, 2, SMALL_ROWS, [list(o) for o in ops] + [[FETCHALL]]], "kind": "small"})
    nrand = 40000 if tier == "thorough" else 1600
    for i in range(nrand):
        if tier == "thorough":
            c = _rand_case(rng, 40 if i % 4 == 0 else 12, 60 if i % 3 == 0 else 15)
        else:
            c = _rand_case(rng, 12, 15)
        cases.append(c)
    for _ in range(4000 if tier == "thorough" else 200):
        cases.append(_merge_case(rng))
    return cases


def nontrivial(c):
    strategy, w, rows, ops = c["in"]
    return len(rows) >= 1 and sum(1 for o in ops if o[0] in FETCH_OPS) >= 2


# ---------------------------------------------------------------- implementation side
_ENV = {}


def impl_setup():
    import warnings

    import sqlalchemy as sa

    warnings.simplefilter("ignore")
    eng = sa.create_engine("sqlite://")
    md = sa.MetaData()
    tables = {}
    for w in (1, 2, 3):
        tables[w] = sa.Table(
            "t%d" % w, md, sa.Column("id", sa.Integer, primary_key=True),
            *[sa.Column("c%d" % i, sa.JSON) for i in range(w)]
        )
    others = {}
    for w in (1, 2, 3):
        others[w] = sa.Table(
            "u%d" % w, md, sa.Column("id", sa.Integer, primary_key=True),
            *[sa.Column("c%d" % i, sa.JSON) for i in range(w)]
        )
    md.create_all(eng)
    _ENV.update(eng=eng, tables=tables, others=others, conn=eng.connect(), sa=sa)


def _deep(x):
    if isinstance(x, (list, tuple)) or hasattr(x, "_fields"):
        return tuple(_deep(y) for y in x)
    return x


def _make_result(strategy, w, rows, other=False):
    from sqlalchemy.engine import cursor as _cursor
    from sqlalchemy.engine.result import IteratorResult, SimpleResultMetaData

    if strategy[0] == 3:
        return IteratorResult(SimpleResultMetaData(["c%d" % i for i in range(w)]), iter([tuple(r) for r in rows]))
    sa, conn, t = _ENV["sa"], _ENV["conn"], _ENV["others" if other else "tables"][w]
    conn.execute(t.delete())
    if rows:
        conn.execute(t.insert(), [dict(("c%d" % i, v) for i, v in enumerate(r)) for r in rows])
    stmt = sa.select(*[t.c["c%d" % i] for i in range(w)]).order_by(t.c.id)
    if strategy[0] == 1:
        res = conn.execute(stmt, execution_options={"stream_results": True, "max_row_buffer": strategy[1]})
        assert type(res.cursor_strategy) is _cursor.BufferedRowCursorFetchStrategy
    else:
        res = conn.execute(stmt)
        assert type(res.cursor_strategy) is _cursor.CursorFetchStrategy
        if strategy[0] == 2:
            res.cursor_strategy = _cursor.FullyBufferedCursorFetchStrategy(res.cursor)
    return res


def _item(x):
    from sqlalchemy.engine.row import Row, RowMapping

    if isinstance(x, Row):
        return [0, [v for v in x]]
    if isinstance(x, RowMapping):
        return [2, [[int(k[1:]), v] for k, v in x.items()]]
    return [1, x]


def _exc_code(e):
    from sqlalchemy import exc

    if isinstance(e, exc.ResourceClosedError):
        return E_CLOSED
    if isinstance(e, exc.MultipleResultsFound):
        return E_MULTI
    if isinstance(e, exc.NoResultFound):
        return E_NORESULT
    if isinstance(e, IndexError):
        return E_INDEX
    return E_OTHER


def _internals(root):
    from sqlalchemy.engine import cursor as _cursor

    s = getattr(root, "cursor_strategy", None)
    if type(s) is _cursor.BufferedRowCursorFetchStrategy:
        return [len(s._rowbuffer), s._bufsize, s._growth_factor, s._max_row_buffer]
    return []


class _Drv:
    def __init__(self, strategy, w, rows):
        self.root = _make_result(strategy, w, rows)
        self.view = self.root
        self.others = []
        self.strategy = strategy
        self.raw_w = w

    def call(self, op):
        """returns the outcome tree"""
        code = op[0]
        v = self.view
        if code == FETCHONE:
            if not hasattr(v, "fetchone"):
                return [7, E_ATTR]
            x = v.fetchone()
            return [1] if x is None else [2, _item(x)]
        if code == NEXT:
            try:
                return [2, _item(next(v))]
            except StopIteration:
                return [6]
        if code == ITER:
            it = iter(v)
            out = []
            stopped = 0
            for _ in range(op[1]):
                try:
                    out.append(_item(next(it)))
                except StopIteration:
                    stopped = 1
                    break
            if hasattr(it, "close"):
                it.close()
            return [4, out, stopped]
        if code == FETCHMANY:
            return [3, [_item(x) for x in (v.fetchmany() if op[1] is None or op[1] == [] else v.fetchmany(op[1]))]]
        if code == PARTS:
            it = v.partitions() if op[1] is None or op[1] == [] else v.partitions(op[1])
            out = []
            stopped = 0
            for _ in range(op[2]):
                try:
                    out.append([_item(x) for x in next(it)])
                except StopIteration:
                    stopped = 1
                    break
            it.close()
            return [5, out, stopped]
        if code in (ALL, FETCHALL):
            return [3, [_item(x) for x in (v.all() if code == ALL else v.fetchall())]]
        if code == ONLYONE:
            name = ONLYONE_NAMES[op[1]]
            if not hasattr(v, name):
                return [7, E_ATTR]
            x = getattr(v, name)()
            return [1] if x is None else [2, _item(x)]
        if code == ROOT:
            self.view = self.root
            return [0]
        if code == TUPLES:
            self.view = self.root.tuples()
            assert self.view is self.root
            return [0]
        if code == SCALARS:
            self.view = self.root.scalars(op[1])
            return [0]
        if code == MAPPINGS:
            self.view = self.root.mappings()
            return [0]
        if code == COLUMNS:
            if not hasattr(v, "columns"):
                return [7, E_ATTR]
            assert v.columns(*op[1]) is v
            return [0]
        if code == UNIQUE:
            s = op[1]
            if s == 0:
                r = v.unique()
            elif s == 1:
                r = v.unique(strategy=lambda row: _deep(row))
            else:
                r = v.unique(strategy=lambda row: _deep(row[0]))
            assert r is v
            return [0]
        if code == YIELDPER:
            assert v.yield_per(op[1]) is v
            return [0]
        if code == CLOSE:
            v.close()
            return [0]
        if code == FREEZE:
            fr = self.root.freeze()
            self.others.append(self.root)
            self.root = self.view = fr()
            self.raw_w = len(self.root.keys())
            self.strategy = [3]
            return [0]
        if code == MERGE:
            # a second result of the same shape (same kind of source), merged behind the current one
            other = _make_result([3] if self.strategy[0] == 3 else [0], self.raw_w, op[1], other=True)
            self.others += [self.root, other]
            self.root = self.view = self.root.merge(other)
            return [0]
        raise ValueError("unknown op %r" % (op,))

    def step(self, op):
        try:
            out = self.call(op)
        except Exception as e:  # every exception is an observation; unexpected classes get code 99
            out = [7, _exc_code(e)]
        return [out, 1 if self.root.closed else 0, _internals(self.root)]


def impl(c):
    if not _ENV:
        impl_setup()
    strategy, w, rows, ops = c["in"]
    d = _Drv(strategy, w, rows)
    try:
        return [d.step(op) for op in ops]
    finally:
        for r in [d.root] + d.others:
            try:
                r.close()
            except Exception:
                pass


# ---------------------------------------------------------------- the property itself: a plain list
class _View:
    def __init__(self, kind, cols, uniq):
        self.kind = kind  # 0 rows, 1 scalars, 2 mappings
        self.cols = cols  # [(position, label)]
        self.uniq = uniq  # None | {"seen": set(), "strat": 0|1|2}   (shared by reference, like the real set)


def _fz(v):
    return tuple(_fz(x) for x in v) if isinstance(v, (list, tuple)) else v


class ListModel:
    """every row once, in order, projected and de-duplicated as requested; closed => ResourceClosedError"""

    def __init__(self, w, rows, cursor=False):
        self.cursor = cursor  # the result is a CursorResult (not an IteratorResult / MergedResult)
        self.rem = [list(r) for r in rows]
        self.closed = False
        self.yp = None
        self.root = _View(0, [(i, i) for i in range(w)], None)
        self.view = self.root
        self.merged = False

    def _key(self, v, p):
        return _fz(p[:1]) if v.uniq["strat"] == 2 else _fz(p)

    def _take(self, v, n, commit=True):
        """the first n not-yet-seen projected rows; consumes exactly the rows read to find them"""
        rem = self.rem if commit else list(self.rem)
        seen = None
        if v.uniq is not None:
            seen = v.uniq["seen"] if commit else set(v.uniq["seen"])
        out = []
        while rem and (n is None or len(out) < n):
            raw = rem.pop(0)
            p = [raw[c[0]] for c in v.cols]
            if seen is not None:
                k = self._key(v, p)
                if k in seen:
                    continue
                seen.add(k)
            out.append(p)
        return out

    def _post(self, v, p):
        if v.kind == 0:
            return [0, p]
        if v.kind == 1:
            return [1, p[0]]
        return [2, [[c[1], x] for c, x in zip(v.cols, p)]]

    def step(self, op):
        """returns (outcome, closed) or None when the call is outside the property (size conventions)"""
        code = op[0]
        v = self.view
        if code in FETCH_OPS:
            if code == FETCHONE and v.kind == 1:
                return [7, E_ATTR], self.closed
            if code == ONLYONE and ONLYONE_FLAGS[op[1]][2] and v.kind != 0:
                return [7, E_ATTR], self.closed
            size = None
            if code in (FETCHMANY, PARTS):
                size = op[1]
                if size is None or size == []:
                    size = self.yp
                    if not size:
                        return None
                if size < 1:
                    return None
            lazy_noop = code == PARTS and op[2] == 0  # generator never started
            if self.closed and not lazy_noop and not (code == ITER and op[1] == 0):
                return [7, E_CLOSED], True
            if code == FETCHONE or code == NEXT:
                d = self._take(v, 1)
                out = [2, self._post(v, d[0])] if d else ([1] if code == FETCHONE else [6])
            elif code == ITER:
                d = self._take(v, op[1])
                out = [4, [self._post(v, p) for p in d], 1 if len(d) < op[1] else 0]
            elif code == FETCHMANY:
                out = [3, [self._post(v, p) for p in self._take(v, size)]]
            elif code == PARTS:
                parts = []
                stopped = 0
                for _ in range(op[2]):
                    d = self._take(v, size)
                    if not d:
                        stopped = 1
                        break
                    parts.append([self._post(v, p) for p in d])
                out = [5, parts, stopped]
            elif code in (ALL, FETCHALL):
                out = [3, [self._post(v, p) for p in self._take(v, None)]]
            else:
                second, none, scalar = ONLYONE_FLAGS[op[1]]
                d = self._take(v, 2, commit=False)
                self.rem = []
                self.closed = True
                if not d:
                    out = [7, E_NORESULT] if none else [1]
                elif len(d) == 2 and second:
                    out = [7, E_MULTI]
                else:
                    out = [2, [1, d[0][0]] if scalar else self._post(v, d[0])]
            return out, self.closed
        if code in (ROOT, TUPLES):
            self.view = self.root
        elif code == SCALARS:
            if op[1] >= len(self.root.cols):
                return [7, E_INDEX], self.closed
            self.view = _View(1, [self.root.cols[op[1]]], self.root.uniq)
        elif code == MAPPINGS:
            self.view = _View(2, list(self.root.cols), self.root.uniq)
        elif code == COLUMNS:
            if v.kind == 1:
                return [7, E_ATTR], self.closed
            if not op[1]:
                return None
            if any(i >= len(v.cols) for i in op[1]):
                return [7, E_INDEX], self.closed
            v.cols = [v.cols[i] for i in op[1]]
        elif code == UNIQUE:
            v.uniq = {"seen": set(), "strat": op[1]}
        elif code == YIELDPER:
            self.yp = op[1]
        elif code == CLOSE:
            self.closed = True
            self.rem = []
        elif code == MERGE:
            if self.closed or self.merged:
                return None  # merging a closed result: nothing documented
            self.rem = self.rem + [list(r) for r in op[1]]
            self.view = self.root
            self.merged = True
            self.cursor = False
        elif code == FREEZE:
            if self.closed:
                return [7, E_CLOSED], True
            d = self._take(self.root, None)
            self.rem = d
            self.yp = None
            self.root = self.view = _View(0, [(i, c[1]) for i, c in enumerate(self.root.cols)], None)
            self.merged = False
            self.cursor = False
        else:
            raise ValueError(op)
        return [0], self.closed


def _onlyone_ignoring_seen(m, v, op):
    """what _only_one_row returns when it does not consult the seen-set (the known defect)"""
    second, none, scalar = ONLYONE_FLAGS[op[1]]
    rows = [[raw[c[0]] for c in v.cols] for raw in m.rem]
    if not rows:
        return [7, E_NORESULT] if none else [1]
    first = rows[0]
    if second and any(m._key(v, p) != m._key(v, first) for p in rows[1:]):
        return [7, E_MULTI]
    return [2, [1, first[0]] if scalar else m._post(v, first)]


def oracle(c, obs):
    strategy, w, rows, ops = c["in"]
    m = ListModel(w, rows, cursor=strategy[0] != 3)
    for i, (op, got) in enumerate(zip(ops, obs)):
        v = m.view
        seen_nonempty = v.uniq is not None and len(v.uniq["seen"]) > 0
        exhausted_cursor = m.cursor and not m.rem and not m.closed
        before = None
        if op[0] == ONLYONE and seen_nonempty:
            before = _onlyone_ignoring_seen(m, v, op)
        exp = m.step(op)
        if exp is None:
            return None  # sizes below 1 / size-less fetchmany without yield_per: DBAPI specific from here on
        want = [exp[0], 1 if exp[1] else 0]
        have = [got[0], got[1]]
        if want == have:
            continue
        if want[0] == [7, E_ATTR]:
            return None  # the method exists after all: which methods a view offers is not part of C10
        if want[0] == [7, E_INDEX] and have[0][0] == 7 and have[1] == want[1]:
            continue  # a bad column index must be rejected; the exception class is not part of C10
        name = ONLYONE_NAMES[op[1]] if op[0] == ONLYONE else "op%d" % op[0]
        msg = "call #%d %s: list model says %s, implementation %s" % (i, name, want, have)
        if before is not None and have == [before, 1]:
            return "[unique-onlyone] " + msg
        if op[0] == ONLYONE and exhausted_cursor and have == [want[0], 0]:
            return "[exhausted-onlyone-noclose] " + msg
        return msg
    return None


def match_finding(c, what):
    for tag, fid in (
        ("[unique-onlyone]", "C10-only-one-row-ignores-seen-set"),
        ("[exhausted-onlyone-noclose]", "C10-only-one-row-on-exhausted-cursor-result-not-closed"),
    ):
        if what.startswith(tag):
            return fid
    return None


LEVEL_TEXT = (
    "Machine-checked refinement proof (Coq): the Gallina transcription of the three cursor fetch "
    "strategies + IteratorResult, the memoised row getters (_onerow/_manyrow/_allrows/_iterator/"
    "_only_one_row), unique/columns/scalars/mappings/yield_per/close/freeze, run over ARBITRARY "
    "operation sequences, produces exactly the observations of a plain list model (every row once, in "
    "order, projected, de-duplicated; closure reported identically) - outside two precisely "
    "delimited defect regions (_only_one_row), each of which has a _refuted theorem and a known-finding "
    "witness; two further defects found by this check (stale getters after ScalarResult.unique(), "
    "MergedResult.close()) were repaired and their witnesses are kept as regression cases."
)
LEVEL_NOTE = (
    "Trusted: Coq kernel; the hand transcription (source pin + behavioural correspondence incl. the "
    "buffered strategy's internal buffer sizes); sqlite3 cursor semantics for sizes >= 1. No axioms."
)
TECHNIQUE = (
    "Coq refinement proof (simulation, induction over operation sequences, fuel bounds); source pin; "
    "small-scope exhaustive + random model/implementation correspondence; independent list-model oracle"
)
