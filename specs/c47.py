"""C47 - with autoflush on, queries see all pending changes.

Case format (tree):  [parent ids, child rows [id, val, pid(0 = NULL)], session autoflush flag, steps]
  steps   [1,v,p] add C(id=fresh, val=v, pid=p)      [2] add P(id=fresh)
          [3,k,v] child k .val = v                    [4,k,p] child k .pid = p   (re-parent)
          [5,k]   session.delete(child k)             [6] session.flush()
          [7,k]   child k .id = fresh   (primary key change of a persistent object; afterwards the object is addressed
                  by its new id; cases containing it carry "model": False - twin oracle only)
          [10,kind,mode,a] query:
             kind 0 execute(select(C).where(C.val >= a).order_by(C.id)).scalars()     1 select(C.id, C.val).where(C.pid == a)
                  2 select(count()).select_from(C)    3 Core select on the Table (c.val >= a)    4 session.get(C, a)
                  5 lazy load  child a .parent        6 collection load  parent a .children      7 session.get(P, a)
                  8 session.refresh(child a)          9 session.query(C).filter(C.val >= a)      10 session.scalars(select(C.id)...)
                  11 session.scalar(select(count()).select_from(<Table c>))   12 session.scalar(text("select count(*) from c"))
                  13 session.execute(text("select id from c where val >= :a order by id"))
                  14 session.scalar(select(count()).select_from(C))            15 session.scalars(<Core select c.id>)
                  16 session.connection().execute(<Core select c.id>)   (not a Session execution: never autoflushes)
             mode 0 plain   1 inside `with session.no_autoflush`   2 execution option autoflush=False / Query.autoflush(False)
Two sessions on two identical databases run every step: A as written, the TWIN B calls flush() before
every query.  Observation per step (coq/orm/AutoflushRun.v models side A):
  [rc, result rows of A, [len(new), len(dirty), len(deleted)], table c if changed else 0, table p if changed
   else 0, result rows of B]        (the last field is for the oracle only: model_pair strips it)
rc: 0 done; 1/2/3 skipped (object not in the session / not applicable / refresh of a dirty or pending object);
    4 lazy or collection load on a PENDING object (done); 5 get of an identity that is marked deleted (done);
    6 get of an identity present in the identity map (done).
"""
import itertools

ID = "C47"
LEVEL = "proof"
PROPS = "props/C47.v"
RUNNER = ("SAV.orm.AutoflushRun", "run_case")
STATIC_MODULES = ["SAV.orm.AutoflushRun"]
RULE = (
    "parents {1}, children {(1,10,1),(2,20,0)}, child 1 and parent 1 loaded: every sequence of <= 2 pending "
    "changes from {add child, add parent, set val (2 objects), re-parent, delete} followed by each of the 17 query "
    "kinds (execute / scalars / scalar x ORM entity, ORM column, count, Core Table select, text(); get; lazy and "
    "collection load; refresh; Query; connection().execute) in each applicable mode (plain / no_autoflush block / autoflush=False option) and a final plain "
    "entity query (quick: a seeded sample of 1000; thorough: all), with session autoflush on; plus random "
    "histories of <= 12 steps (<= 2 parents, <= 3 children, session autoflush on 80%); plus - twin oracle only, "
    "not compared with the model - primary-key changes of a persistent object (with / without pending INSERTs) "
    "followed by every query kind and get() by the new and the old key (quick: 700 sampled + 400 random). "
    "non-trivial = a query runs while a change is pending"
)
TRUSTED = [
    "hand-written Gallina transcription (coq/orm/Autoflush.v) of Session._autoflush / no_autoflush / _execute_internal "
    "/ get / refresh, orm_pre_session_exec, _LazyLoader._load_for_state and the identity-map resolution of rows; "
    "pinned to the normalised source, call chains and the _autoflush guard re-extracted on every run (T1/T2), "
    "compared behaviourally",
    "the unit of work is summarised as one INSERT/UPDATE/DELETE per object (C30/C36); SQLite evaluates the WHERE "
    "clauses (val >= a, pid = a, ORDER BY id) as the model does",
]
ASSUMPTIONS = [
    "two mapped classes, one many-to-one / one-to-many pair without backref; re-parenting assigns the foreign key "
    "column; parents are never deleted or modified",
    "one Session, no commit/rollback/expire_all inside a case; queries are the 11 generated shapes",
    "autoflush suppression while flushing (Session._flushing) is covered by the T2 guard only, not behaviourally",
    "primary-key changes are not in the Gallina model: those histories are decided by the twin-session oracle only",
    "interpretation: 'lazy load executed inside the session' does not include attribute access on a PENDING object - "
    "no load is emitted there (relationship.load_on_pending defaults to False, documented); the model still returns "
    "None / [] for it and the oracle skips those steps (result code 4)",
]
ANCHORS = [
    ("lib/sqlalchemy/orm/session.py", "Session._autoflush"),
    ("lib/sqlalchemy/orm/session.py", "Session.no_autoflush"),
    ("lib/sqlalchemy/orm/session.py", "Session._execute_internal"),
    ("lib/sqlalchemy/orm/session.py", "Session.refresh"),
    ("lib/sqlalchemy/orm/session.py", "Session.get"),
    ("lib/sqlalchemy/orm/session.py", "Session._get_impl"),
    ("lib/sqlalchemy/orm/context.py", "_ORMCompileState.orm_pre_session_exec"),
    ("lib/sqlalchemy/orm/context.py", "_AutoflushOnlyORMCompileState.orm_pre_session_exec"),
    ("lib/sqlalchemy/orm/strategies.py", "_LazyLoader._load_for_state"),
    ("lib/sqlalchemy/orm/strategies.py", "_LazyLoader._emit_lazyload"),
    ("lib/sqlalchemy/orm/loading.py", "_load_on_pk_identity"),
    ("lib/sqlalchemy/orm/loading.py", "get_from_identity"),
    ("lib/sqlalchemy/orm/query.py", "Query.autoflush"),
    ("lib/sqlalchemy/orm/query.py", "Query._iter"),
]

ADDC, ADDP, SETVAL, SETPID, DELC, FLUSH = 1, 2, 3, 4, 5, 6
Q = 10
SELENT, SELCOL, COUNT, CORE, GET, LAZYP, CHILDREN, GETP, REFRESH, LEGACY, SCALARS = range(11)
SCALARCORE, SCALARTEXT, EXECTEXT, SCALARORM, SCALARSCORE, CONNEXEC = range(11, 17)
NKINDS = 17
SETID = 7  # [7,k] child k .id = fresh  (primary-key change; such histories are checked by the twin oracle only)

# ------------------------------------------------------------------------------ translate (T1 + T2)
SCAN = ["orm/session.py", "orm/context.py", "orm/strategies.py", "orm/query.py", "orm/loading.py"]
NAMES = [
    "_autoflush", "execute", "_execute_internal", "orm_pre_session_exec", "_get_impl", "_load_on_pk_identity",
    "_load_on_ident", "_emit_lazyload", "_load_for_state", "_iter",
]


def pin_check(repo):
    from translate import fingerprint

    fingerprint.check(repo, ANCHORS, "C47")


def _scan(repo):
    """(file-qualified function name, referenced names from NAMES) for every function of the scanned files"""
    import ast
    import os

    table = []
    for rel in SCAN:
        with open(os.path.join(repo, "lib/sqlalchemy", rel)) as f:
            tree = ast.parse(f.read())
        mod = rel.split("/")[-1][:-3]

        def visit(node, prefix):
            for ch in ast.iter_child_nodes(node):
                if isinstance(ch, ast.ClassDef):
                    visit(ch, prefix + [ch.name])
                elif isinstance(ch, (ast.FunctionDef, ast.AsyncFunctionDef)):
                    refs = set()
                    for n in ast.walk(ch):
                        if isinstance(n, ast.Call) and isinstance(n.func, ast.Attribute) and n.func.attr == "_autoflush":
                            refs.add("_autoflush")  # only a CALL of _autoflush counts
                        elif isinstance(n, ast.Attribute) and n.attr in NAMES and n.attr != "_autoflush":
                            refs.add(n.attr)
                        elif isinstance(n, ast.Name) and n.id in NAMES:
                            refs.add(n.id)
                    qn = ".".join([mod] + prefix + [ch.name])
                    if refs:
                        table.append((qn, sorted(refs)))
                    visit(ch, prefix + [ch.name])

        visit(tree, [])
    # overloads / redefinitions: merge entries of the same qualified name (the last body is the real one,
    # the @overload stubs have no references)
    merged = {}
    for qn, refs in table:
        merged.setdefault(qn, set()).update(refs)
    return sorted((qn, sorted(r)) for qn, r in merged.items())


def _bool_expr(node, names):
    import ast

    if isinstance(node, ast.BoolOp):
        opn = "&&" if isinstance(node.op, ast.And) else "||"
        return "(" + (" %s " % opn).join(_bool_expr(v, names) for v in node.values) + ")"
    if isinstance(node, ast.UnaryOp) and isinstance(node.op, ast.Not):
        return "(negb %s)" % _bool_expr(node.operand, names)
    if isinstance(node, ast.Attribute) and isinstance(node.value, ast.Name) and node.value.id == "self" and node.attr in names:
        return names[node.attr]
    raise ValueError("untranslatable condition: %s" % ast.dump(node)[:200])


def translate(repo, outdir):
    import ast
    import os
    from translate import fingerprint

    table = _scan(repo)
    with open(os.path.join(repo, "lib/sqlalchemy/orm/session.py")) as f:
        af = fingerprint.find_node(ast.parse(f.read()), "Session._autoflush")
    ifs = [n for n in af.body if isinstance(n, ast.If)]
    if len(ifs) != 1:
        raise ValueError("Session._autoflush: expected exactly one top-level if")
    guard = _bool_expr(ifs[0].test, {"autoflush": "a_autoflush", "_flushing": "a_flushing"})
    ent = ";\n  ".join('("%s", [%s])' % (qn, "; ".join('"%s"' % r for r in refs)) for qn, refs in table)
    src = (
        "(* generated on every run from lib/sqlalchemy/orm/{session,context,strategies,query,loading}.py - do not edit *)\n"
        "From Coq Require Import List String Bool.\nImport ListNotations.\nOpen Scope string_scope.\n"
        "From SAV.orm Require Import Autoflush AutoflushSites.\n"
        "Definition gen_refs : list (string * list string) := [\n  %s\n].\n"
        "Definition gen_guard (a_autoflush a_flushing : bool) : bool := %s.\n"
        "Lemma gen_covers : covers gen_refs = true.\nProof. vm_compute; reflexivity. Qed.\n"
        "Lemma gen_direct_sites : direct_sites gen_refs = expected_direct_sites.\nProof. vm_compute; reflexivity. Qed.\n"
        "Lemma gen_guard_ok : forall a f, gen_guard a f = af_guard a f.\nProof. intros [] []; reflexivity. Qed.\n"
        "Theorem gen_entry_points_total : forall e, In e documented -> exists ch, chain_of e = Some ch /\\ chain_valid gen_refs ch = true.\n"
        "Proof. exact (entry_points_total gen_refs gen_covers). Qed.\n"
        % (ent, guard)
    )
    p = os.path.join(outdir, "Gen_C47.v")
    with open(p, "w") as fh:
        fh.write(src)
    return [p]


# ------------------------------------------------------------------------------ generation
def _modes(kind):
    return (0, 1) if kind in (LAZYP, CHILDREN, REFRESH, CONNEXEC) else (0, 1, 2)


def _arg(kind):
    return {SELENT: 15, SELCOL: 1, COUNT: 0, CORE: 15, GET: 3, LAZYP: 1, CHILDREN: 1, GETP: 2, REFRESH: 2, LEGACY: 15,
            SCALARS: 15, SCALARCORE: 0, SCALARTEXT: 0, EXECTEXT: 15, SCALARORM: 0, SCALARSCORE: 15, CONNEXEC: 15}[kind]


PENDING = [[ADDC, 15, 1], [ADDC, 25, 2], [ADDP], [SETVAL, 1, 25], [SETVAL, 2, 5], [SETPID, 2, 1], [SETPID, 1, 2], [DELC, 1]]


def _family():
    pre = [[Q, GET, 0, 1], [Q, GET, 0, 2], [Q, GETP, 0, 1]]
    for n in (0, 1, 2):
        for pend in itertools.product(PENDING, repeat=n):
            for kind in range(NKINDS):
                for mode in _modes(kind):
                    for a in {_arg(kind), 1 if kind in (GET, LAZYP, REFRESH) else _arg(kind)}:
                        steps = pre + [list(p) for p in pend] + [[Q, kind, mode, a], [Q, SELENT, 0, 0]]
                        yield {"in": [[1], [[1, 10, 1], [2, 20, 0]], 1, steps], "kind": "pending-%d-then-query" % n}


def _rand(rng):
    prow = list(range(1, rng.randint(0, 2) + 1))
    crow = [[i + 1, rng.choice([5, 10, 15, 20]), rng.choice([0] + prow)] for i in range(rng.randint(0, 3))]
    saf = 1 if rng.random() < 0.8 else 0
    steps = []
    for _ in range(rng.randint(2, 12)):
        if rng.random() < 0.55:
            k = rng.choice([ADDC, ADDP, SETVAL, SETVAL, SETPID, SETPID, DELC, FLUSH])
            if k == ADDC:
                steps.append([k, rng.choice([5, 10, 15, 20]), rng.randint(0, 3)])
            elif k in (ADDP, FLUSH):
                steps.append([k])
            elif k == SETVAL:
                steps.append([k, rng.randint(1, 5), rng.choice([5, 10, 15, 20, 25])])
            elif k == SETPID:
                steps.append([k, rng.randint(1, 5), rng.randint(0, 3)])
            else:
                steps.append([k, rng.randint(1, 5)])
        else:
            kind = rng.randrange(NKINDS)
            mode = rng.choice([0, 0, 0, 1, 2])
            if mode == 2 and kind in (LAZYP, CHILDREN, REFRESH, CONNEXEC):
                mode = 0
            if kind in (SELENT, CORE, LEGACY, SCALARS, EXECTEXT, SCALARSCORE, CONNEXEC):
                a = rng.choice([0, 10, 15, 20])
            elif kind in (SELCOL, GETP, CHILDREN):
                a = rng.randint(1, 3)
            elif kind in (COUNT, SCALARCORE, SCALARTEXT, SCALARORM):
                a = 0
            else:
                a = rng.randint(1, 5)
            steps.append([Q, kind, mode, a])
    return {"in": [prow, crow, saf, steps], "kind": "random"}


def _family_pk():
    """primary-key change of a persistent object, then every entry point in every mode, get() by the new and by the
    old key, with and without pending INSERTs (session._new empty / non-empty); twin oracle only"""
    pre = [[Q, GET, 0, 1], [Q, GET, 0, 2], [Q, GETP, 0, 1]]
    for before, nadd in (([], 0), ([[ADDC, 15, 1]], 1), ([[ADDC, 15, 1], [Q, COUNT, 0, 0]], 1), ([[SETVAL, 2, 5]], 0),
                         ([[Q, SCALARS, 0, 0]], 0)):
        new = 3 + nadd
        for change in ([[SETID, 1]], [[SETID, 1], [SETID, new]], [[SETID, 1], [SETVAL, new, 25]], [[SETID, 2], [SETPID, new, 1]],
                       [[SETID, 1], [DELC, new]], [[SETID, 1], [ADDP]]):
            last = new + 1 if change[-1][0] == SETID and len(change) == 2 else new
            for kind in range(NKINDS):
                for mode in _modes(kind):
                    args = {_arg(kind)}
                    if kind in (GET, LAZYP, REFRESH):
                        args = {1, 2, new, last}
                    for a in sorted(args):
                        steps = pre + before + change + [[Q, kind, mode, a], [Q, GET, 0, last], [Q, SELENT, 0, 0]]
                        yield {"in": [[1], [[1, 10, 1], [2, 20, 0]], 1, [list(x) for x in steps]], "kind": "pk-change",
                               "model": False}


def _rand_pk(rng):
    c = _rand(rng)
    steps = c["in"][3]
    for _ in range(rng.randint(1, 3)):
        steps.insert(rng.randint(0, len(steps)), [SETID, rng.randint(1, 6)])
    for _ in range(rng.randint(1, 2)):
        steps.insert(rng.randint(0, len(steps)), [Q, GET, 0, rng.randint(1, 7)])
    return {"in": c["in"], "kind": "random-pk-change", "model": False}


def gen_cases(rng, tier):
    fam = list(_family())
    cases = fam if tier == "thorough" else rng.sample(fam, 1000)
    for _ in range(8000 if tier == "thorough" else 700):
        cases.append(_rand(rng))
    fpk = list(_family_pk())
    cases += fpk if tier == "thorough" else rng.sample(fpk, 700)
    for _ in range(3000 if tier == "thorough" else 400):
        cases.append(_rand_pk(rng))
    return cases


def nontrivial(c):
    pend = False
    for s in c["in"][3]:
        if s[0] in (ADDC, ADDP, SETVAL, SETPID, DELC, SETID):
            pend = True
        elif s[0] == FLUSH:
            pend = False
        elif s[0] == Q and pend:
            return True
    return False


# ------------------------------------------------------------------------------ implementation side
_ENV = {}


def _env():
    if _ENV:
        return _ENV
    from sqlalchemy import Column, ForeignKey, Integer, create_engine, func, inspect, select, text
    from sqlalchemy.orm import Session, declarative_base, relationship
    from sqlalchemy.pool import StaticPool

    Base = declarative_base()

    class P(Base):
        __tablename__ = "p"
        id = Column(Integer, primary_key=True, autoincrement=False)
        children = relationship("C", order_by="C.id")

    class C(Base):
        __tablename__ = "c"
        id = Column(Integer, primary_key=True, autoincrement=False)
        val = Column(Integer)
        pid = Column(Integer, ForeignKey("p.id"))
        parent = relationship("P", overlaps="children")

    es = []
    for _ in range(2):
        e = create_engine("sqlite://", connect_args={"autocommit": False}, poolclass=StaticPool)
        Base.metadata.create_all(e)
        es.append(e)
    _ENV.update(P=P, C=C, es=es, Session=Session, inspect=inspect, select=select, func=func, text=text)
    return _ENV


class _Side:
    def __init__(self, e, case, twin):
        E = _env()
        self.E = E
        self.twin = twin
        prow, crow, saf, steps = case
        with e.begin() as c:
            c.exec_driver_sql("delete from c")
            c.exec_driver_sql("delete from p")
            for k in prow:
                c.exec_driver_sql("insert into p values (?)", (k,))
            for r in crow:
                c.exec_driver_sql("insert into c values (?,?,?)", (r[0], r[1], r[2] or None))
        self.s = E["Session"](e, autoflush=bool(saf))
        self.ch = {}
        self.pa = {}
        self.nc = max([r[0] for r in crow] + [0]) + 1
        self.np = max(list(prow) + [0]) + 1
        self.prev = None

    @staticmethod
    def cres(o):
        return [o.id, -1 if o.val is None else o.val, o.pid or 0]

    def runq(self, kind, mode, a):
        E, s = self.E, self.s
        C, P, select, func = E["C"], E["P"], E["select"], E["func"]
        xo = {"autoflush": False} if mode == 2 else {}
        if kind == SELENT:
            r = s.execute(select(C).where(C.val >= a).order_by(C.id), execution_options=xo).scalars().all()
            for o in r:
                self.ch[o.id] = o
            return [self.cres(o) for o in r]
        if kind == SELCOL:
            q = select(C.id, C.val).where(C.pid == a).order_by(C.id).execution_options(**xo)
            return [list(x) for x in s.execute(q).all()]
        if kind == COUNT:
            return [[s.execute(select(func.count()).select_from(C), execution_options=xo).scalar()]]
        if kind == CORE:
            t = C.__table__
            q = select(t.c.id).where(t.c.val >= a).order_by(t.c.id)
            return [[x[0]] for x in s.execute(q, execution_options=xo).all()]
        if kind == GET:
            o = s.get(C, a, execution_options=xo)
            if o is None:
                return []
            self.ch[o.id] = o
            return [self.cres(o)]
        if kind == GETP:
            o = s.get(P, a, execution_options=xo)
            if o is None:
                return []
            self.pa[a] = o
            return [[o.id]]
        if kind == LAZYP:
            o = self.ch[a]
            if E["inspect"](o).persistent:
                s.expire(o, ["parent"])
            p = o.parent
            if p is None:
                return []
            self.pa[p.id] = p
            return [[p.id]]
        if kind == CHILDREN:
            p = self.pa[a]
            if E["inspect"](p).persistent:
                s.expire(p, ["children"])
            r = list(p.children)
            for o in r:
                self.ch[o.id] = o
            return [[o.id] for o in r]
        if kind == REFRESH:
            o = self.ch[a]
            s.refresh(o)
            return [self.cres(o)]
        if kind == LEGACY:
            q = s.query(C).filter(C.val >= a).order_by(C.id)
            if mode == 2:
                q = q.autoflush(False)
            r = q.all()
            for o in r:
                self.ch[o.id] = o
            return [self.cres(o) for o in r]
        if kind == SCALARS:
            return [[x] for x in s.scalars(select(C.id).where(C.val >= a).order_by(C.id), execution_options=xo).all()]
        t = C.__table__
        if kind == SCALARCORE:
            return [[s.scalar(select(func.count()).select_from(t), execution_options=xo)]]
        if kind == SCALARTEXT:
            return [[s.scalar(E["text"]("select count(*) from c"), execution_options=xo)]]
        if kind == EXECTEXT:
            q = E["text"]("select id from c where val >= :a order by id")
            return [[x[0]] for x in s.execute(q, {"a": a}, execution_options=xo).all()]
        if kind == SCALARORM:
            return [[s.scalar(select(func.count()).select_from(C), execution_options=xo)]]
        if kind == SCALARSCORE:
            return [[x] for x in s.scalars(select(t.c.id).where(t.c.val >= a).order_by(t.c.id), execution_options=xo).all()]
        if kind == CONNEXEC:
            return [[x[0]] for x in s.connection().execute(select(t.c.id).where(t.c.val >= a).order_by(t.c.id)).all()]
        raise ValueError(kind)

    def guard(self, step):
        """result code, decided on side A through the public API only"""
        s, insp, k = self.s, self.E["inspect"], step[0]

        def usable(o):
            return o is not None and (insp(o).persistent or insp(o).pending)

        if k in (SETVAL, SETPID):
            return 0 if usable(self.ch.get(step[1])) else 1
        if k in (DELC, SETID):
            o = self.ch.get(step[1])
            if not usable(o):
                return 1
            return 0 if insp(o).persistent and o not in s.deleted else 2
        if k == Q:
            kind, mode, a = step[1:4]
            if kind in (LAZYP, REFRESH):
                o = self.ch.get(a)
                if not usable(o):
                    return 1
                if o in s.deleted:
                    return 2
                if kind == REFRESH:
                    return 3 if insp(o).pending or o in s.dirty else 0
                return 4 if insp(o).pending else 0
            if kind == CHILDREN:
                p = self.pa.get(a)
                if p is None:
                    return 1
                return 4 if insp(p).pending else 0
            if kind == GET:
                key = self.E["C"].__mapper__.identity_key_from_primary_key((a,))
                if key in s.identity_map:
                    return 5 if s.identity_map[key] in s.deleted else 6
        return 0

    def do(self, step, rc):
        s, C, P, k = self.s, self.E["C"], self.E["P"], step[0]
        if rc in (1, 2, 3):
            return []
        if k == ADDC:
            o = C(id=self.nc, val=step[1], pid=step[2] or None)
            self.nc += 1
            s.add(o)
            self.ch[o.id] = o
        elif k == ADDP:
            o = P(id=self.np)
            self.np += 1
            s.add(o)
            self.pa[o.id] = o
        elif k == SETVAL:
            self.ch[step[1]].val = step[2]
        elif k == SETPID:
            self.ch[step[1]].pid = step[2] or None
        elif k == DELC:
            s.delete(self.ch[step[1]])
        elif k == SETID:
            o = self.ch.pop(step[1])
            o.id = self.nc
            self.ch[self.nc] = o
            self.nc += 1
        elif k == FLUSH:
            s.flush()
        elif k == Q:
            kind, mode, a = step[1:4]
            if self.twin:
                s.flush()
            if mode == 1:
                with s.no_autoflush:
                    return self.runq(kind, mode, a)
            return self.runq(kind, mode, a)
        return []

    def snap(self):
        s = self.s
        cn = s.connection()
        dbc = [[r[0], -1 if r[1] is None else r[1], r[2] or 0]
               for r in cn.exec_driver_sql("select id, val, pid from c order by id").fetchall()]
        dbp = [r[0] for r in cn.exec_driver_sql("select id from p order by id").fetchall()]
        prev = self.prev
        self.prev = (dbc, dbp)
        return [[len(s.new), len(s.dirty), len(s.deleted)], 0 if prev and prev[0] == dbc else dbc,
                0 if prev and prev[1] == dbp else dbp]


def impl(case):
    import warnings

    E = _env()
    c = case["in"]
    with warnings.catch_warnings():
        warnings.simplefilter("ignore")
        A = _Side(E["es"][0], c, False)
        B = _Side(E["es"][1], c, True)
        A.prev = ([list(r) for r in c[1]], list(c[0]))
        out = []
        for step in c[3]:
            rc = A.guard(step)
            ra = A.do(step, rc)
            rb = B.do(step, rc)
            out.append([rc, ra] + A.snap() + [rb])
        A.s.close()
        B.s.close()
    return out


def model_pair(case, obs):
    """the model describes side A; the twin's results are for the oracle only"""
    return case["in"], [o[:5] for o in obs]


# ------------------------------------------------------------------------------ oracle
_QNAME = ["select(C)", "select(C.id, C.val)", "select(count)", "Core select", "get(C)", "lazy load C.parent",
          "collection load P.children", "get(P)", "refresh", "Query", "scalars", "scalar(Core count)", "scalar(text)",
          "execute(text)", "scalar(ORM count)", "scalars(Core select)", "connection().execute"]


def oracle(case, obs):
    """With autoflush enabled (session flag on, no no_autoflush block, no autoflush=False option) a query / get of
    an absent identity / lazy load returns exactly what it returns after an explicit flush (twin session)."""
    prow, crow, saf, steps = case["in"]
    if not saf:
        return None
    for n, (st, o) in enumerate(zip(steps, obs)):
        if st[0] != Q or st[2] != 0 or st[1] == CONNEXEC:
            continue  # (Session.connection().execute() is not a Session execution: it never autoflushes)
        rc, ra, rb = o[0], o[1], o[5]
        if rc != 0:
            continue  # skipped; get of a present identity; relationship access on a PENDING object (rc 4): no lazy
            # load is executed there at all (relationship.load_on_pending defaults to False) - outside the statement
        # (refresh is only performed on an object without pending changes of its own: rc 3 otherwise)
        if ra != rb:
            return "step %d: %s(%s) returned %s with autoflush; after an explicit flush (twin session) it returns %s" % (
                n, _QNAME[st[1]], st[3], ra, rb)
    return None


def match_finding(case, what):
    return None


LEVEL_TEXT = (
    "Machine-checked proof (Coq) over a Gallina model of the Session (database tables, persistent / pending / "
    "deleted objects, identity-map resolution of rows) and of every autoflush entry point: for ALL states and all "
    "17 query shapes, with autoflush enabled the result equals the result after an explicit flush (flush is "
    "idempotent; identity-map hits need no flush); the flush applies every pending add / modification / re-parent "
    "/ delete (pointwise characterisation of the tables); with autoflush disabled nothing is written.  Relationship "
    "access on a PENDING object emits no load at all (documented, load_on_pending=False): it is outside the "
    "property, excluded by the guard, and a theorem records that the guard is needed there.  Tie: source pin, per-run extraction of the call chains from every documented entry "
    "point to Session._autoflush and of its guard, behavioural correspondence with a twin session."
)
LEVEL_NOTE = (
    "interpretation: relationship access on a pending object is not a 'lazy load executed inside the session' (no "
    "load is emitted; documented) and is outside the property; partial: two mapped classes with one relationship pair and seventeen query shapes (primary-key changes: twin oracle only); no commit/rollback/expire_all, "
    "no event hooks (autoflush inside a flush is covered by the translated guard only), no merge / "
    "merge_frozen_result, no populate_existing, no joined/selectin eager loaders.  Trusted: Coq kernel; the hand "
    "transcription (pinned + compared on every run)."
)
TECHNIQUE = (
    "Coq proof (flush idempotence, case analysis over entry points, refuted/guarded pair); T1 call-chain table + "
    "T2 guard translation; twin-session behavioural correspondence"
)
