"""C39 - cascades follow their configured rules (save-update / delete / delete-orphan / expunge / refresh-expire)."""
import copy
import itertools

ID = "C39"
LEVEL = "proof"
PROPS = "props/C39.v"
RUNNER = ("SAV.orm.CascadeRun", "run_case")
STATIC_MODULES = ["SAV.orm.CascadeRun"]
RULE = (
    "mapped classes are generated per case: 2-3 classes, 1-2 one-to-many relationships (chain P->C->G, diamond "
    "P1->C<-P2, two relationships P=>C) each with a cascade mask out of all 64 option combinations, an optional "
    "many-to-one back_populates side with its own mask, legacy_is_orphan per class; histories over {add, delete, "
    "expunge, collection append/remove, scalar parent set, collection replace, flush, expire} on 3-7 objects "
    "driven through a real Session(autoflush=False, expire_on_commit=False) on in-memory SQLite and observed "
    "after EVERY operation (object states, session.deleted, rows with foreign keys after each flush, expired "
    "set, final collections). kind sweep: every one of the 64 forward masks x 4 backref variants x 10 scripted "
    "re-parenting / orphaning / delete histories (one removes a child and deletes its parent in one flush); kind "
    "m2o (oracle only, not modelled): Order.addr many-to-one single_parent delete-orphan -> Address.lines -> Line, "
    "5x5 cascade masks x backref x scripted + random histories, judged by 'whatever leaves the session takes its "
    "expunge-cascade closure with it'; kind guided: random histories (quick <= 12 ops, thorough <= 16) "
    "from a state-aware generator. Operations whose effect depends on set iteration order in the unit of work "
    "(detected by permuting the processor order in the reference model) and operations on objects already deleted "
    "in the transaction are not generated. non-trivial = the history flushes and re-parents or orphans an object"
)
TRUSTED = [
    "hand-written Gallina transcription (coq/orm/Cascade.v) of cascade_iterator, _is_orphan, sethasparent, the "
    "backref and cascade attribute listeners, Session add/delete/expunge/expire and the unit-of-work presort / "
    "foreign-key synchronisation for one-to-many + many-to-one, pinned to the normalised source and compared "
    "behaviourally after every operation on real SQLite",
    "CascadeOptions tables are regenerated from the source on every run (T1) and compared with the model's",
]
ASSUMPTIONS = [
    "relationships are one-to-many collections (list) with an optional many-to-one back_populates side on a "
    "nullable foreign key; no many-to-many, no single_parent, no passive_deletes, no post_update, acyclic class graph",
    "all relationship attributes are loaded (objects are created in the harness, autoflush and expire_on_commit are "
    "off, expire is the last operation of a history); no rollback; primary keys are assigned by the harness",
    "flush results that depend on set iteration order inside the unit of work are outside the compared region",
]
ANCHORS = [
    ("lib/sqlalchemy/orm/util.py", "CascadeOptions"),
    ("lib/sqlalchemy/orm/mapper.py", "Mapper.cascade_iterator"),
    ("lib/sqlalchemy/orm/mapper.py", "Mapper._is_orphan"),
    ("lib/sqlalchemy/orm/relationships.py", "RelationshipProperty.cascade_iterator"),
    ("lib/sqlalchemy/orm/unitofwork.py", "_track_cascade_events"),
    ("lib/sqlalchemy/orm/unitofwork.py", "UOWTransaction.register_object"),
    ("lib/sqlalchemy/orm/unitofwork.py", "UOWTransaction._generate_actions"),
    ("lib/sqlalchemy/orm/unitofwork.py", "UOWTransaction.finalize_flush_changes"),
    ("lib/sqlalchemy/orm/unitofwork.py", "_Preprocess.execute"),
    ("lib/sqlalchemy/orm/attributes.py", "_AttributeImpl.hasparent"),
    ("lib/sqlalchemy/orm/attributes.py", "_AttributeImpl.sethasparent"),
    ("lib/sqlalchemy/orm/attributes.py", "_ScalarObjectAttributeImpl.get_all_pending"),
    ("lib/sqlalchemy/orm/attributes.py", "_ScalarObjectAttributeImpl.set"),
    ("lib/sqlalchemy/orm/attributes.py", "_ScalarObjectAttributeImpl.fire_replace_event"),
    ("lib/sqlalchemy/orm/attributes.py", "_CollectionAttributeImpl.get_all_pending"),
    ("lib/sqlalchemy/orm/attributes.py", "_CollectionAttributeImpl.fire_append_event"),
    ("lib/sqlalchemy/orm/attributes.py", "_CollectionAttributeImpl.fire_remove_event"),
    ("lib/sqlalchemy/orm/attributes.py", "_CollectionAttributeImpl.set"),
    ("lib/sqlalchemy/orm/attributes.py", "_backref_listeners"),
    ("lib/sqlalchemy/orm/collections.py", "bulk_replace"),
    ("lib/sqlalchemy/orm/strategies.py", "_register_attribute"),
    ("lib/sqlalchemy/orm/dependency.py", "_OneToManyDP.presort_deletes"),
    ("lib/sqlalchemy/orm/dependency.py", "_OneToManyDP.presort_saves"),
    ("lib/sqlalchemy/orm/dependency.py", "_OneToManyDP.process_deletes"),
    ("lib/sqlalchemy/orm/dependency.py", "_OneToManyDP.process_saves"),
    ("lib/sqlalchemy/orm/dependency.py", "_OneToManyDP._synchronize"),
    ("lib/sqlalchemy/orm/dependency.py", "_ManyToOneDP.presort_deletes"),
    ("lib/sqlalchemy/orm/dependency.py", "_ManyToOneDP.presort_saves"),
    ("lib/sqlalchemy/orm/dependency.py", "_ManyToOneDP.process_saves"),
    ("lib/sqlalchemy/orm/dependency.py", "_ManyToOneDP._synchronize"),
    ("lib/sqlalchemy/orm/session.py", "Session._save_or_update_state"),
    ("lib/sqlalchemy/orm/session.py", "Session._save_or_update_impl"),
    ("lib/sqlalchemy/orm/session.py", "Session._save_impl"),
    ("lib/sqlalchemy/orm/session.py", "Session._update_impl"),
    ("lib/sqlalchemy/orm/session.py", "Session._delete_impl"),
    ("lib/sqlalchemy/orm/session.py", "Session.expunge"),
    ("lib/sqlalchemy/orm/session.py", "Session._expunge_states"),
    ("lib/sqlalchemy/orm/session.py", "Session._expire_state"),
    ("lib/sqlalchemy/orm/session.py", "Session._conditional_expire"),
    ("lib/sqlalchemy/orm/session.py", "Session._flush"),
    ("lib/sqlalchemy/orm/session.py", "Session._contains_state"),
]

OPTS = ["save-update", "merge", "expunge", "delete", "delete-orphan", "refresh-expire"]
SU, MG, EX, DL, DO, RE = 1, 2, 4, 8, 16, 32
ALL = 63
TRANSIENT, PENDING, PERSISTENT, DELETED, DETACHED, DETDEL = range(6)
NOV = "NOV"


def translate(repo, outdir):
    from translate import fingerprint

    fingerprint.check(repo, ANCHORS, "C39")
    return _gen_opts(repo, outdir)


# ---------------------------------------------------------------------------------------------
# T1: the CascadeOptions tables, regenerated from the source on every run
# ---------------------------------------------------------------------------------------------
def _gen_opts(repo, outdir):
    """extract all_cascades, CascadeOptions._add_w_all_cascades, the option->flag assignments and the
    delete-orphan warning condition from orm/util.py by ast; write C39_opts.v whose lemmas state that the
    regenerated tables are the ones the model (CascadeOpts.v) was proved for"""
    import ast
    import os
    from translate.fingerprint import TranslateError

    path = os.path.join(repo, "lib/sqlalchemy/orm/util.py")
    with open(path) as f:
        mod = ast.parse(f.read())
    names = ["save-update", "merge", "expunge", "delete", "delete-orphan", "refresh-expire", "all", "none"]

    def idx(s):
        if s not in names:
            raise TranslateError("unknown cascade option name %r in orm/util.py" % (s,))
        return names.index(s)

    def strs(node):
        if not isinstance(node, (ast.Tuple, ast.List, ast.Set)):
            raise TranslateError("expected a literal sequence of option names")
        out = []
        for e in node.elts:
            if not (isinstance(e, ast.Constant) and isinstance(e.value, str)):
                raise TranslateError("expected string constants")
            out.append(idx(e.value))
        return out

    allc = None
    for n in mod.body:
        if isinstance(n, ast.Assign) and any(isinstance(t, ast.Name) and t.id == "all_cascades" for t in n.targets):
            v = n.value
            if not (isinstance(v, ast.Call) and getattr(v.func, "id", None) == "frozenset" and len(v.args) == 1):
                raise TranslateError("all_cascades is not frozenset(<literal>)")
            allc = strs(v.args[0])
    cls = next((n for n in mod.body if isinstance(n, ast.ClassDef) and n.name == "CascadeOptions"), None)
    if allc is None or cls is None:
        raise TranslateError("all_cascades / CascadeOptions not found")
    minus = None
    for n in cls.body:
        if isinstance(n, ast.Assign) and getattr(n.targets[0], "id", None) == "_add_w_all_cascades":
            v = n.value
            ok = (
                isinstance(v, ast.Call)
                and isinstance(v.func, ast.Attribute)
                and v.func.attr == "difference"
                and getattr(v.func.value, "id", None) == "all_cascades"
                and len(v.args) == 1
            )
            if not ok:
                raise TranslateError("_add_w_all_cascades is not all_cascades.difference(<literal>)")
            minus = strs(v.args[0])
    new = next((n for n in cls.body if isinstance(n, ast.FunctionDef) and n.name == "__new__"), None)
    if minus is None or new is None:
        raise TranslateError("CascadeOptions._add_w_all_cascades / __new__ not found")
    # flag assignments  self.<flag> = "<name>" in values
    flags = {}
    order = []  # order of the three set manipulations: all-update, none-clear, discard-all
    warn = None
    for st_ in new.body:
        if isinstance(st_, ast.Assign) and isinstance(st_.targets[0], ast.Attribute) and getattr(st_.targets[0].value, "id", None) == "self":
            v = st_.value
            if (
                isinstance(v, ast.Compare)
                and len(v.ops) == 1
                and isinstance(v.ops[0], ast.In)
                and isinstance(v.left, ast.Constant)
                and getattr(v.comparators[0], "id", None) == "values"
            ):
                flags[st_.targets[0].attr] = idx(v.left.value)
            else:
                raise TranslateError("unexpected flag assignment in CascadeOptions.__new__: %s" % ast.unparse(st_))
        elif isinstance(st_, ast.If):
            t = ast.unparse(st_.test)
            b = ast.unparse(st_.body[0]) if len(st_.body) == 1 and not st_.orelse else None
            if t == "'all' in values" and b == "values.update(cls._add_w_all_cascades)":
                order.append("all")
            elif t == "'none' in values" and b == "values.clear()":
                order.append("none")
            elif t == "self.delete_orphan and (not self.delete)" and b is not None and b.startswith("util.warn("):
                warn = True
        elif isinstance(st_, ast.Expr) and ast.unparse(st_) == "values.discard('all')":
            order.append("discard")
    want_flags = ["save_update", "delete", "refresh_expire", "merge", "expunge", "delete_orphan"]
    if sorted(flags) != sorted(want_flags):
        raise TranslateError("CascadeOptions flags differ: %s" % sorted(flags))
    if order != ["all", "none", "discard"] or not warn:
        raise TranslateError("CascadeOptions.__new__ no longer has the all/none/discard/warn structure: %s" % order)
    flag_order = ["save_update", "merge", "expunge", "delete", "delete_orphan", "refresh_expire"]
    lst = lambda l: "[" + "; ".join(str(x) for x in l) + "]"
    src = """(* generated by specs/c39.py from lib/sqlalchemy/orm/util.py - do not edit *)
From Coq Require Import List Bool Arith.
From SAV.orm Require Import CascadeOpts CascadeOptsProofs.
Import ListNotations.
(* option names are numbered: %s *)
Definition gen_all_cascades : list nat := %s.
Definition gen_all_minus : list nat := %s.
Definition gen_flag_names : list nat := %s.
Lemma c39_gen_tables_ok : opts_tables_ok gen_all_cascades gen_all_minus gen_flag_names = true.
Proof. vm_compute; reflexivity. Qed.
Theorem c39_gen_all_expands : forall vs, parse_with gen_all_cascades gen_all_minus gen_flag_names vs = parse_options vs.
Proof. exact (parse_with_tables_ok _ _ _ c39_gen_tables_ok). Qed.
""" % (
        ", ".join("%d=%s" % (i, n) for i, n in enumerate(names)),
        lst(sorted(allc)),
        lst(sorted(minus)),
        lst([flags[f] for f in flag_order]),
    )
    out = os.path.join(outdir, "C39_opts.v")
    with open(out, "w") as f:
        f.write(src)
    return [out]


# ---------------------------------------------------------------------------------------------
# reference model in Python (mirror of coq/orm/Cascade.v): used ONLY to generate valid, order-insensitive
# histories; the comparison is model(Coq) vs implementation
# ---------------------------------------------------------------------------------------------
class Err(Exception):
    def __init__(self, code):
        self.code = code


class Unsupported(Exception):
    pass


class M:
    def __init__(self, cfg, objcls):
        self.ncls, self.rels, self.legacy = cfg
        self.cls = list(objcls)
        n = len(objcls)
        self.st = [TRANSIENT] * n
        self.marked = []
        self.oos = [False] * n
        self.modified = [True] * n
        self.hp = {}
        self.coll = {}
        self.ccomm = {}
        self.par = {}
        self.pcomm = {}
        self.fk = {}
        self.rows = {}
        self.expired = [0] * n
        for o, k in enumerate(objcls):
            for ri, (rp, rc, fm, hb, bm) in enumerate(self.rels):
                if rp == k:
                    self.coll[(o, ri)] = []
                    self.ccomm[(o, ri)] = []
                if rc == k:
                    self.fk[(o, ri)] = None
                    if hb:
                        self.par[(o, ri)] = None
                        self.pcomm[(o, ri)] = NOV

    def in_session(self, o):
        return self.st[o] in (PENDING, PERSISTENT)

    def attached(self, o):
        return self.st[o] in (PENDING, PERSISTENT, DELETED)

    def has_key(self, o):
        return self.st[o] in (PERSISTENT, DELETED, DETACHED, DETDEL)

    def key(self, o):
        return o if self.has_key(o) else None

    def props(self, k):
        res = []
        for ri, (rp, rc, fm, hb, bm) in enumerate(self.rels):
            if rp == k:
                res.append(("f", ri))
            if rc == k and hb:
                res.append(("b", ri))
        return res

    def prop_casc(self, pr):
        d, ri = pr
        return self.rels[ri][2] if d == "f" else self.rels[ri][4]

    def is_orphan(self, o):
        k = self.cls[o]
        orphan_possible = False
        for ri, (rp, rc, fm, hb, bm) in enumerate(self.rels):
            if rc == k and fm & DO:
                orphan_possible = True
                flag = self.hp.get((o, ri), "unset")
                has_parent = self.has_key(o) if flag == "unset" else flag is not False
                if self.legacy[k] and has_parent:
                    return False
                elif not self.legacy[k] and not has_parent:
                    return True
        return orphan_possible if self.legacy[k] else False

    def hasparent_false(self, o, ri):
        return self.hp.get((o, ri), False) is False

    def sethasparent(self, o, ri, parent, value):
        if value:
            self.hp[(o, ri)] = parent
        else:
            if (o, ri) in self.hp:
                last = self.hp[(o, ri)]
                if last is not False and self.key(last) != self.key(parent):
                    return
            self.hp[(o, ri)] = False

    def children(self, type_, o, pr):
        d, ri = pr
        if d == "f":
            cur = self.coll[(o, ri)]
            if type_ == SU:
                orig = self.ccomm.get((o, ri))
                if orig is not None:
                    return [c for c in cur if c not in orig] + [c for c in cur if c in orig] + [c for c in orig if c not in cur]
            return list(cur)
        cur = self.par[(o, ri)]
        res = [cur] if cur is not None else []
        if type_ == SU and (o, ri) in self.pcomm:
            orig = self.pcomm[(o, ri)]
            if orig is not None and orig != NOV and orig != cur:
                res.append(orig)
        return res

    def cascade_iterator(self, type_, o, halt=None):
        visited = set()
        out = []

        def visit(n):
            for pr in self.props(self.cls[n]):
                if not self.prop_casc(pr) & type_:
                    continue
                skip_pending = type_ == RE and not self.prop_casc(pr) & DO
                q = []
                for c in self.children(type_, n, pr):
                    if c in visited:
                        continue
                    if halt and halt(c):
                        continue
                    if skip_pending and not self.has_key(c):
                        continue
                    visited.add(c)
                    q.append(c)
                for c in q:
                    out.append(c)
                    visit(c)

        visit(o)
        return out

    def save_or_update_impl(self, o, head=False):
        if self.st[o] in (DELETED, DETDEL):
            if head:
                raise Err(1)
            raise Unsupported()
        if not self.has_key(o):
            if self.st[o] == TRANSIENT:
                self.st[o] = PENDING
        else:
            if self.st[o] == DETACHED:
                self.st[o] = PERSISTENT
            if o in self.marked:
                self.marked.remove(o)

    def save_or_update_state(self, o, head=False):
        self.oos[o] = False
        self.save_or_update_impl(o, head)
        for c in self.cascade_iterator(SU, o, halt=self.in_session):
            self.save_or_update_impl(c)

    def expunge_states(self, os_):
        for o in os_:
            if self.st[o] == PENDING:
                self.st[o] = TRANSIENT
            elif self.st[o] == PERSISTENT:
                self.st[o] = DETACHED
                if o in self.marked:
                    self.marked.remove(o)
            elif self.st[o] == DELETED:
                self.st[o] = DETDEL

    def expunge(self, o):
        if not self.attached(o):
            raise Err(1)
        casc = self.cascade_iterator(EX, o)
        self.expunge_states([o] + casc)

    def delete_impl(self, o, head):
        if not self.has_key(o):
            if head:
                raise Err(1)
            return
        if self.st[o] in (DELETED, DETDEL):
            raise Unsupported()
        if o in self.marked:
            return
        if self.st[o] == DETACHED:
            self.st[o] = PERSISTENT
        casc = self.cascade_iterator(DL, o) if head else None
        self.marked.append(o)
        if head:
            for c in casc:
                self.delete_impl(c, False)

    def cascade_append_listener(self, p, pr, item, initiator_pr):
        if self.attached(p):
            if self.prop_casc(pr) & SU and pr == initiator_pr and not self.in_session(item):
                self.save_or_update_state(item)

    def cascade_remove_listener(self, p, pr, item):
        if self.prop_casc(pr) & DO:
            if self.is_orphan(item):
                if self.attached(p) and self.st[item] == PENDING:
                    self.expunge(item)
                else:
                    self.oos[item] = True

    def mod_event_coll(self, p, ri):
        if self.ccomm.get((p, ri)) is None:
            self.ccomm[(p, ri)] = list(self.coll[(p, ri)])
        self.modified[p] = True

    def mod_event_scalar(self, c, ri, previous):
        if (c, ri) not in self.pcomm:
            self.pcomm[(c, ri)] = previous
        self.modified[c] = True

    def coll_append(self, p, ri, c, initiator):
        pr = ("f", ri)
        if initiator is None:
            initiator = ("append", pr)
        self.cascade_append_listener(p, pr, c, initiator[1])
        if self.rels[ri][3]:
            bpr = ("b", ri)
            if initiator != ("replace", bpr):
                self.scalar_set(c, ri, p, initiator)
        self.mod_event_coll(p, ri)
        self.sethasparent(c, ri, p, True)
        self.coll[(p, ri)].append(c)

    def coll_remove(self, p, ri, c, initiator):
        pr = ("f", ri)
        if initiator is None:
            initiator = ("remove", pr)
        self.sethasparent(c, ri, p, False)
        self.cascade_remove_listener(p, pr, c)
        if self.rels[ri][3]:
            bpr = ("b", ri)
            if initiator != ("remove", bpr) and initiator != ("replace", bpr):
                self.scalar_set(c, ri, None, initiator, check_old=p, pop=True)
        self.mod_event_coll(p, ri)
        if c in self.coll[(p, ri)]:
            self.coll[(p, ri)].remove(c)
        else:
            raise ValueError

    def scalar_set(self, c, ri, value, initiator, check_old=None, pop=False):
        bpr = ("b", ri)
        old = self.par[(c, ri)]
        if check_old is not None and check_old != old:
            if pop:
                return
            raise Err(6)
        if initiator is None:
            initiator = ("replace", bpr)
        if old != value:
            if self.attached(c):
                if value is not None:
                    if self.prop_casc(bpr) & SU and bpr == initiator[1] and not self.in_session(value):
                        self.save_or_update_state(value)
            if old is not None:
                if initiator != ("remove", ("f", ri)):
                    try:
                        self.coll_remove(old, ri, c, ("replace", bpr))
                    except ValueError:
                        pass
            if value is not None:
                if initiator != ("append", ("f", ri)) and initiator != ("bulk", ("f", ri)):
                    self.coll_append(value, ri, c, initiator)
        self.mod_event_scalar(c, ri, old)
        self.par[(c, ri)] = value

    def op_append(self, p, ri, c):
        if c not in self.coll[(p, ri)]:
            self.coll_append(p, ri, c, None)

    def op_remove(self, p, ri, c):
        if c in self.coll[(p, ri)]:
            self.coll_remove(p, ri, c, None)

    def op_setparent(self, c, ri, p):
        self.scalar_set(c, ri, p, None)

    def op_replace(self, p, ri, cs):
        old = list(self.coll[(p, ri)])
        if self.ccomm.get((p, ri)) is None:
            self.ccomm[(p, ri)] = list(old)
        self.modified[p] = True
        self.coll[(p, ri)] = []
        evt = ("bulk", ("f", ri))
        constants = [c for c in old if c in cs]
        additions = [c for c in cs if c not in constants]
        removals = [c for c in old if c not in constants]
        for m in cs:
            if m in additions:
                self.coll_append(p, ri, m, evt)
            else:
                self.coll[(p, ri)].append(m)
        for m in constants:
            self.cascade_append_listener(p, ("f", ri), m, evt[1])
        for m in removals:
            self.sethasparent(m, ri, p, False)
            self.cascade_remove_listener(p, ("f", ri), m)
            if self.rels[ri][3]:
                self.scalar_set(m, ri, None, evt, check_old=p, pop=True)
            self.modified[p] = True

    def op_expire(self, o):
        if self.st[o] != PERSISTENT:
            raise Err(1)
        casc = self.cascade_iterator(RE, o)
        for x in [o] + casc:
            if self.has_key(x):
                self.expired[x] = 1
            elif self.st[x] == PENDING:
                self.st[x] = TRANSIENT

    def history_coll(self, p, ri):
        cur = self.coll[(p, ri)]
        orig = self.ccomm.get((p, ri))
        if orig is None:
            return [], list(cur), []
        return [c for c in cur if c not in orig], [c for c in cur if c in orig], [c for c in orig if c not in cur]

    def history_scalar(self, c, ri):
        cur = self.par[(c, ri)]
        if (c, ri) not in self.pcomm:
            return [], [cur], []
        orig = self.pcomm[(c, ri)]
        if orig == cur and orig != NOV:
            return [], [cur], []
        deleted = [] if orig in (None, NOV) else [orig]
        return [cur], [], deleted

    def flush(self, rev=False, perm=None):
        n = len(self.cls)
        ordl = (lambda l: list(l)[::-1]) if rev else list
        dirty = [o for o in range(n) if self.st[o] == PERSISTENT and self.modified[o]]
        new = [o for o in range(n) if self.st[o] == PENDING]
        if not dirty and not self.marked and not new:
            return
        deleted = list(self.marked)
        states = {}
        order = []

        def register(o, isdelete=False, cancel_delete=False):
            if not self.in_session(o):
                return False
            if o not in states:
                states[o] = isdelete
                order.append(o)
            elif isdelete or cancel_delete:
                states[o] = isdelete
            return True

        proc = ordl([o for o in range(n) if (o in new or o in dirty) and o not in deleted])
        processed = set()
        for o in proc:
            is_orphan = self.is_orphan(o)
            is_persistent_orphan = is_orphan and self.has_key(o)
            if is_orphan and not is_persistent_orphan and self.oos[o]:
                self.expunge_states([o])
            else:
                register(o, isdelete=is_persistent_orphan)
                processed.add(o)
        for o in ordl(sorted(deleted)):
            if o not in processed:
                register(o, isdelete=True)
        if not states:
            return
        procs = [("f", ri) for ri in range(len(self.rels))] + [("b", ri) for ri, r in enumerate(self.rels) if r[3]]
        procs.sort(key=lambda p: (p[1], p[0] != "f"))
        if perm is not None:
            procs = [procs[i] for i in perm]
        done = set()
        changed = True
        while changed:
            changed = False
            for d_, ri in procs:
                rp, rc, fm, hb, bm = self.rels[ri]
                if d_ == "f":
                    todo = [o for o in ordl(order) if self.cls[o] == rp and ("f", ri, o) not in done]
                    dels = [o for o in todo if states[o]]
                    savs = [o for o in todo if not states[o]]
                    for p in dels:
                        done.add(("f", ri, p))
                        a, u, d = self.history_coll(p, ri)
                        for c in d:
                            if self.hasparent_false(c, ri):
                                register(c, isdelete=bool(fm & DO))
                        if not fm & DL:
                            for c in u:
                                register(c)
                    for p in savs:
                        done.add(("f", ri, p))
                        a, u, d = self.history_coll(p, ri)
                        for c in a:
                            register(c, cancel_delete=True)
                        for c in d:
                            if not fm & DO:
                                register(c, isdelete=False)
                            elif self.hasparent_false(c, ri):
                                register(c, isdelete=True)
                                for g in self.cascade_iterator(DL, c):
                                    register(g, isdelete=True)
                    if dels or savs:
                        changed = True
                else:
                    todo = [o for o in ordl(order) if self.cls[o] == rc and ("b", ri, o) not in done]
                    dels = [o for o in todo if states[o]]
                    savs = [o for o in todo if not states[o]]
                    for c in dels:
                        done.add(("b", ri, c))
                        if bm & DL:
                            a, u, d = self.history_scalar(c, ri)
                            for x in a + u:
                                if x is None:
                                    continue
                                register(x, isdelete=True)
                                for g in self.cascade_iterator(DL, x):
                                    register(g, isdelete=True)
                    for c in savs:
                        done.add(("b", ri, c))
                        register(c)
                    if dels or savs:
                        changed = True
        if any(states[o] and not self.has_key(o) for o in order):
            raise Err(2)
        isdel = lambda o: states.get(o, False)
        for ri, (rp, rc, fm, hb, bm) in enumerate(self.rels):
            added_anywhere = set()
            for q in order:
                if self.cls[q] == rp and not states[q]:
                    added_anywhere.update(self.history_coll(q, ri)[0])
            for p in order:
                if self.cls[p] != rp:
                    continue
                a, u, d = self.history_coll(p, ri)
                if not states[p]:
                    for c in a:
                        if not isdel(c):
                            self.modified[c] = True; self.fk[(c, ri)] = p
                    for c in d:
                        if not fm & DO and self.hasparent_false(c, ri) and not isdel(c):
                            self.modified[c] = True; self.fk[(c, ri)] = None
                else:
                    for c in d:
                        if self.hasparent_false(c, ri) and not isdel(c):
                            self.modified[c] = True; self.fk[(c, ri)] = None
                    if not fm & DL:
                        for c in u:
                            if c not in added_anywhere and not isdel(c):
                                self.modified[c] = True; self.fk[(c, ri)] = None
            if hb:
                for c in order:
                    if self.cls[c] != rc or states[c]:
                        continue
                    a, u, d = self.history_scalar(c, ri)
                    if a:
                        for x in a:
                            if x is not None and not self.in_session(x):
                                continue
                            self.modified[c] = True; self.fk[(c, ri)] = x
                    elif d:
                        self.modified[c] = True; self.fk[(c, ri)] = None
        for o in order:
            if states[o]:
                self.rows.pop(o, None)
                self.st[o] = DELETED
                if o in self.marked:
                    self.marked.remove(o)
            else:
                self.rows[o] = {ri: self.fk[(o, ri)] for ri, r in enumerate(self.rels) if r[1] == self.cls[o]}
                self.st[o] = PERSISTENT
                self.modified[o] = False
                for ri, r in enumerate(self.rels):
                    if r[0] == self.cls[o]:
                        self.ccomm[(o, ri)] = None
                    if r[1] == self.cls[o] and r[3]:
                        self.pcomm.pop((o, ri), None)

    def supported(self, op):
        """False when the operation reaches a code path the model does not describe: an object deleted earlier
        in the transaction is re-added / re-deleted, a child would sit in two collections of a relationship without
        backref, or the flush result depends on the order in which the unit of work visits its processors"""
        code = op[0]
        n = len(self.cls)
        if code == 3:
            p, ri, c = op[1:]
            if not self.rels[ri][3] and any(c in self.coll[(q, ri)] for q in range(n) if q != p and (q, ri) in self.coll):
                return False
        if code == 6:
            p, ri, cs = op[1:]
            if not self.rels[ri][3] and any(
                c in self.coll[(q, ri)] for c in cs for q in range(n) if q != p and (q, ri) in self.coll
            ):
                return False
        if code != 7:
            a = copy.deepcopy(self)
            try:
                apply_op(a, op)
            except Unsupported:
                return False
            except Err:
                pass
            return True
        nproc = len(self.rels) + sum(1 for r in self.rels if r[3])
        res = set()
        for perm in itertools.permutations(range(nproc)):
            for rev in (False, True):
                a = copy.deepcopy(self)
                try:
                    a.flush(rev, perm)
                    res.add(repr((a.st, sorted(a.rows.items()), sorted(a.marked))))
                except Err as e:
                    res.add(repr(e.code))
                if len(res) > 1:
                    return False
        return True


def apply_op(m, op):
    code = op[0]
    if code == 0:
        m.save_or_update_state(op[1], head=True)
    elif code == 1:
        m.delete_impl(op[1], True)
    elif code == 2:
        m.expunge(op[1])
    elif code == 3:
        m.op_append(*op[1:])
    elif code == 4:
        m.op_remove(*op[1:])
    elif code == 5:
        c, ri, p = op[1:]
        m.op_setparent(c, ri, None if p == [] or p is None else p)
    elif code == 6:
        m.op_replace(*op[1:])
    elif code == 7:
        m.flush()
    elif code == 9:
        m.op_expire(op[1])


def _step(m, op):
    try:
        apply_op(m, op)
    except Err as e:
        return e.code
    return 0



# ---------------------------------------------------------------------------------------------
# packed exchange format (see coq/orm/CascadeRun.v): parsing integer literals dominates the cost of a shard
# ---------------------------------------------------------------------------------------------
def _pack_case(sc):
    cfg, objcls, ops = sc
    ncls, rels, legacy = cfg
    n = len(objcls)
    assert n <= 8 and ncls <= 4
    rl = [rp + 8 * rc + 64 * fm + 4096 * hb + 8192 * bm for rp, rc, fm, hb, bm in rels]
    po = []
    for op in ops:
        code = op[0]
        if code in (0, 1, 2, 9):
            po.append(code + 16 * op[1])
        elif code in (3, 4):
            po.append(code + 16 * (op[1] + 16 * (op[2] + 16 * op[3])))
        elif code == 5:
            p = 15 if op[3] == [] or op[3] is None else op[3]
            po.append(5 + 16 * (op[1] + 16 * (op[2] + 16 * p)))
        elif code == 6:
            cs = op[3]
            po.append(6 + 16 * (op[1] + 16 * (op[2] + 16 * (len(cs) + 16 * _pack(16, cs)))))
        elif code == 7:
            po.append(7)
        else:
            raise ValueError(op)
    return [n, _pack(2, legacy), _pack(4, objcls), rl, po]


def _unpack_case(t):
    n, lg, ocl, rl, po = t
    objcls = [(ocl >> (2 * i)) & 3 for i in range(n)]
    rels = [[z % 8, z // 8 % 8, z // 64 % 64, z // 4096 % 2, z // 8192 % 64] for z in rl]
    ncls = max([0] + objcls + [r[0] for r in rels] + [r[1] for r in rels]) + 1
    legacy = [(lg >> k) & 1 for k in range(ncls)]
    ops = []
    for z in po:
        code, a, b, c = z % 16, z // 16 % 16, z // 256 % 16, z // 4096 % 16
        if code in (0, 1, 2, 9):
            ops.append([code, a])
        elif code in (3, 4):
            ops.append([code, a, b, c])
        elif code == 5:
            ops.append([5, a, b, [] if c == 15 else c])
        elif code == 6:
            rest = z // 65536
            ops.append([6, a, b, [(rest >> (4 * i)) & 15 for i in range(c)]])
        else:
            ops.append([code])
    return [[ncls, rels, legacy], objcls, ops]


def _pack(base, vals):
    acc = 0
    for v in reversed(vals):
        acc = v + base * acc
    return acc


# ---------------------------------------------------------------------------------------------
# case generation
# ---------------------------------------------------------------------------------------------
def _shape(rng, shape, fm, bm, hb):
    lg = lambda p: int(rng.random() < p)
    if shape == "pc":
        return [2, [[0, 1, fm(), hb(), bm()]], [0, lg(0.2)]]
    if shape == "pcg":
        return [3, [[0, 1, fm(), hb(), bm()], [1, 2, fm(), hb(), bm()]], [0, lg(0.2), lg(0.2)]]
    if shape == "diamond":
        return [3, [[0, 2, fm(), hb(), bm()], [1, 2, fm(), hb(), bm()]], [0, 0, lg(0.4)]]
    return [2, [[0, 1, fm(), hb(), bm()], [0, 1, fm(), hb(), bm()]], [0, lg(0.4)]]


def _gen_cfg(rng):
    shape = rng.choice(["pc", "pc", "pcg", "diamond", "two"])
    fm = lambda: rng.choice([63, 63, 47, SU | DL | DO, SU, SU | DL, rng.randrange(64), rng.randrange(64)])
    bm = lambda: rng.choice([SU | MG, SU | MG, 0, SU, rng.randrange(64) & ~DO])
    hb = lambda: int(rng.random() < 0.75)
    return _shape(rng, shape, fm, bm, hb)


def _guided(rng, maxops):
    cfg = _gen_cfg(rng)
    ncls, rels, legacy = cfg
    objcls = []
    for k in range(ncls):
        objcls += [k] * rng.choice([1, 2, 2, 3] if ncls == 2 else [1, 2, 2])
    n = len(objcls)
    by = lambda k: [i for i in range(n) if objcls[i] == k]
    m = M(cfg, objcls)
    ops = []
    nops = rng.randint(3, maxops)
    tries = 0
    while len(ops) < nops and tries < 200:
        tries += 1
        code = rng.choice([0, 0, 1, 1, 2, 3, 3, 3, 4, 4, 5, 5, 6, 7, 7, 7, 9])
        op = None
        if code == 0:
            cand = [o for o in range(n) if m.st[o] in (TRANSIENT, DETACHED)] or list(range(n))
            op = [0, rng.choice(cand if rng.random() < 0.85 else list(range(n)))]
        elif code == 1:
            cand = [o for o in range(n) if m.st[o] == PERSISTENT and o not in m.marked]
            if not cand and rng.random() < 0.9:
                continue
            op = [1, rng.choice(cand if cand and rng.random() < 0.9 else list(range(n)))]
        elif code == 2:
            cand = [o for o in range(n) if m.attached(o)]
            if not cand and rng.random() < 0.9:
                continue
            op = [2, rng.choice(cand if cand and rng.random() < 0.9 else list(range(n)))]
        elif code in (3, 4):
            ri = rng.randrange(len(rels))
            p = rng.choice(by(rels[ri][0]))
            ch = by(rels[ri][1])
            if code == 4:
                cur = m.coll[(p, ri)]
                if not cur and rng.random() < 0.9:
                    continue
                c = rng.choice(cur if cur and rng.random() < 0.9 else ch)
            else:
                c = rng.choice(ch)
            op = [code, p, ri, c]
        elif code == 5:
            ri = rng.randrange(len(rels))
            if not rels[ri][3]:
                continue
            op = [5, rng.choice(by(rels[ri][1])), ri, rng.choice(by(rels[ri][0]) + [[]])]
        elif code == 6:
            ri = rng.randrange(len(rels))
            ch = by(rels[ri][1])
            op = [6, rng.choice(by(rels[ri][0])), ri, rng.sample(ch, rng.randint(0, len(ch)))]
        elif code == 7:
            if ops and ops[-1] == [7]:
                continue
            op = [7]
        elif code == 9:
            if len(ops) < nops - 1 or rng.random() < 0.5:
                continue
            cand = [o for o in range(n) if m.st[o] == PERSISTENT]
            op = [9, rng.choice(cand if cand and rng.random() < 0.9 else list(range(n)))]
        if not m.supported(op):
            continue
        e = _step(m, op)
        ops.append(op)
        if (e and code in (7, 9)) or code == 9:
            break
    return [cfg, objcls, ops]


# scripted histories for the option sweep; objects: 0,1 = parents (class 0), 2,3 = children (class 1)
_SCRIPTS = [
    # add parent with children, flush, orphan one child, flush
    [[3, 0, 0, 2], [3, 0, 0, 3], [0, 0], [7], [4, 0, 0, 2], [7]],
    # re-parent a persistent child, then delete the old parent
    [[0, 0], [0, 1], [3, 0, 0, 2], [7], [3, 1, 0, 2], [7], [1, 0], [7]],
    # re-parent a PENDING child between two session parents (the known finding when delete-orphan + backref)
    [[0, 0], [0, 1], [3, 1, 0, 2], [3, 0, 0, 2], [7]],
    # delete the parent: delete cascade / fk nulling
    [[3, 0, 0, 2], [3, 0, 0, 3], [0, 0], [0, 2], [0, 3], [7], [1, 0], [7]],
    # replace the collection
    [[0, 0], [3, 0, 0, 2], [0, 2], [7], [6, 0, 0, [3]], [7]],
    # expunge cascade, then re-add
    [[3, 0, 0, 2], [0, 0], [0, 2], [7], [2, 0], [0, 0], [7]],
    # remove then re-associate before the flush
    [[0, 0], [0, 1], [3, 0, 0, 2], [0, 2], [7], [4, 0, 0, 2], [3, 1, 0, 2], [7]],
    # expire cascade (terminal)
    [[3, 0, 0, 2], [0, 0], [0, 2], [7], [3, 0, 0, 3], [9, 0]],
    # orphan outside of the session, then add
    [[3, 0, 0, 2], [4, 0, 0, 2], [0, 2], [7], [0, 0], [7]],
    # remove a persistent child and delete its parent in ONE flush (presort_deletes sees it in history.deleted)
    [[3, 0, 0, 2], [3, 0, 0, 3], [0, 0], [0, 2], [0, 3], [7], [4, 0, 0, 2], [1, 0], [7]],
]


def _valid(case):
    cfg, objcls, ops = case
    m = M(cfg, objcls)
    out = []
    for op in ops:
        if op[0] == 5 and not cfg[1][op[2]][3]:
            continue
        if not m.supported(op):
            return None
        out.append(op)
        e = _step(m, op)
        if (e and op[0] in (7, 9)) or op[0] == 9:
            break
    return [cfg, objcls, out]


def gen_cases(rng, tier):
    cases = []
    backs = [(0, 0), (1, SU | MG), (1, 0), (1, SU | MG | EX | DL | RE)]
    for fm in range(64):
        for hb, bm in backs:
            cfg = [2, [[0, 1, fm, hb, bm]], [0, 0]]
            for k, sc in enumerate(_SCRIPTS):
                c = _valid([cfg, [0, 0, 1, 1], [list(o) for o in sc]])
                if c is not None:
                    cases.append({"in": _pack_case(c), "kind": "sweep"})
    nrand = 12000 if tier == "thorough" else 1100
    maxops = 16 if tier == "thorough" else 12
    for _ in range(nrand):
        cases.append({"in": _pack_case(_guided(rng, maxops)), "kind": "guided"})
    return cases + _m2o_cases(rng, tier)


def _is_m2o(c):
    return bool(c["in"]) and c["in"][0] == -1


def nontrivial(c):
    if _is_m2o(c):
        return any(o[0] == 3 for o in c["in"][4]) and any(o[0] == 4 for o in c["in"][4])
    cfg, objcls, ops = _unpack_case(c["in"])
    if not any(o[0] == 7 for o in ops):
        return False
    seen = set()
    for o in ops:
        if o[0] in (4, 5, 6):
            return True
        if o[0] == 3:
            if (o[2], o[3]) in seen:
                return True
            seen.add((o[2], o[3]))
    return False


# ---------------------------------------------------------------------------------------------
# implementation side
# ---------------------------------------------------------------------------------------------
_cache = {}
_trace = {}  # filled by impl() for oracle() (both run in the same interpreter, one case after the other)
_EXC = {"InvalidRequestError": 1, "FlushError": 2}


def _casc_str(mask):
    if mask & 47 == 47:  # every option except delete-orphan: spelled "all" so that its expansion is exercised
        return "all, delete-orphan" if mask & DO else "all"
    return ", ".join(o for i, o in enumerate(OPTS) if mask >> i & 1) or "none"


def _build(cfg):
    import warnings

    key = repr(cfg)
    if key in _cache:
        return _cache[key]
    from sqlalchemy import Column, ForeignKey, Integer, create_engine
    from sqlalchemy.orm import configure_mappers, declarative_base, relationship
    from sqlalchemy.pool import StaticPool

    ncls, rels, legacy = cfg
    Base = declarative_base()
    classes = []
    with warnings.catch_warnings():
        warnings.simplefilter("ignore")
        for k in range(ncls):
            ns = {"__tablename__": "t%d" % k, "id": Column(Integer, primary_key=True)}
            if legacy[k]:
                ns["__mapper_args__"] = {"legacy_is_orphan": True}
            for ri, (rp, rc, fm, hb, bm) in enumerate(rels):
                if rc == k:
                    ns["fk%d" % ri] = Column(ForeignKey("t%d.id" % rp))
            for ri, (rp, rc, fm, hb, bm) in enumerate(rels):
                if rp == k:
                    ns["r%d" % ri] = relationship(
                        "K%d" % rc,
                        foreign_keys="K%d.fk%d" % (rc, ri),
                        cascade=_casc_str(fm),
                        back_populates=("b%d" % ri) if hb else None,
                        order_by="K%d.id" % rc,
                    )
                if rc == k and hb:
                    ns["b%d" % ri] = relationship(
                        "K%d" % rp, foreign_keys="K%d.fk%d" % (rc, ri), cascade=_casc_str(bm), back_populates="r%d" % ri
                    )
            classes.append(type("K%d" % k, (Base,), ns))
        configure_mappers()
    eng = create_engine("sqlite://", connect_args={"autocommit": False}, poolclass=StaticPool)
    Base.metadata.create_all(eng)
    if len(_cache) > 300:
        k0 = next(iter(_cache))
        _cache.pop(k0)[0].dispose()
    _cache[key] = (eng, classes)
    return _cache[key]


def _status(o):
    from sqlalchemy import inspect

    i = inspect(o)
    return 0 if i.transient else 1 if i.pending else 2 if i.persistent else 3 if i.deleted else 4


def impl(c):
    import warnings
    from sqlalchemy import inspect, text
    from sqlalchemy.orm import Session

    if _is_m2o(c):
        return _impl_m2o(c)
    cfg, objcls, ops = _unpack_case(c["in"])
    eng, classes = _build(cfg)
    ncls, rels, legacy = cfg
    n = len(objcls)
    out = []
    trace = []
    with warnings.catch_warnings():
        warnings.simplefilter("ignore")
        s = Session(eng, autoflush=False, expire_on_commit=False)
        try:
            objs = []
            for i, k in enumerate(objcls):
                o = classes[k](id=i + 1)
                for ri, (rp, rc, fm, hb, bm) in enumerate(rels):
                    if rp == k:
                        setattr(o, "r%d" % ri, [])
                    if rc == k and hb:
                        setattr(o, "b%d" % ri, None)
                objs.append(o)
            index = {id(o): i for i, o in enumerate(objs)}

            def rows():
                res = {}
                for k in range(ncls):
                    fks = [ri for ri, r in enumerate(rels) if r[1] == k]
                    cols = ", ".join(["id"] + ["fk%d" % ri for ri in fks])
                    for row in s.connection().execute(text("select %s from t%d order by id" % (cols, k))):
                        res[row[0] - 1] = [None if v is None else v - 1 for v in row[1:]]
                return res

            def snap():
                coll, par = {}, {}
                for i, o in enumerate(objs):
                    d = inspect(o).dict
                    for ri, (rp, rc, fm, hb, bm) in enumerate(rels):
                        if rp == objcls[i] and "r%d" % ri in d:
                            coll[(i, ri)] = [index[id(x)] for x in d["r%d" % ri]]
                        if rc == objcls[i] and hb and "b%d" % ri in d:
                            v = d["b%d" % ri]
                            par[(i, ri)] = None if v is None else index[id(v)]
                return {
                    "st": [_status(o) for o in objs],
                    "mk": {i for i, o in enumerate(objs) if o in s.deleted},
                    "coll": coll,
                    "par": par,
                }

            dead = False
            trace.append(("init", snap(), None, 0, 0))
            for op in ops:
                code = op[0]
                err = 0
                extra = 0
                rws = None
                if dead:
                    out += [-9, 0]
                    continue
                try:
                    if code == 0:
                        s.add(objs[op[1]])
                    elif code == 1:
                        s.delete(objs[op[1]])
                    elif code == 2:
                        s.expunge(objs[op[1]])
                    elif code == 3:
                        p, ri, ch = op[1:]
                        coll = getattr(objs[p], "r%d" % ri)
                        if objs[ch] not in coll:
                            coll.append(objs[ch])
                    elif code == 4:
                        p, ri, ch = op[1:]
                        coll = getattr(objs[p], "r%d" % ri)
                        if objs[ch] in coll:
                            coll.remove(objs[ch])
                    elif code == 5:
                        ch, ri, p = op[1:]
                        setattr(objs[ch], "b%d" % ri, None if p == [] or p is None else objs[p])
                    elif code == 6:
                        p, ri, cs = op[1:]
                        setattr(objs[p], "r%d" % ri, [objs[x] for x in cs])
                    elif code == 7:
                        s.flush()
                        rws = rows()
                        B = n + 1
                        extra = _pack(
                            128, [(1 + _pack(B, [0 if v is None else v + 1 for v in rws[i]])) if i in rws else 0 for i in range(n)]
                        )
                    elif code == 9:
                        s.expire(objs[op[1]])
                        extra = _pack(2, [int(inspect(o).expired) for o in objs])
                        dead = True
                    else:
                        raise ValueError("bad op")
                except Exception as ex:
                    err = _EXC.get(type(ex).__name__)
                    if err is None:
                        raise
                    if code in (7, 9):
                        dead = True
                        out += [err, 0]
                        trace.append((op, None, None, err, 0))
                        continue
                sn = snap()
                trace.append((op, sn, rws, err, extra))
                out += [err + 4 * (_pack(2, [int(i in sn["mk"]) for i in range(n)]) + 256 * _pack(8, sn["st"])), extra]
            fin = []
            for i, o in enumerate(objs):
                st_ = inspect(o)
                d = st_.dict
                for ri, (rp, rc, fm, hb, bm) in enumerate(rels):
                    if rp == objcls[i]:
                        v = d.get("r%d" % ri)
                        fin.append(-1 if v is None else _pack(n + 1, [index[id(x)] + 1 for x in v]))
                    if rc == objcls[i] and hb:
                        if "b%d" % ri not in d:
                            fin.append(-1)
                        else:
                            v = d["b%d" % ri]
                            fin.append(0 if v is None else index[id(v)] + 1)
            out += fin
        finally:
            try:
                s.rollback()
            except Exception:
                pass
            s.close()
            with eng.begin() as conn:
                for k in range(ncls):
                    conn.execute(text("delete from t%d" % k))
    _trace.clear()
    _trace["case"] = list(c["in"])
    _trace["steps"] = trace
    return out


# ---------------------------------------------------------------------------------------------
# the property itself, judged on what the implementation did (independent of the Coq model)
# ---------------------------------------------------------------------------------------------
def _edges(rels, snap, typ):
    e = {}
    for (p, ri), cs in snap["coll"].items():
        if rels[ri][2] & typ:
            e.setdefault(p, []).extend(cs)
    for (ch, ri), p in snap["par"].items():
        if p is not None and rels[ri][4] & typ:
            e.setdefault(ch, []).append(p)
    return e


def _reach(rels, snap, typ, o, stop=()):
    e = _edges(rels, snap, typ)
    seen = set()
    todo = [o]
    while todo:
        x = todo.pop()
        for y in e.get(x, ()):
            if y not in seen and y not in stop:
                seen.add(y)
                todo.append(y)
    return seen


_IN = (1, 2)  # pending, persistent


def oracle(c, obs):
    if _is_m2o(c):
        return _oracle_m2o(c, obs)
    if _trace.get("case") != list(c["in"]):
        return None
    cfg, objcls, ops = _unpack_case(c["in"])
    ncls, rels, legacy = cfg
    steps = _trace["steps"]
    n = len(objcls)
    # membership of every (child, rel) in some parent's collection at the last flush (for the orphan rule)
    at_flush = {}
    ever_deleted = set()
    for k in range(1, len(steps)):
        op, after, rws, err, extra = steps[k]
        before = steps[k - 1][1]
        if after is None or before is None:
            break
        ever_deleted |= {i for i in range(n) if before["st"][i] == 3 or after["st"][i] == 3}
        code = op[0]
        ins_b = {i for i in range(n) if before["st"][i] in _IN}
        ins_a = {i for i in range(n) if after["st"][i] in _IN}
        if code == 0 and err == 0:
            o = op[1]
            want = {o} | _reach(rels, before, SU, o, stop=ins_b)
            miss = sorted(x for x in want - ins_a if x not in ever_deleted)
            if miss:
                return "add(%d): objects %s are reachable through save-update cascades but not in the session" % (o, miss)
        elif code == 1 and err == 0 and op[1] not in before["mk"]:
            o = op[1]
            want = {o} | {x for x in _reach(rels, before, DL, o) if before["st"][x] in (2, 4)}
            got = after["mk"] - before["mk"]
            if got != want - before["mk"]:
                return "delete(%d): marked %s, delete-cascade closure is %s" % (o, sorted(got), sorted(want - before["mk"]))
        elif code == 2 and err == 0:
            o = op[1]
            att_b = {i for i in range(n) if before["st"][i] in (1, 2, 3)}
            att_a = {i for i in range(n) if after["st"][i] in (1, 2, 3)}
            want = ({o} | _reach(rels, before, EX, o)) & att_b
            if att_b - att_a != want:
                return "expunge(%d): left the session %s, expunge-cascade closure is %s" % (o, sorted(att_b - att_a), sorted(want))
        elif code == 9 and err == 0:
            o = op[1]
            exp = {i for i in range(n) if extra >> i & 1}
            full = {o} | _reach(rels, before, RE, o)
            # pending objects are reached only through delete-orphan relationships: lower bound = persistent paths
            pers = {i for i in range(n) if before["st"][i] in (2, 3)}
            low = {o} | _reach(rels, before, RE, o, stop=set(range(n)) - pers)
            if not (low <= exp <= {x for x in full if before["st"][x] != 1}):
                return "expire(%d): expired %s, refresh-expire closure is between %s and %s" % (o, sorted(exp), sorted(low), sorted(full))
        if code in (3, 6) and err == 0:
            p, ri = op[1], op[2]
            if after["st"][p] in _IN and rels[ri][2] & SU:
                for ch in after["coll"].get((p, ri), ()):
                    if ch not in before["coll"].get((p, ri), ()) and after["st"][ch] not in _IN and ch not in ever_deleted:
                        moved = any(ch in cs for (q, rj), cs in before["coll"].items() if rj == ri and q != p)
                        tag = "F1" if (before["st"][ch] in (0, 1) and rels[ri][2] & DO and rels[ri][3] and moved) else "X"
                        return "%s: object %d appended to the save-update collection r%d of in-session parent %d is not in the session" % (tag, ch, ri, p)
        if code == 5 and err == 0 and op[3] != [] and op[3] is not None:
            ch, ri, p = op[1], op[2], op[3]
            if before["st"][ch] == 1 and after["st"][ch] == 0 and after["st"][p] in _IN and ch in after["coll"].get((p, ri), ()):
                moved = any(ch in cs for (q, rj), cs in before["coll"].items() if rj == ri and q != p)
                tag = "F1" if (rels[ri][2] & DO and moved) else "X"
                return "%s: pending object %d left the session when its parent was set to in-session %d (r%d)" % (tag, ch, p, ri)
        if code == 7 and err == 0:
            # orphan rule
            for ri, (rp, rc, fm, hb, bm) in enumerate(rels):
                if not fm & DO:
                    continue
                for ch in range(n):
                    if objcls[ch] != rc or before["st"][ch] != 2:
                        continue
                    was, was_flushed = at_flush.get((ch, ri), (None, False))
                    now = [q for (q, rj), cs in before["coll"].items() if rj == ri and ch in cs]
                    if was is None or now:
                        continue
                    if before["st"][was] not in _IN:
                        continue  # the parent it was removed from takes no part in the flush
                    other = [
                        rj for rj, r in enumerate(rels)
                        if r[1] == rc and r[2] & DO and rj != ri and any(ch in cs for (q, rk), cs in before["coll"].items() if rk == rj)
                    ]
                    if legacy[rc] and other:
                        continue
                    if any(ch in cs for (q, rj), cs in before["coll"].items() if before["st"][q] in _IN):
                        continue  # still a member of another in-session collection: the unit of work may keep it
                    if after["st"][ch] != 3 or ch in rws:
                        # F5: the membership was never flushed (the parent was outside the session at the last
                        # flush) and there is no backref that would make the child dirty
                        tag = "F5: " if (not was_flushed and not hb) else ""
                        return "%sobject %d was removed from delete-orphan collection r%d of %d and not re-associated, but is not deleted by the flush" % (tag, ch, ri, was)
            # nothing marked for deletion survives unless it was re-added to a collection
            for x in before["mk"]:
                if before["st"][x] == 2 and not any(x in cs for (q, rj), cs in before["coll"].items()):
                    if after["st"][x] != 3 or x in rws:
                        return "object %d was marked deleted but survives the flush" % x
            # no dangling rows
            for ch, fks in rws.items():
                crels = [ri for ri, r in enumerate(rels) if r[1] == objcls[ch]]
                for ri, v in zip(crels, fks):
                    # (a row whose object was expunged before the flush is outside the session's reach)
                    if v is not None and v not in rws and rels[ri][2] & DO and (before["st"][ch] in _IN or after["st"][ch] in _IN):
                        tag = "X"
                        if v in before["mk"] and ch not in before["mk"] and ch in before["coll"].get((v, ri), ()):
                            tag = "F2"
                        elif ch in before["mk"] and any(
                            ch in cs and before["st"][q] in _IN and q not in before["mk"] for (q, rj), cs in before["coll"].items()
                        ):
                            tag = "F3"
                        elif v in before["mk"] and any(
                            ch in cs and before["st"][q] not in _IN for (q, rj), cs in before["coll"].items()
                        ):
                            tag = "F4"
                        elif (
                            v not in before["mk"] and before["st"][v] == 2 and after["st"][v] == 3
                            and ch in before["coll"].get((v, ri), ())
                        ):
                            # the parent was not marked by Session.delete: the flush itself deleted it as a
                            # persistent orphan (top-level _is_orphan scan), which does not run its delete cascade
                            tag = "F6"
                        return "%s: row %d references parent %d through delete-orphan relationship r%d but the parent row is gone" % (tag, ch, v, ri)
            at_flush = {}
            for (q, ri), cs in after["coll"].items():
                for ch in cs:
                    at_flush[(ch, ri)] = (q, after["st"][q] in _IN)
    return None


def match_finding(c, what):
    if what.startswith("F1:"):
        return "C39-pending-child-moved-expunged"
    if what.startswith("F2:"):
        return "C39-append-to-deleted-parent-dangling-row"
    if what.startswith("F3:"):
        return "C39-delete-cancelled-by-pending-parent"
    if what.startswith("F4:"):
        return "C39-reparented-outside-session-dangling-row"
    if what.startswith("F6:"):
        return "C39-toplevel-orphan-delete-skips-cascade"
    if what.startswith("F5:"):
        return "C39-unflushed-membership-orphan-survives"
    return None


# ---------------------------------------------------------------------------------------------
# oracle-only family "m2o": a scalar (many-to-one, single_parent) delete-orphan relationship whose target has
# its own collection, i.e. graphs two levels deep  Order.addr -> Address.lines -> Line.  The Gallina model does
# not describe this side (many-to-one delete-orphan); these cases are judged by the property statement alone.
#   in = [-1, addr cascade mask, lines cascade mask, lines backref 0/1, [op...]]   ("model": False)
#   objects: 0,1 = Order, 2,3 = Address, 4,5,6 = Line
#   op = [0,x] add | [1,x] delete | [2,x] expunge | [3,o,a|9] o.addr = a / None | [4,a,l] a.lines.append(l)
#      | [5,a,l] a.lines.remove(l) | [7] flush
# ---------------------------------------------------------------------------------------------
_m2o_cache = {}
_M2O_CLS = [0, 0, 1, 1, 2, 2, 2]


def _m2o_build(cm, lm, hb):
    import warnings

    key = (cm, lm, hb)
    if key in _m2o_cache:
        return _m2o_cache[key]
    from sqlalchemy import Column, ForeignKey, Integer, create_engine
    from sqlalchemy.orm import configure_mappers, declarative_base, relationship
    from sqlalchemy.pool import StaticPool

    Base = declarative_base()
    with warnings.catch_warnings():
        warnings.simplefilter("ignore")
        O = type(
            "O",
            (Base,),
            {
                "__tablename__": "o",
                "id": Column(Integer, primary_key=True),
                "aid": Column(ForeignKey("a.id")),
                "addr": relationship("A", cascade=_casc_str(cm), single_parent=True),
            },
        )
        A = type(
            "A",
            (Base,),
            {
                "__tablename__": "a",
                "id": Column(Integer, primary_key=True),
                "lines": relationship("L", cascade=_casc_str(lm), back_populates="addr" if hb else None, order_by="L.id"),
            },
        )
        nsL = {"__tablename__": "l", "id": Column(Integer, primary_key=True), "aid": Column(ForeignKey("a.id"))}
        if hb:
            nsL["addr"] = relationship("A", back_populates="lines")
        L = type("L", (Base,), nsL)
        configure_mappers()
    eng = create_engine("sqlite://", connect_args={"autocommit": False}, poolclass=StaticPool)
    Base.metadata.create_all(eng)
    _m2o_cache[key] = (eng, [O, A, L])
    return _m2o_cache[key]


def _m2o_cases(rng, tier):
    cases = []
    scripts = [
        # the old pending value (with lines) is replaced / cleared before any flush
        [[4, 2, 4], [4, 2, 5], [0, 0], [3, 0, 2], [3, 0, 3], [7]],
        [[4, 2, 4], [4, 2, 5], [0, 0], [7], [3, 0, 2], [3, 0, 9], [7]],
        [[4, 2, 4], [4, 3, 5], [0, 0], [3, 0, 2], [7], [3, 0, 3], [7]],
        [[4, 2, 4], [0, 0], [3, 0, 2], [4, 2, 5], [3, 0, 9], [4, 3, 6], [3, 0, 3], [7]],
        [[4, 2, 4], [0, 0], [3, 0, 2], [7], [1, 0], [7]],
        [[4, 2, 4], [4, 2, 5], [0, 0], [3, 0, 2], [2, 2], [7]],
    ]
    cms = [63, SU | DL | DO, SU | EX | DL | DO, 47, SU]
    lms = [63, 47, SU | EX, SU, SU | DL | DO]
    for cm in cms:
        for lm in lms:
            for hb in (0, 1):
                for sc in scripts:
                    cases.append({"in": [-1, cm, lm, hb, [list(o) for o in sc]], "kind": "m2o", "model": False})
    for _ in range(2000 if tier == "thorough" else 250):
        ops = []
        for _k in range(rng.randint(3, 10)):
            code = rng.choice([0, 0, 1, 2, 3, 3, 3, 4, 4, 5, 7])
            if code in (0, 1, 2):
                ops.append([code, rng.randrange(7)])
            elif code == 3:
                ops.append([3, rng.choice([0, 1]), rng.choice([2, 3, 9])])
            elif code in (4, 5):
                ops.append([code, rng.choice([2, 3]), rng.choice([4, 5, 6])])
            else:
                ops.append([7])
        cases.append({"in": [-1, rng.choice(cms), rng.choice(lms), rng.randrange(2), ops], "kind": "m2o", "model": False})
    return cases


def _impl_m2o(c):
    import warnings
    from sqlalchemy import exc as sa_exc
    from sqlalchemy import inspect, text
    from sqlalchemy.orm import Session

    _, cm, lm, hb, ops = c["in"]
    eng, classes = _m2o_build(cm, lm, hb)
    out = []
    trace = []
    with warnings.catch_warnings():
        warnings.simplefilter("ignore")
        s = Session(eng, autoflush=False, expire_on_commit=False)
        try:
            objs = [classes[k](id=i + 1) for i, k in enumerate(_M2O_CLS)]
            for o in objs[2:4]:
                o.lines = []
            for o in objs[:2]:
                o.addr = None
            index = {id(o): i for i, o in enumerate(objs)}

            def snap():
                edges = {}
                for i, o in enumerate(objs):
                    d = inspect(o).dict
                    if i < 2 and d.get("addr") is not None:
                        edges[(i, "addr")] = [index[id(d["addr"])]]
                    if 2 <= i < 4 and "lines" in d:
                        edges[(i, "lines")] = [index[id(x)] for x in d["lines"]]
                    if i >= 4 and hb and d.get("addr") is not None:
                        edges[(i, "back")] = [index[id(d["addr"])]]
                return {"st": [_status(o) for o in objs], "edges": edges}

            dead = False
            trace.append((None, snap(), 0))
            for op in ops:
                if dead:
                    out.append(-9)
                    continue
                code, err = op[0], 0
                try:
                    if code == 0:
                        s.add(objs[op[1]])
                    elif code == 1:
                        s.delete(objs[op[1]])
                    elif code == 2:
                        s.expunge(objs[op[1]])
                    elif code == 3:
                        objs[op[1]].addr = None if op[2] == 9 else objs[op[2]]
                    elif code == 4:
                        if objs[op[2]] not in objs[op[1]].lines:
                            objs[op[1]].lines.append(objs[op[2]])
                    elif code == 5:
                        if objs[op[2]] in objs[op[1]].lines:
                            objs[op[1]].lines.remove(objs[op[2]])
                    else:
                        s.flush()
                except (sa_exc.InvalidRequestError, sa_exc.IntegrityError, sa_exc.SAWarning) as ex:
                    err = 1
                    if code == 7:
                        dead = True
                        out.append(-1)
                        trace.append((op, None, 1))
                        continue
                except Exception as ex:
                    if type(ex).__name__ not in ("FlushError", "ObjectDeletedError", "StaleDataError"):
                        raise
                    dead = True
                    out.append(-2)
                    trace.append((op, None, 2))
                    continue
                sn = snap()
                trace.append((op, sn, err))
                out.append(err + 4 * _pack(8, sn["st"]))
        finally:
            try:
                s.rollback()
            except Exception:
                pass
            s.close()
            with eng.begin() as conn:
                for t in ("l", "o", "a"):
                    conn.execute(text("delete from %s" % t))
    _trace.clear()
    _trace["case"] = list(c["in"])
    _trace["steps"] = trace
    return out


def _oracle_m2o(c, obs):
    """expunge cascades reach exactly the configured objects - also when the session expunges a pending orphan by
    itself (attribute events): whatever leaves the session takes its expunge-cascade closure with it"""
    if _trace.get("case") != list(c["in"]):
        return None
    _, cm, lm, hb, ops = c["in"]
    steps = _trace["steps"]
    mask = {"addr": cm, "lines": lm, "back": SU | MG}
    for k in range(1, len(steps)):
        op, after, err = steps[k]
        before = steps[k - 1][1]
        if after is None or before is None:
            break
        if op[0] == 7 or err:
            continue  # the flush drops orphans that were orphaned outside of the session without cascading
        left = [i for i in range(7) if before["st"][i] == 1 and after["st"][i] == 0]
        for x in left:
            seen, todo = set(), [x]
            while todo:
                n_ = todo.pop()
                for (src, key), tgts in before["edges"].items():
                    if src == n_ and mask[key] & EX:
                        for y in tgts:
                            if y not in seen:
                                seen.add(y)
                                todo.append(y)
            stay = sorted(y for y in seen if after["st"][y] in _IN)
            if stay:
                return "object %d left the session (pending orphan / expunge) but %s, reachable from it through expunge cascades, stayed" % (x, stay)
    return None


LEVEL_TEXT = (
    "Machine-checked proof (Coq) over the Gallina transcription of the cascade machinery: CascadeOptions parsing "
    "(all / none / plain names / warning / every combination expressible; tables regenerated from the source); "
    "cascade_iterator = reachability along relationships carrying the cascade, each object once, for every "
    "object graph (cycles included) and halt predicate; exact closures of Session.add / delete / expunge / "
    "expire for every state; the save-update-on-append guarantee with its defect region refuted by witness; "
    "flush: outcome in terms of the unit-of-work registrations, orphan rule, marked objects are deleted, nothing "
    "is deleted without justification (marked, orphan, delete-reachable from an orphan, many-to-one delete "
    "cascade) - for EVERY order of the dependency processors; rows <-> object states and session.deleted "
    "<= persistent as invariants over all operation histories (induction over the history)."
)
LEVEL_NOTE = (
    "partial: the model covers one-to-many relationships with optional many-to-one backref only; the scalar "
    "(many-to-one, single_parent) delete-orphan side and two-level graphs through it are exercised by an "
    "oracle-only case family without model or theorem (no many-to-many, "
    "passive_deletes, post_update, self-referential or cyclic class graphs); merge cascade is covered by C45; "
    "refresh is represented by expire (same cascade iterator); expire is the last operation of a compared "
    "history; no rollback/commit; flush outcomes that depend on set iteration order and operations on objects "
    "already deleted in the transaction are outside the compared region (the model flags them as unmodelled); "
    "the foreign-key synchronisation is compared but only its frame is proved (no general no-dangling-row "
    "invariant: it is refuted, and the guarded forms are the orphan rule and the marked-deleted theorem). "
    "Four known findings (dangling delete-orphan rows / expunged pending child). Trusted: "
    "Coq kernel, the hand transcription (source pin + correspondence after every operation), SQLite."
)
TECHNIQUE = (
    "Coq proof (DFS/reachability with shared visited set, invariants of the presort loop for arbitrary processor "
    "order, induction over operation histories) + T1 table regeneration + source pin + behavioural correspondence "
    "on SQLite with a state-aware history generator"
)
