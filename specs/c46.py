"""C46 - expired and refreshed attributes reflect the database."""
import itertools

ID = "C46"
LEVEL = "proof"
PROPS = "props/C46.v"
RUNNER = ("SAV.orm.ExpireRun", "run_case")
STATIC_MODULES = ["SAV.orm.ExpireRun"]
RULE = (
    "one real Session (autoflush off, expire_on_commit per case) holding two instances with three data attributes on a "
    "SQLite FILE database in WAL mode; a second connection performs the external UPDATEs (committed at once) between "
    "the session's operations. Operations: attribute read, attribute set, expire(obj[, names]), expire_all, "
    "refresh(obj[, names]) (names incl. the primary key attribute; empty list and None), commit, rollback, a "
    "populate_existing query (full rows, or a from_statement() whose rows carry only some columns), expunge and add "
    "(re-attach without SQL), external update. Families: expunge ; ... ; add ; commit/rollback/expire_all histories whose "
    "last transaction emits no SQL; small-scope exhaustive 'pending? ; expiring operation ; "
    "external write? ; set another attribute? ; read' sequences for every expiring operation, and random histories of "
    "2-12 operations. Observation per operation = value read / 'database is locked', number of SELECTs, for every "
    "instance the dict value / pending flag (committed_state) / expired flag of every attribute and state.modified, and "
    "the committed rows seen by the external connection; it must equal the Coq model's. non-trivial = the history has an "
    "external update and a later read, or a pending change followed by an expiring operation"
)
TRUSTED = [
    "hand-written Gallina transcription of InstanceState._expire/_expire_attributes/_load_expired/_commit/"
    "_commit_all_states, loading._load_scalar_attributes, Session.expire/expire_all/refresh/commit/rollback (pinned "
    "normalised source + behavioural correspondence on the full attribute state)",
    "reference database = SQLite WAL semantics (the session's transaction reads the snapshot of its first statement; an "
    "UPDATE from an outdated snapshot fails), validated against the live engine by the correspondence on every run",
]
ASSUMPTIONS = [
    "rows are neither inserted nor deleted (ObjectDeletedError paths are outside)",
    "the harness keeps strong references to the instances; column attributes only (no relationships, no deferred columns)",
    "with more than two instances the number of SELECTs of a FAILING commit depends on the UPDATE grouping (itertools.groupby "
    "look-ahead); the correspondence uses two instances",
]
LEVEL_TEXT = (
    "Coq proof over the attribute-state model, for every history of session operations and external updates: an attribute "
    "that was expired/refreshed (expire, expire_all, refresh, commit with expire_on_commit, rollback, populate_existing) and "
    "not set since reads as the value the session's transaction sees - the committed value when no transaction snapshot is "
    "open; a pending change that was not expired survives every other operation and is what a read returns; refresh "
    "overwrites exactly the named attributes of exactly the named instance with the transaction's values, with one SELECT. "
    "Tie: pinned source + model/implementation correspondence on the complete attribute state."
)
LEVEL_NOTE = (
    "partial: autoflush is off (refresh/populate_existing with autoflush are C47's subject); merge(load=False), joined-table "
    "inheritance (rows lacking columns are produced with a partial-column from_statement instead), relationships, deferred "
    "columns, refresh with_for_update, deleted rows, several sessions are not modelled; database isolation is SQLite WAL."
)
TECHNIQUE = "Coq proof (pointwise invariants over histories) + small-scope exhaustive and random history correspondence with an external writer connection"
ANCHORS = [
    ("lib/sqlalchemy/orm/state.py", "InstanceState._expire"),
    ("lib/sqlalchemy/orm/state.py", "InstanceState._expire_attributes"),
    ("lib/sqlalchemy/orm/state.py", "InstanceState._load_expired"),
    ("lib/sqlalchemy/orm/state.py", "InstanceState.unmodified"),
    ("lib/sqlalchemy/orm/state.py", "InstanceState._commit"),
    ("lib/sqlalchemy/orm/state.py", "InstanceState._commit_all_states"),
    ("lib/sqlalchemy/orm/loading.py", "_load_scalar_attributes"),
    ("lib/sqlalchemy/orm/loading.py", "_populate_full"),
    ("lib/sqlalchemy/orm/session.py", "Session.refresh"),
    ("lib/sqlalchemy/orm/session.py", "Session.expire"),
    ("lib/sqlalchemy/orm/session.py", "Session.expire_all"),
    ("lib/sqlalchemy/orm/session.py", "Session._expire_state"),
    ("lib/sqlalchemy/orm/session.py", "Session._conditional_expire"),
    ("lib/sqlalchemy/orm/session.py", "Session._register_persistent"),
    ("lib/sqlalchemy/orm/session.py", "SessionTransaction._remove_snapshot"),
    ("lib/sqlalchemy/orm/session.py", "SessionTransaction._restore_snapshot"),
]

READ, SET, EXPIRE, EXPIRE_ALL, REFRESH, COMMIT, ROLLBACK, POPEX, EXT, POPEX_COLS, EXPUNGE, ADD = range(12)
ATTRS = ["id", "x", "y", "z"]  # attribute index 0 is the primary key attribute
NOBJ = 2


def translate(repo, outdir):
    from translate import fingerprint

    fingerprint.check(repo, ANCHORS, "C46")
    return []


# ---------------- case generation ----------------
def _rows0():
    return [[k, 1, 2, 3] for k in range(1, NOBJ + 1)]


def gen_cases(rng, tier):
    cases = []
    vals = itertools.count(10)
    expiring = [
        [EXPIRE, 1, [], 0], [EXPIRE, 1, [], 1], [EXPIRE, 1, [1], 0], [EXPIRE, 1, [2], 0], [EXPIRE, 1, [1, 2], 0],
        [EXPIRE, 1, [0], 0], [EXPIRE_ALL, 0, [], 0], [REFRESH, 1, [], 0], [REFRESH, 1, [], 1], [REFRESH, 1, [1], 0],
        [REFRESH, 1, [2], 0], [REFRESH, 1, [2, 3], 0], [COMMIT, 0, [], 0], [POPEX, 0, [], 0], [ROLLBACK, 0, [], 0],
        [EXPIRE, 2, [], 0], [REFRESH, 2, [1], 0], [POPEX_COLS, 0, [1], 0], [POPEX_COLS, 0, [2, 3], 0], [POPEX_COLS, 0, [], 0],
    ]
    for eoc in (0, 1):
        for pre in ([], [[SET, 1, [1], 0]], [[SET, 1, [2], 0]], [[COMMIT, 0, [], 0], [SET, 1, [1], 0]]):
            for e in expiring:
                for ext in ([], [[EXT, 1, [1], 0]], [[EXT, 1, [2], 0]]):
                    for post in ([], [[SET, 1, [2], 0]], [[COMMIT, 0, [], 0]]):
                        ops = [list(o) for o in pre] + [ext and list(ext[0])] + [list(e)] + [list(o) for o in ext] + [list(o) for o in post]
                        ops = [o for o in ops if o]
                        for o in ops:
                            if o[0] in (SET, EXT):
                                o[3] = next(vals)
                        ops += [[READ, 1, [1], 0], [READ, 1, [2], 0], [READ, 2, [1], 0]]
                        cases.append({"in": [eoc, _rows0(), ops], "kind": "small-scope"})
    # instances that leave and re-enter the session without SQL (expunge / add), commit in a transaction without SQL
    for eoc in (0, 1):
        for pre in ([], [[COMMIT, 0, [], 0]], [[SET, 1, [2], 0]]):
            for mid in ([], [[COMMIT, 0, [], 0]], [[ROLLBACK, 0, [], 0]], [[EXPIRE_ALL, 0, [], 0]], [[POPEX, 0, [], 0]], [[SET, 1, [1], 0]]):
                for ext1 in ([], [[EXT, 1, [1], 0]]):
                    for fin in ([COMMIT, 0, [], 0], [ROLLBACK, 0, [], 0], [EXPIRE_ALL, 0, [], 0], [READ, 1, [3], 0]):
                        for ext2 in ([], [[EXT, 1, [1], 0]]):
                            ops = [list(o) for o in pre] + [[EXPUNGE, 1, [], 0]] + [list(o) for o in mid] + [list(o) for o in ext1]
                            ops += [[ADD, 1, [], 0], list(fin)] + [list(o) for o in ext2]
                            for o in ops:
                                if o[0] in (SET, EXT):
                                    o[3] = next(vals)
                            ops += [[READ, 1, [1], 0], [READ, 1, [2], 0], [READ, 2, [1], 0]]
                            cases.append({"in": [eoc, _rows0(), ops], "kind": "reattach"})
    if tier != "thorough":
        # always keep the re-attach histories that end in a commit without SQL under expire_on_commit
        core = [c for c in cases if c["kind"] == "reattach" and c["in"][0] == 1 and [COMMIT, 0, [], 0] in c["in"][2][-5:]]
        core = core[::4]
        rest = [c for c in cases if c not in core]
        cases = core + rng.sample(rest, 600 - len(core))
    for _ in range(20000 if tier == "thorough" else 500):
        ops = []
        for _ in range(rng.randint(2, 12)):
            op = rng.choice([READ, READ, READ, SET, SET, EXPIRE, EXPIRE, EXPIRE_ALL, REFRESH, REFRESH, COMMIT, ROLLBACK, POPEX, EXT, EXT,
                             POPEX_COLS, EXPUNGE, ADD, ADD])
            o = rng.randint(1, NOBJ)
            val = 0
            if op in (READ, SET, EXT):
                names = [rng.randint(1, 3)]
                val = rng.randint(10, 99) if op != READ else 0
            elif op in (EXPIRE, REFRESH):
                names = rng.choice([[], [], [1], [2], [1, 2], [2, 3], [1, 2, 3], [3], [0], [0, 1]])
                val = rng.randint(0, 1)  # empty name list: None or []
            elif op == POPEX_COLS:
                names = rng.choice([[], [1], [2], [1, 3], [2, 3], [1, 2, 3]])
            else:
                names = []
            ops.append([op, o, names, val])
        cases.append({"in": [rng.randint(0, 1), _rows0(), ops], "kind": "random"})
    return cases


def nontrivial(c):
    ops = c["in"][2]
    seen_ext = False
    pend = False
    for op, o, names, val in ops:
        if op == EXT:
            seen_ext = True
        if op == READ and seen_ext:
            return True
        if op == SET:
            pend = True
        if pend and op in (EXPIRE, EXPIRE_ALL, REFRESH, COMMIT, ROLLBACK, POPEX, POPEX_COLS):
            return True
    return False


# ---------------- implementation side ----------------
_st = {}


def impl_setup():
    import atexit
    import os
    import shutil
    import sqlite3
    import tempfile

    from sqlalchemy import Column, Integer, create_engine, event
    from sqlalchemy.orm import declarative_base

    d = tempfile.mkdtemp(prefix="c46_")
    atexit.register(shutil.rmtree, d, True)
    path = os.path.join(d, "e.db")
    ext = sqlite3.connect(path, isolation_level=None)
    ext.execute("pragma journal_mode=WAL")
    ext.execute("create table a (id integer primary key, x integer, y integer, z integer)")
    B = declarative_base()

    class A(B):
        __tablename__ = "a"
        id = Column(Integer, primary_key=True)
        x = Column(Integer)
        y = Column(Integer)
        z = Column(Integer)

    e = create_engine("sqlite:///" + path, connect_args={"autocommit": False, "timeout": 0})
    log = []

    @event.listens_for(e, "before_cursor_execute")
    def b(conn, cur, st, params, ctx, many):
        if st.split()[0].upper() == "SELECT":
            log.append(1)

    _st.update(ext=ext, A=A, eng=e, log=log)


def impl(c):
    import warnings

    from sqlalchemy import inspect, select, text
    from sqlalchemy.exc import InvalidRequestError, OperationalError
    from sqlalchemy.orm import Session
    from sqlalchemy.orm.exc import DetachedInstanceError

    if not _st:
        impl_setup()
    eoc, rows0, ops = c["in"]
    ext = _st["ext"]
    A = _st["A"]
    log = _st["log"]
    ext.execute("delete from a")
    for r in rows0:
        ext.execute("insert into a values (?,?,?,?)", r)
    s = Session(_st["eng"], expire_on_commit=bool(eoc), autoflush=False)
    out = []
    try:
        with warnings.catch_warnings():
            warnings.simplefilter("ignore")
            objs = {r[0]: s.get(A, r[0]) for r in rows0}  # strong references; opens the first transaction
            for op, o, names, val in ops:
                del log[:]
                res = [0]
                try:
                    if op == READ:
                        res = [1, getattr(objs[o], ATTRS[names[0]])]
                    elif op == SET:
                        setattr(objs[o], ATTRS[names[0]], val)
                    elif op == EXPIRE:
                        s.expire(objs[o], [ATTRS[n] for n in names] if names or val else None)
                    elif op == EXPIRE_ALL:
                        s.expire_all()
                    elif op == REFRESH:
                        s.refresh(objs[o], [ATTRS[n] for n in names] if names or val else None)
                    elif op == COMMIT:
                        try:
                            s.commit()
                        except OperationalError as err:
                            if "locked" not in str(err):
                                raise
                            s.rollback()
                            res = [2]
                    elif op == ROLLBACK:
                        s.rollback()
                    elif op == POPEX:
                        s.scalars(select(A).execution_options(populate_existing=True)).all()
                    elif op == POPEX_COLS:
                        cols = ", ".join(["id"] + [ATTRS[n] for n in names])
                        s.scalars(
                            select(A).from_statement(text("select %s from a" % cols)).execution_options(populate_existing=True)
                        ).all()
                    elif op == EXT:
                        ext.execute("update a set %s=? where id=?" % ATTRS[names[0]], (val, o))
                    elif op == EXPUNGE:
                        s.expunge(objs[o])
                    elif op == ADD:
                        s.add(objs[o])
                except (InvalidRequestError, DetachedInstanceError):
                    res = [3]
                view = []
                for k in sorted(objs):
                    st = inspect(objs[k])
                    view.append(
                        [
                            [st.dict.get(a) for a in ATTRS],
                            [int(a in st.committed_state) for a in ATTRS],
                            [int(a in st.expired_attributes) for a in ATTRS],
                            int(st.modified),
                            int(not st.detached),
                        ]
                    )
                rows = [list(r) for r in ext.execute("select id,x,y,z from a order by id")]
                out.append([res, len(log), view, rows])
    finally:
        s.close()
    return out


# ---------------- the property, stated on the implementation's observation ----------------
def oracle(c, obs):
    eoc, rows0, ops = c["in"]
    com = {r[0]: list(r) for r in rows0}
    snapshot = {k: list(v) for k, v in com.items()}  # the initial get() opened the transaction
    # what the property lets us expect from a read: ("pend", v) | ("exp",) | ("val", v) | None (no expectation)
    st = {(k, a): ("val", com[k][a]) for k in com for a in range(1, 4)}
    att = {k: True for k in com}  # attached to the session (session-wide operations reach attached instances only)
    prev = [[list(r), [0] * 4, [0] * 4, 0, 1] for r in rows0]

    def cur():
        return snapshot if snapshot is not None else com

    for n, ((op, o, names, val), (res, nsel, view, rows)) in enumerate(zip(ops, obs)):
        full = op in (EXPIRE, REFRESH) and not names
        err = res == [3]
        if nsel and snapshot is None and op != COMMIT:
            snapshot = {k: list(v) for k, v in com.items()}
        if err:
            pass  # the operation was refused (detached instance): nothing may change, checked below
        elif op == READ:
            a = names[0]
            s0 = st[(o, a)]
            want = None
            if s0 is not None:
                want = s0[1] if s0[0] in ("pend", "val") else cur()[o][a]
            if s0 is not None and res != [1, want]:
                what = {"pend": "a pending change that was not expired", "exp": "an expired attribute", "val": "a loaded/refreshed attribute"}[s0[0]]
                return "op %d: read of %s.%s (%s) returned %s, expected %s" % (n, o, ATTRS[a], what, res[1:], want)
            if s0 is not None and s0[0] == "exp":
                if nsel != 1:
                    return "op %d: reading an expired attribute emitted %d SELECTs" % (n, nsel)
                # the one SELECT loads every expired attribute of the instance, pending ones excepted
                for b in range(1, 4):
                    sb = st[(o, b)]
                    if sb is not None and sb[0] == "exp":
                        if view[o - 1][0][b] != cur()[o][b]:
                            return "op %d: expired attribute %s.%s was loaded as %s, database has %s" % (n, o, ATTRS[b], view[o - 1][0][b], cur()[o][b])
                        st[(o, b)] = ("val", cur()[o][b])
            if s0 is None or s0[0] == "exp":
                st[(o, a)] = ("val", res[1]) if len(res) > 1 and res[1] is not None else None
                if s0 is None:
                    for b in range(1, 4):  # the load may have covered other attributes; no expectation for them
                        if st[(o, b)] is not None and st[(o, b)][0] == "exp":
                            st[(o, b)] = None
        elif op == SET:
            st[(o, names[0])] = ("pend", val)
        elif op == EXPIRE:
            for a in range(1, 4):
                if full or a in names:
                    st[(o, a)] = ("exp",)
        elif op == EXPIRE_ALL:
            for key in st:
                if att[key[0]]:
                    st[key] = ("exp",)
        elif op == REFRESH:
            if nsel != 1:
                return "op %d: refresh emitted %d SELECTs" % (n, nsel)
            for a in range(1, 4):
                if full or a in names:
                    if view[o - 1][0][a] != cur()[o][a]:
                        return "op %d: refresh left %s.%s = %s, database has %s" % (n, o, ATTRS[a], view[o - 1][0][a], cur()[o][a])
                    st[(o, a)] = ("val", cur()[o][a])
        elif op in (POPEX, POPEX_COLS):
            for (k, a) in st:
                if not att[k]:
                    continue
                if op == POPEX or a in names:
                    if view[k - 1][0][a] != cur()[k][a]:
                        return "op %d: populate_existing left %s.%s = %s, database has %s" % (n, k, ATTRS[a], view[k - 1][0][a], cur()[k][a])
                    st[(k, a)] = ("val", cur()[k][a])
                else:
                    # the column is not in the row: it must not keep an old value; a later read shows the database
                    st[(k, a)] = ("exp",)
        elif op == COMMIT:
            snapshot = None
            for key, s0 in st.items():
                if not att[key[0]]:
                    continue
                if res != [0]:
                    st[key] = None
                elif eoc:
                    st[key] = ("exp",)
                elif s0 is not None and s0[0] == "pend":
                    st[key] = ("val", s0[1])
                elif s0 is not None and s0[0] == "exp":
                    st[key] = None  # the flush may have loaded it; no expectation
        elif op == ROLLBACK:
            snapshot = None
            for key in st:
                if att[key[0]]:
                    st[key] = None
        elif op == EXPUNGE:
            att[o] = False
        elif op == ADD:
            att[o] = True
        # what an operation must NOT touch: attributes not named by expire/refresh, other instances; reads, sets,
        # external updates, expunge / add and refused operations leave every other attribute's dict value and pending flag alone
        if op in (EXPIRE, REFRESH, SET, READ, EXT, EXPUNGE, ADD) or err:
            for k in com:
                for a in range(1, 4):
                    touched = k == o and (
                        (op in (EXPIRE, REFRESH) and (full or a in names)) or (op == SET and a == names[0]) or op == READ
                    )
                    if op in (EXT, EXPUNGE, ADD) or err:
                        touched = False
                    if touched:
                        continue
                    if view[k - 1][0][a] != prev[k - 1][0][a] or view[k - 1][1][a] != prev[k - 1][1][a]:
                        return "op %d: %s.%s changed from %s (pending=%s) to %s (pending=%s) although the operation does not concern it" % (
                            n, k, ATTRS[a], prev[k - 1][0][a], prev[k - 1][1][a], view[k - 1][0][a], view[k - 1][1][a])
        if op == READ and not err:
            # a read may load other expired attributes of the same instance but never changes a pending one
            for a in range(1, 4):
                if prev[o - 1][1][a] and (view[o - 1][0][a] != prev[o - 1][0][a] or not view[o - 1][1][a]):
                    return "op %d: read changed the pending value of %s.%s" % (n, o, ATTRS[a])
        com = {r[0]: list(r) for r in rows}
        prev = view
    return None


def match_finding(c, what):
    return None
