"""C04 - bound parameters reach the right placeholders in every paramstyle.

Model: coq/sql/Params.v (bindparam_string escaping, _process_positional, _process_numeric,
_literal_execute_expanding_parameter, _process_parameters_for_postcompile, _init_compiled assembly).

Case = a statement *recipe* (select / cte / subquery / union / having / insert / update / delete with binds in
every clause).  The recipe is compiled ONCE by an instrumented compiler (bindparam_string returns a marker,
_process_numeric is skipped) to recover the compiler's pre-positional token list with ORIGINAL bind names,
bind_names order, the classification of every bind and _values_bindparam: that is the model's input.  The
implementation then executes the statement through six real engines (one per paramstyle) whose
`do_execute` event records exactly what would be handed to cursor.execute; (statement, parameters) must
equal the model's for every style.

Oracle (independent of the model): each recorded (statement, parameters) is inlined the way a DBAPI driver of
that paramstyle substitutes values and must equal the statement compiled with literal_binds from the final
values; the qmark / numeric / numeric_dollar / named pairs are also executed by sqlite3 and must return the
rows of the literal statement.
"""
import os
import re

ID = "C04"
LEVEL = "proof"
PROPS = "props/C04.v"
RUNNER = ("Gen.Gen_C04", "run_case")
STATIC_MODULES = ["SAV.sql.ParamsRun", "SAV.sql.ParamsMain"]

STYLES = ["qmark", "format", "numeric", "numeric_dollar", "named", "pyformat"]

ANCHORS = [
    ("lib/sqlalchemy/sql/compiler.py", "SQLCompiler._process_positional"),
    ("lib/sqlalchemy/sql/compiler.py", "SQLCompiler._process_numeric"),
    ("lib/sqlalchemy/sql/compiler.py", "SQLCompiler._literal_execute_expanding_parameter"),
    ("lib/sqlalchemy/sql/compiler.py", "SQLCompiler._literal_execute_expanding_parameter_literal_binds"),
    ("lib/sqlalchemy/sql/compiler.py", "SQLCompiler._process_parameters_for_postcompile"),
    ("lib/sqlalchemy/sql/compiler.py", "SQLCompiler.bindparam_string"),
    ("lib/sqlalchemy/sql/compiler.py", "SQLCompiler._init_bind_translate"),
    ("lib/sqlalchemy/sql/compiler.py", "SQLCompiler.construct_params"),
    ("lib/sqlalchemy/sql/compiler.py", "SQLCompiler.visit_bindparam"),
    ("lib/sqlalchemy/sql/compiler.py", "SQLCompiler._truncate_bindparam"),
    ("lib/sqlalchemy/engine/default.py", "DefaultExecutionContext._init_compiled"),
]

RULE = (
    "random statement recipes over two tables: SELECT with binds in the column list / WHERE / GROUP BY+HAVING / "
    "ORDER BY / LIMIT+OFFSET, CTE, scalar and IN subqueries, UNION, INSERT..VALUES(+scalar subquery)..RETURNING "
    "(also compiled as for executemany, so that insertmanyvalues is active and numeric numbers the binds outside "
    "VALUES first), INSERT from SELECT, UPDATE/DELETE..RETURNING; anonymous binds (named after "
    "columns x, x_1, y), explicit names from a pool that needs escaping (% ( ) : [ ] . blank) and that collides "
    "after escaping or after expansion, repeated binds (same object twice), expanding IN of length 0..4 (also "
    "literal_execute), literal_execute scalars, values overridden at execute(), binds typed with a TypeDecorator whose "
    "bind processor sends v to 10 v + k (plain and expanding, also with names that need escaping); plus dedicated families for the three "
    "defective regions (escape collision - also with an expanding / literal_execute partner, expanded-name collision, "
    "one name used with and without literal_execute), for the two repaired ones (literal_execute with an escaped name; "
    "a tuple-typed expanding bind used twice - oracle only) and for a scalar passed to an expanding bind.  Each case is run under all six paramstyles.  non-trivial = the statement "
    "has >= 3 bind occurrences and (a repeated bind, or an expanding/literal_execute bind, or a name needing escaping, "
    "or bind_names order different from text order)"
)
TRUSTED = [
    "hand-written Gallina transcription of the anchored functions (pinned normalised source + behavioural "
    "correspondence on every run); the token view of compiled.string (text / %(name)s / __[POSTCOMPILE_name]) "
    "recovered by an instrumented bindparam_string",
    "bindname_escape_characters, BIND_TEMPLATES, the three placeholder regexes and the empty-set expression are read "
    "from the live module on every run (Gen_C04.v); the regexes are compared with the pinned patterns",
    "DBAPI drivers interpret ? / %s / :n / $n / :name / %(name)s per PEP 249 and collapse %% (format, pyformat); only "
    "sqlite3 (qmark, named, :n/$n as named '1','2',..) is executed",
    "render_literal_value of the bind's type (Section variable lit) and the dialect's empty-set expression are opaque",
]
ASSUMPTIONS = [
    "two BindParameter objects with one name carry the same value (SQLAlchemy treats them as one parameter); if only one "
    "of them is literal_execute the case is outside the guard (refuted, known finding)",
    "bind values are integers / lists of integers; bind processors are modelled as per-bind functions (exercised with "
    "Integer TypeDecorators), no bind_expression, bind casts or tuple types (see finding C04-tuple-expanding-reused); "
    "typed binds are not literal_execute (their literal rendering is the type's literal processor, kept opaque)",
    "text between placeholders contains no text that itself looks like a placeholder (C06 finding "
    "C06-bind-pattern-in-name-positional covers that)",
    "insertmanyvalues batch rewriting (executemany) is C12; here a single parameter set is executed",
]
LEVEL_TEXT = (
    "Coq proof over the transcription of the compiler's parameter plumbing: for every token list, bind order, "
    "classification, parameter dictionary and each of the six paramstyles, inside the guard (escaped names of distinct "
    "binds distinct, expanded names fresh, values of the right shape) the "
    "(statement, parameters) pair handed to the driver inlines to exactly the statement with every bind replaced by "
    "its own value; positiontup is the text order of binds; numeric placeholders are a contiguous 1..n numbering; "
    "refutations outside the guard with concrete witnesses (wrong value delivered silently under every paramstyle, "
    "AssertionError, KeyError, placeholder without parameter)."
)
LEVEL_NOTE = (
    "Trusted: Coq kernel; the hand transcription (source pin + six-paramstyle correspondence through real engines); "
    "PEP-249 placeholder semantics of drivers; only sqlite3 executes. The guard is conservative: it demands freshness of "
    "expanded names against all bind names, not only those still alive."
)
TECHNIQUE = (
    "Coq proof (induction over token lists / bind order with dict invariants) + T1 table extraction with reflective side "
    "conditions + pinned source + model/impl correspondence through do_execute on six engines + literal_binds / sqlite3 oracle"
)

PINNED_PATTERNS = {
    "_post_compile_pattern": r"__\[POSTCOMPILE_(\S+?)(~~.+?~~)?\]",
    "_pyformat_pattern": r"%\(([^)]+?)\)s",
    "_positional_pattern": r"%\(([^)]+?)\)s|__\[POSTCOMPILE_(\S+?)(~~.+?~~)?\]",
}


# ------------------------------------------------------------------ tree helpers
def pack(s):
    """str -> packed tree: 5 bytes per int, little endian, leading 1 as end marker"""
    b = s.encode("latin-1")
    out = []
    for i in range(0, len(b), 5):
        ch = b[i : i + 5]
        out.append(int.from_bytes(ch + b"\x01", "little"))
    return out


def unpack(t):
    out = bytearray()
    for z in t:
        while z > 1:
            out.append(z % 256)
            z //= 256
    return out.decode("latin-1")


HASH_MASK = (1 << 60) - 1


def text_obs(s):
    """statement text as compared with the model: 60-bit hash and length (see ParamsRun.of_text)"""
    h = 0
    for ch in s.encode("latin-1"):
        h = (h * 1000003 + ch + 1) & HASH_MASK
    return [h, len(s)]


def enc_pval(v):
    """scalar -> int, list -> list of ints"""
    if isinstance(v, (list, tuple)):
        return [int(x) for x in v]
    return int(v)


# ------------------------------------------------------------------ T1
def facts(_=None):
    """runs in the impl interpreter: live tables"""
    from sqlalchemy import Integer
    from sqlalchemy.dialects import sqlite
    from sqlalchemy.sql import compiler, operators

    C = compiler.SQLCompiler
    tab = dict(C.bindname_escape_characters)
    for k, v in tab.items():
        if len(k) != 1 or len(v) != 1:
            raise RuntimeError("escape table entry %r -> %r is not char -> char" % (k, v))
    d = sqlite.dialect()
    comp = d.statement_compiler(d, None)
    return {
        "escape": [[ord(k), ord(v)] for k, v in tab.items()],
        "templates": [compiler.BIND_TEMPLATES[s] for s in STYLES],
        "pyformat_template": compiler._pyformat_template,
        "patterns": {k: getattr(C, k).pattern for k in PINNED_PATTERNS},
        "translate_re": C._bind_translate_re.pattern,
        "empty": comp.visit_empty_set_op_expr([Integer()], operators.in_op),
        "class_tab_same": dict(d.statement_compiler.bindname_escape_characters) == tab,
    }


def _coq_str(s):
    return "[" + "; ".join(str(ord(c)) for c in s) + "]%N"


def translate(repo, outdir):
    from translate import fingerprint
    from vlib import implcall

    fingerprint.check(repo, ANCHORS, "C04")
    f = implcall.call("specs.c04", "facts")
    for k, v in PINNED_PATTERNS.items():
        if f["patterns"].get(k) != v:
            raise RuntimeError("placeholder regex %s is %r, the model was written for %r" % (k, f["patterns"].get(k), v))
    if not f["class_tab_same"]:
        raise RuntimeError("the sqlite compiler overrides bindname_escape_characters")
    want_re = "[" + re.escape("".join(chr(k) for k, _ in f["escape"])) + "]"
    if f["translate_re"] != want_re:
        raise RuntimeError("_bind_translate_re %r is not the character class of the table keys" % f["translate_re"])
    if f["pyformat_template"] != f["templates"][STYLES.index("pyformat")]:
        raise RuntimeError("_pyformat_template differs from BIND_TEMPLATES['pyformat']")
    tab = "[" + "; ".join("(%d, %d)" % (k, v) for k, v in f["escape"]) + "]%N"
    src = (
        "(* generated on every run from the live sqlalchemy.sql.compiler module - do not edit *)\n"
        "From Coq Require Import List NArith ZArith Bool.\nImport ListNotations.\n"
        "From SAV.base Require Import Tree.\nFrom SAV.sql Require Import Params ParamsRun.\n\n"
        "Definition gen_tab : list (N * N) := %s.\n"
        "Definition gen_empty : str := %s.\n"
        "Definition gen_templates : list str := [%s].\n"
        "Definition run_case := run_with gen_tab gen_empty.\n"
        % (tab, _coq_str(f["empty"]), ";\n  ".join(_coq_str(t) for t in f["templates"]))
    )
    src2 = (
        "(* generated on every run - per-run obligations about the regenerated tables *)\n"
        "From Coq Require Import List NArith ZArith Bool.\nImport ListNotations.\n"
        "From SAV.sql Require Import Params ParamsRun ParamsDict ParamsEscape ParamsGuard ParamsMain.\n"
        "Require Import Gen.Gen_C04.\n\n"
        "(* the live escape table is the one the refutation witnesses were computed with *)\n"
        "Lemma gen_tab_same : gen_tab = sa_tab.\nProof. reflexivity. Qed.\n"
        "(* ... and satisfies the side conditions of the escape theorems *)\n"
        "Lemma gen_tab_closed : table_closed gen_tab = true.\nProof. vm_compute; reflexivity. Qed.\n"
        "Lemma gen_tab_nontrivial : table_nontrivial gen_tab = true.\nProof. vm_compute; reflexivity. Qed.\n"
        "(* BIND_TEMPLATES instantiate to the placeholder texts the model renders, for every name *)\n"
        "Lemma gen_templates_ok : forall n, map (fun t => pyfmt t n) gen_templates = model_templates n.\n"
        "Proof. intro n. cbn. rewrite ?app_nil_r. reflexivity. Qed.\n"
        "(* the property theorems (props/C04.v is stated with exactly these lemmas) instantiated with the table the\n"
        "   code has NOW *)\n"
        "Theorem gen_c04_escaped_names_clean : forall n, needs_esc gen_tab (esc gen_tab n) = false.\n"
        "Proof. exact (needs_esc_esc gen_tab gen_tab_closed). Qed.\n"
        "Theorem gen_c04_escape_collides : exists a b, a <> b /\\ esc gen_tab a = esc gen_tab b.\n"
        "Proof. exact (esc_not_injective gen_tab gen_tab_closed gen_tab_nontrivial). Qed.\n"
        "Theorem gen_c04_all_styles : forall lit empty proc ps inp, guard gen_tab inp = true ->\n"
        "  exists ts fp sp, run gen_tab lit empty proc ps inp = Ok (ts, fp) /\\ inline_spec lit empty proc inp = Some sp /\\\n"
        "                   inline ps ts fp = Some sp.\n"
        "Proof. exact (all_styles gen_tab). Qed.\n"
        "Print Assumptions gen_c04_all_styles.\n"
    )
    p = os.path.join(outdir, "Gen_C04.v")
    with open(p, "w") as fh:
        fh.write(src)
    p2 = os.path.join(outdir, "Gen_C04_obl.v")
    with open(p2, "w") as fh:
        fh.write(src2)
    return [p, p2]


# ------------------------------------------------------------------ recipes
# A recipe is JSON:
#   {"k": kind, "binds": [bindspec...], "ov": {name: value}, parts...}
#   bindspec = {"n": name|None, "v": int|[int], "u": 0/1 (unique), "le": 0/1, "ex": 0/1}
#   expr  = ["c", col] | ["b", i] | ["cv", col, op, int] | ["add"|"mod", e, e]
#   crit  = ["cmp", op, e, e] | ["in", col, i] | ["inl", col, [int], neg] | ["and"|"or", crit, crit] | ["not", crit]
COLS = ["id", "x", "y", "z", "x_1"]
NAME_POOL = [
    "p", "q", "r", "a b", "a.b", "a_b", "x[1]", "x_1_", "pct%", "pctP", "c:d", "cCd", "(par)", "AparZ",
    "x_1", "x_2", "x_1_1", "x_1_2", "p_1", "p_2", "q_1", "a_b_1", "a b_1", "y_1", "param_1", "w.z w",
]
CMPS = ["eq", "ne", "lt", "le", "gt", "ge"]


def _gen_bind(rng, R, expanding=False, le=None):
    """append a bind spec (or reuse one) and return its index"""
    binds = R["binds"]
    if binds and rng.random() < 0.2:
        cands = [i for i, b in enumerate(binds) if bool(b["ex"]) == expanding and (le is None or bool(b["le"]) == le)]
        if cands:
            return rng.choice(cands)
    used = {b["n"] for b in binds}
    if rng.random() < 0.3:
        name = None
    else:
        pool = [n for n in R.get("_pool", NAME_POOL) if n not in used]
        name = rng.choice(pool) if pool else None
    if le is None:
        le = rng.random() < 0.12
    if expanding:
        v = [rng.randint(0, 9) for _ in range(rng.choice([0, 1, 1, 2, 2, 3, 4]))]
    else:
        v = rng.randint(0, 12)
    b = {"n": name, "v": v, "u": int(name is None or rng.random() < 0.3), "le": int(le), "ex": int(expanding)}
    if not le and rng.random() < 0.3:
        b["t"] = rng.randint(1, 3)  # a type with a bind processor (v -> 10 v + t)
    binds.append(b)
    return len(binds) - 1


def _gen_expr(rng, R, d=0, cols=("x", "y", "z", "x_1")):
    k = rng.random()
    if not cols:
        if d >= 2 or k < 0.6:
            return ["b", _gen_bind(rng, R)]
        return ["add", _gen_expr(rng, R, d + 1, cols), _gen_expr(rng, R, d + 1, cols)]
    if d >= 2 or k < 0.3:
        return ["b", _gen_bind(rng, R)] if rng.random() < 0.6 else ["c", rng.choice(cols)]
    if k < 0.5:
        return ["cv", rng.choice(cols), rng.choice(["add", "mod", "mul"]), rng.randint(1, 9)]
    return [rng.choice(["add", "add", "mod"]), _gen_expr(rng, R, d + 1, cols), _gen_expr(rng, R, d + 1, cols)]


def _gen_crit(rng, R, d=0, cols=("x", "y", "z", "x_1")):
    k = rng.random()
    if d >= 2 or k < 0.3:
        if rng.random() < 0.5:
            return ["cv", rng.choice(cols), rng.choice(CMPS), rng.randint(0, 9)]
        return ["cmp", rng.choice(CMPS), _gen_expr(rng, R, d + 1, cols), _gen_expr(rng, R, d + 1, cols)]
    if k < 0.45:
        return ["in", rng.choice(cols), _gen_bind(rng, R, expanding=True)]
    if k < 0.6:
        return ["inl", rng.choice(cols), [rng.randint(0, 9) for _ in range(rng.choice([0, 1, 2, 3, 4]))], int(rng.random() < 0.3)]
    if k < 0.7:
        return ["not", _gen_crit(rng, R, d + 1, cols)]
    return [rng.choice(["and", "or"]), _gen_crit(rng, R, d + 1, cols), _gen_crit(rng, R, d + 1, cols)]


def gen_recipe(rng, kind=None, pool=None):
    kind = kind or rng.choice(
        ["select", "select", "select", "cte", "subq", "union", "having", "insert", "insert", "insert_sel", "update", "delete"]
    )
    R = {"k": kind, "binds": [], "ov": {}}
    if pool is not None:
        R["_pool"] = pool
    if kind in ("insert", "insert_sel", "update", "delete"):
        # bind names equal to column names are reserved in DML
        R["_pool"] = [n for n in (pool or NAME_POOL) if n not in COLS]
    if kind == "select":
        R["cols"] = [_gen_expr(rng, R) for _ in range(rng.randint(1, 2))]
        R["where"] = _gen_crit(rng, R)
        R["order"] = _gen_expr(rng, R) if rng.random() < 0.6 else None
        R["limit"] = rng.choice([None, None, 1, 3, 7])
        R["offset"] = rng.choice([None, 0, 2]) if R["limit"] is not None else None
    elif kind == "cte":
        R["inner"] = _gen_crit(rng, R)
        R["cols"] = [_gen_expr(rng, R, cols=("x", "y"))]
        R["where"] = _gen_crit(rng, R, cols=("x", "y"))
        R["limit"] = rng.choice([None, 2, 5])
    elif kind == "subq":
        R["scalar"] = _gen_crit(rng, R, 1)
        R["insub"] = _gen_crit(rng, R, 1)
        R["where"] = _gen_crit(rng, R, 1)
        R["cols"] = [_gen_expr(rng, R)]
    elif kind == "union":
        R["left"] = _gen_crit(rng, R)
        R["right"] = _gen_crit(rng, R)
        R["lcol"] = _gen_expr(rng, R, 1)
        R["rcol"] = _gen_expr(rng, R, 1)
        R["limit"] = rng.choice([None, 4])
    elif kind == "having":
        R["where"] = _gen_crit(rng, R, 1)
        R["having"] = ["b", _gen_bind(rng, R)]
        R["cols"] = [_gen_expr(rng, R, 1, cols=("x",))]
        R["order"] = ["b", _gen_bind(rng, R)] if rng.random() < 0.5 else None
    elif kind == "insert":
        R["vx"] = _gen_expr(rng, R, 1, cols=())
        R["vy"] = _gen_crit(rng, R, 1) if rng.random() < 0.6 else None   # scalar subquery criterion
        R["vyadd"] = ["b", _gen_bind(rng, R)]
        R["ret"] = _gen_expr(rng, R, 1) if rng.random() < 0.8 else None
        # compiled the way an executemany() would (insertmanyvalues active: numeric numbers the binds outside
        # VALUES first), then run with a single parameter set
        R["many"] = int(rng.random() < 0.6)
    elif kind == "insert_sel":
        R["cols"] = [_gen_expr(rng, R, 1), _gen_expr(rng, R, 1)]
        R["where"] = _gen_crit(rng, R, 1)
        R["ret"] = _gen_expr(rng, R, 1) if rng.random() < 0.5 else None
    elif kind == "update":
        R["vx"] = _gen_expr(rng, R, 1)
        R["where"] = _gen_crit(rng, R)
        R["ret"] = _gen_expr(rng, R, 1) if rng.random() < 0.7 else None
    elif kind == "delete":
        R["where"] = _gen_crit(rng, R)
        R["ret"] = _gen_expr(rng, R, 1) if rng.random() < 0.7 else None
    # values overridden at execute() for some explicitly named binds
    for b in R["binds"]:
        if b["n"] is not None and not b["u"] and rng.random() < 0.3:
            R["ov"][b["n"]] = (
                [rng.randint(0, 9) for _ in range(rng.choice([0, 1, 2, 3]))] if b["ex"] else rng.randint(0, 12)
            )
    R.pop("_pool", None)
    return R


_LIT = None
_PROC = {}


def _proc_type(k):
    """Integer TypeDecorator whose bind processor sends v to 10 v + k (ParamsRun.run_proc); 0 = plain Integer"""
    import sqlalchemy as sa

    if not k:
        return sa.Integer
    if k not in _PROC:
        from sqlalchemy.types import TypeDecorator

        class Proc(TypeDecorator):
            impl = sa.Integer
            cache_ok = True
            proc_id = k

            def process_bind_param(self, value, dialect):
                return None if value is None else value * 10 + self.proc_id

        Proc.__name__ = "Proc%d" % k
        _PROC[k] = Proc
    return _PROC[k]


def _processed(b, v):
    k = b.get("t", 0)
    if not k:
        return v
    return [x * 10 + k for x in v] if isinstance(v, (list, tuple)) else v * 10 + k


def _lit_class():
    """a column element that renders as the decimal text of its value (used for the ground-truth statement)"""
    global _LIT
    if _LIT is None:
        import sqlalchemy as sa
        from sqlalchemy.ext.compiler import compiles
        from sqlalchemy.sql.expression import ColumnElement

        class Lit(ColumnElement):
            inherit_cache = False

            def __init__(self, v):
                self.v = v
                self.type = sa.Integer()

        @compiles(Lit)
        def _render(el, compiler, **kw):
            return str(el.v)

        _LIT = Lit
    return _LIT


def build(R, final=False):
    """recipe -> (statement, execute-parameters).  final=True bakes the overriding values into the binds."""
    import sqlalchemy as sa

    md = sa.MetaData()
    t = sa.Table("t", md, *[sa.Column(c, sa.Integer, primary_key=(c == "id")) for c in COLS])
    u = sa.Table("u", md, sa.Column("id", sa.Integer, primary_key=True), sa.Column("tid", sa.Integer), sa.Column("w", sa.Integer))
    objs = {}

    def val(i):
        """the value that must reach the placeholder(s) of bind i: the given value after its bind processor"""
        b = R["binds"][i]
        return _processed(b, R["ov"][b["n"]] if b["n"] in R["ov"] else b["v"])

    def lc(v):
        # ground truth: the value written into the statement text, independent of any bind machinery
        return _lit_class()(int(v))

    def bp(i):
        if final:
            return lc(val(i))
        if i not in objs:
            b = R["binds"][i]
            tuples = bool(b["ex"]) and any(isinstance(x, (list, tuple)) for x in b["v"])
            objs[i] = sa.bindparam(
                b["n"], [tuple(x) for x in b["v"]] if tuples else b["v"],
                type_=None if tuples else _proc_type(b.get("t", 0)),  # untyped: takes the tuple type of its IN
                unique=bool(b["u"]), literal_execute=bool(b["le"]), expanding=bool(b["ex"]),
            )
        return objs[i]

    def num(v):
        return lc(v) if final else v

    def in_list(col, vals, neg=False):
        vals = [lc(v) for v in vals] if final else list(vals)
        return col.not_in(vals) if neg else col.in_(vals)

    ops = {
        "add": lambda a, b: a + b, "mod": lambda a, b: a % b, "mul": lambda a, b: a * b,
        "eq": lambda a, b: a == b, "ne": lambda a, b: a != b, "lt": lambda a, b: a < b,
        "le": lambda a, b: a <= b, "gt": lambda a, b: a > b, "ge": lambda a, b: a >= b,
    }

    def ex(e, tb=t):
        if e[0] == "c":
            return tb.c[e[1]]
        if e[0] == "b":
            return bp(e[1])
        if e[0] == "cv":
            return ops[e[2]](tb.c[e[1]], num(e[3]))
        return ops[e[0]](ex(e[1], tb), ex(e[2], tb))

    def cr(c, tb=t):
        if c[0] == "cv":
            return ops[c[2]](tb.c[c[1]], num(c[3]))
        if c[0] == "cmp":
            return ops[c[1]](ex(c[2], tb), ex(c[3], tb))
        if c[0] == "in":
            return in_list(tb.c[c[1]], val(c[2])) if final else tb.c[c[1]].in_(bp(c[2]))
        if c[0] == "inl":
            return in_list(tb.c[c[1]], c[2], bool(c[3]))
        if c[0] == "tin":
            # (col1, col2) IN <expanding bind of pairs>; outside the Coq model (cases carry "model": false)
            tup = sa.tuple_(tb.c[c[1]], tb.c[c[2]])
            if final:
                return tup.in_([tuple(int(x) for x in pr) for pr in val(c[3])])  # rendered by literal_binds
            return tup.in_(bp(c[3]))
        if c[0] == "not":
            return sa.not_(cr(c[1], tb))
        return (sa.and_ if c[0] == "and" else sa.or_)(cr(c[1], tb), cr(c[2], tb))

    def lab(cols, tb=t):
        return [ex(e, tb).label("c%d" % i) for i, e in enumerate(cols)]

    k = R["k"]
    if k == "select":
        s = sa.select(t.c.id, *lab(R["cols"])).where(cr(R["where"]))
        s = s.order_by(t.c.z + ex(R["order"]), t.c.id) if R["order"] is not None else s.order_by(t.c.id)
        if R["limit"] is not None:
            s = s.limit(num(R["limit"]))
            if R["offset"] is not None:
                s = s.offset(num(R["offset"]))
    elif k == "cte":
        c = sa.select(t.c.id, t.c.x, t.c.y).where(cr(R["inner"])).cte("c")
        s = sa.select(c.c.id, *lab(R["cols"], c)).where(cr(R["where"], c)).order_by(c.c.id)
        if R["limit"] is not None:
            s = s.limit(num(R["limit"]))
    elif k == "subq":
        sq = sa.select(sa.func.max(u.c.w)).where(u.c.tid == t.c.id).where(cr(R["scalar"])).scalar_subquery()
        ins = sa.select(u.c.tid).where(cr(R["insub"]))
        s = sa.select(t.c.id, *lab(R["cols"])).where(t.c.id.in_(ins)).where(cr(R["where"])).where(sa.func.coalesce(sq, num(0)) >= num(0)).order_by(t.c.id)
    elif k == "union":
        a = sa.select(t.c.id, ex(R["lcol"]).label("v")).where(cr(R["left"]))
        b = sa.select(t.c.id, ex(R["rcol"]).label("v")).where(cr(R["right"]))
        s = sa.union_all(a, b).order_by("id", "v")
        if R["limit"] is not None:
            s = s.limit(num(R["limit"]))
    elif k == "having":
        s = sa.select(t.c.x, sa.func.count().label("n"), *lab(R["cols"])).where(cr(R["where"])).group_by(t.c.x)
        s = s.having(sa.func.count() > ex(R["having"]))
        s = s.order_by(t.c.x + ex(R["order"]), t.c.x) if R["order"] is not None else s.order_by(t.c.x)
    elif k == "insert":
        vals = {"x": ex(R["vx"])}
        if R["vy"] is not None:
            vals["y"] = sa.select(sa.func.coalesce(sa.func.max(t.c.y), num(0)) + ex(R["vyadd"])).where(cr(R["vy"])).scalar_subquery()
        else:
            vals["y"] = ex(R["vyadd"])
        s = t.insert().values(**vals)
        if R["ret"] is not None:
            s = s.returning(t.c.id, ex(R["ret"]).label("r"))
    elif k == "insert_sel":
        sel = sa.select(*lab(R["cols"])).where(cr(R["where"]))
        s = t.insert().from_select(["x", "y"], sel)
        if R["ret"] is not None:
            s = s.returning(t.c.id, ex(R["ret"]).label("r"))
    elif k == "update":
        s = t.update().values(x=ex(R["vx"])).where(cr(R["where"]))
        if R["ret"] is not None:
            s = s.returning(t.c.id, ex(R["ret"]).label("r"))
    elif k == "delete":
        s = t.delete().where(cr(R["where"]))
        if R["ret"] is not None:
            s = s.returning(t.c.id, ex(R["ret"]).label("r"))
    else:
        raise ValueError(k)
    return s, ({} if final else dict(R["ov"]))


# ------------------------------------------------------------------ derivation of the model input (impl side)
_REC = None


def _rec_compiler():
    global _REC
    if _REC is None:
        from sqlalchemy.dialects.sqlite.base import SQLiteCompiler

        class Rec(SQLiteCompiler):
            """instrumented compiler: a marker instead of each placeholder; no numeric post-processing"""

            def bindparam_string(self, name, post_compile=False, expanding=False, **kw):
                super().bindparam_string(name, post_compile=post_compile, expanding=expanding, **kw)
                rec = self.__dict__.setdefault("_c04_rec", [])
                rec.append((name, bool(post_compile)))
                return "\x01%d\x02" % (len(rec) - 1)

            def _process_numeric(self):
                pass

        _REC = Rec
    return _REC


def _uses_tuple(x):
    if isinstance(x, dict):
        return any(_uses_tuple(v) for v in x.values())
    if isinstance(x, list):
        return (len(x) > 0 and x[0] == "tin") or any(_uses_tuple(v) for v in x)
    return False


def _derive_model_input(R):
    """recipe -> model input tree (or {"err": ...} when the statement does not compile at all)"""
    from sqlalchemy.dialects import sqlite

    if _uses_tuple(R):
        return {"in": [], "model": False}  # tuple-typed expanding binds are not modelled: oracle only

    stmt, ov = build(R)
    d = sqlite.dialect(paramstyle="numeric")
    d.statement_compiler = _rec_compiler()
    try:
        c = stmt.compile(dialect=d, for_executemany=bool(R.get("many")))
    except Exception as e:  # CompileError for conflicting bind names etc.
        return {"err": "%s: %s" % (type(e).__name__, str(e)[:200])}
    rec = c.__dict__.get("_c04_rec", [])
    toks = []
    pos = 0
    for m in re.finditer("\x01(\\d+)\x02", c.string):
        toks.append([0, pack(c.string[pos : m.start()])])
        n, pc = rec[int(m.group(1))]
        toks.append([2 if pc else 1, pack(n)])
        pos = m.end()
    toks.append([0, pack(c.string[pos:])])
    order = [str(n) for n in c.bind_names.values()]
    kinds, params, seen = [], [], set()
    for bobj, n in c.bind_names.items():
        if n in seen:
            continue
        seen.add(n)
        b = c.binds[n]
        k = 2 if b in c.literal_execute_params else 1 if b in c.post_compile_params else 0
        kinds.append([pack(n), k])
        v = ov[b.key] if b.key in ov else ov[n] if n in ov else b.value
        params.append([pack(n), enc_pval(v)])
    vb = c._values_bindparam
    values = [[pack(str(n)) for n in vb]] if (c._insertmanyvalues and vb is not None) else []
    pc = int(bool(c.literal_execute_params or c.post_compile_params))
    procs = []
    for n in c._bind_processors:
        pid = getattr(c.binds[n].type, "proc_id", None)
        if pid is None:
            raise RuntimeError("bind %r of type %r has a bind processor the model does not know" % (n, c.binds[n].type))
        procs.append([pack(str(n)), int(pid)])
    return {"in": [toks, [pack(n) for n in order], kinds, values, params, pc, procs]}


def derive_one(R):
    """recipe -> case fields.  {"in": tree} normally; {"err": ...} when the statement is rejected by the compiler
    (bind name conflicts: dropped); {"in": [], "model": False} when the statement compiles but its model input
    cannot be recovered on the current tree (tuple binds; anything unexpected, e.g. after a source change): such a
    case still runs on the implementation under the oracle, it is only excluded from the model comparison"""
    try:
        return _derive_model_input(R)
    except Exception as e:
        return {"in": [], "model": False, "underivable": "%s: %s" % (type(e).__name__, str(e)[:200])}


def derive(path):
    """runs in the impl interpreter; the recipes travel in a file (argv would be too long)"""
    import json

    with open(path) as f:
        recipes = json.load(f)
    return [derive_one(R) for R in recipes]


def _derive_cases(recs):
    """orchestrator side: recipes [(recipe, kind)] -> cases"""
    import json
    import tempfile

    from vlib import implcall

    with tempfile.NamedTemporaryFile("w", suffix=".json", delete=False) as tf:
        json.dump([r for r, _ in recs], tf)
        path = tf.name
    try:
        ins = implcall.call("specs.c04", "derive", path)
    finally:
        os.remove(path)
    out = []
    for (r, kind), d in zip(recs, ins):
        if "in" in d:
            c = {"in": d["in"], "recipe": r, "kind": kind}
            if d.get("model") is False:
                c["model"] = False
            if "underivable" in d:
                c["underivable"] = d["underivable"]
            out.append(c)
    return out


# ------------------------------------------------------------------ case generation
def _family_recipes(rng, n):
    """dedicated families for the defective regions"""
    out = []
    esc_pairs = [("a.b", "a b"), ("a.b", "a_b"), ("pct%", "pctP"), ("c:d", "cCd"), ("(par)", "AparZ"), ("x[1]", "x_1_"), ("a b", "a_b")]
    for _ in range(n):
        a, b = rng.choice(esc_pairs)
        if rng.random() < 0.5:
            a, b = b, a
        R = {"k": "select", "binds": [
            {"n": a, "v": rng.randint(0, 5), "u": 0, "le": 0, "ex": 0},
            {"n": b, "v": rng.randint(6, 12), "u": 0, "le": 0, "ex": 0}], "ov": {},
            "cols": [["b", 0]] if rng.random() < 0.5 else [["c", "x"]],
            "where": ["and", ["cmp", "ge", ["c", "x"], ["b", 0]], ["cmp", "le", ["c", "y"], ["b", 1]]],
            "order": None, "limit": rng.choice([None, 3]), "offset": None}
        k = rng.random()
        if k < 0.2:      # one of the two is an expanding bind
            R["binds"][0].update(ex=1, v=[rng.randint(0, 5) for _ in range(rng.randint(0, 2))])
            R["where"][1] = ["in", "x", 0]
            R["cols"] = [["c", "x"]]
        elif k < 0.4:    # one of the two is literal_execute
            R["binds"][rng.randint(0, 1)]["le"] = 1
        out.append((R, "esc-collision"))
    for _ in range(n):
        # expanded names x_1, x_2 / x_1_1 ... against a bind carrying that name
        col, other = rng.choice([("x", "x_1"), ("x_1", "x"), ("y", "x_1")])
        which = rng.choice(["anon-anon", "named-named", "named-anon"])
        if which == "anon-anon":
            w = ["and", ["inl", col, [rng.randint(0, 9) for _ in range(rng.randint(1, 3))], 0], ["cv", other, "eq", rng.randint(0, 9)]]
            if rng.random() < 0.5:
                w = ["and", w[2], w[1]]
            R = {"k": "select", "binds": [], "ov": {}, "cols": [["c", "y"]], "where": w, "order": None, "limit": None, "offset": None}
        else:
            base = rng.choice(["p", "q", "a b"])
            R = {"k": "select", "binds": [
                {"n": base, "v": [rng.randint(0, 9) for _ in range(rng.randint(1, 3))], "u": 0, "le": 0, "ex": 1},
                {"n": base.replace(" ", "_") + "_%d" % rng.randint(1, 2), "v": rng.randint(0, 9), "u": 0, "le": 0, "ex": 0}], "ov": {},
                "cols": [["c", "y"]], "where": ["and", ["in", "x", 0], ["cmp", "eq", ["c", "y"], ["b", 1]]],
                "order": None, "limit": None, "offset": None}
            if rng.random() < 0.5:
                R["where"] = ["and", R["where"][2], R["where"][1]]
        out.append((R, "expand-collision"))
    for _ in range(max(1, n // 2)):
        nm = rng.choice(["a b", "a.b", "pct%", "x[1]", "c:d"])
        R = {"k": "select", "binds": [{"n": nm, "v": rng.randint(0, 9), "u": 0, "le": 1, "ex": 0}], "ov": {},
             "cols": [["c", "y"]], "where": ["cmp", "ge", ["c", "x"], ["b", 0]], "order": None, "limit": None, "offset": None}
        if rng.random() < 0.4:
            R["binds"][0]["ex"] = 1
            R["binds"][0]["v"] = [1, 2]
            R["where"] = ["in", "x", 0]
        out.append((R, "litexec-escaped"))
    for _ in range(max(2, n // 3)):
        # two BindParameter objects with one name, only one of them literal_execute: compiler.binds[name] is the
        # one visited last, while each occurrence was rendered by its own flag
        a, b = rng.choice([(0, 1), (1, 0)])
        v = rng.randint(0, 9)
        R = {"k": "select", "binds": [{"n": "p", "v": v, "u": 0, "le": a, "ex": 0}, {"n": "p", "v": v, "u": 0, "le": b, "ex": 0}],
             "ov": {}, "cols": [["c", "y"]], "where": ["and", ["cmp", "ge", ["c", "x"], ["b", 0]], ["cmp", "le", ["c", "y"], ["b", 1]]],
             "order": None, "limit": None, "offset": None}
        out.append((R, "same-name-mixed-literal-execute"))
    for _ in range(n):
        # typed binds (bind processor) whose names need escaping, plain and expanding, some given at execute()
        nm = rng.sample(["a b", "pct%", "c:d", "(par)", "x[1]", "w.z w", "q"], 3)
        R = {"k": "select", "binds": [
            {"n": nm[0], "v": rng.randint(0, 9), "u": 0, "le": 0, "ex": 0, "t": rng.randint(1, 3)},
            {"n": nm[1], "v": [rng.randint(0, 9) for _ in range(rng.randint(0, 3))], "u": 0, "le": 0, "ex": 1, "t": rng.randint(1, 3)},
            {"n": nm[2], "v": rng.randint(0, 9), "u": 0, "le": 0, "ex": 0, "t": rng.choice([0, 1, 2])}], "ov": {},
            "cols": [["add", ["c", "x"], ["b", 0]]],
            "where": ["or", ["in", "y", 1], ["cmp", "le", ["add", ["c", "z"], ["b", 2]], ["b", 0]]],
            "order": None, "limit": None, "offset": None}
        if rng.random() < 0.4:
            R["ov"][nm[0]] = rng.randint(0, 9)
        if rng.random() < 0.3:
            R["ov"][nm[1]] = [rng.randint(0, 9) for _ in range(rng.randint(1, 2))]
        out.append((R, "typed-escaped"))
    for i in range(max(2, n // 3)):
        # tuple-typed expanding bind, used once or twice (not modelled; oracle only)
        prs = [[rng.randint(0, 9), rng.randint(0, 9)] for _ in range(rng.randint(1, 3))]
        w = ["tin", "x", "y", 0]
        if i % 2:
            w = ["or", w, ["tin", "y", "z", 0]]
        R = {"k": "select", "binds": [{"n": rng.choice(["tp", "t p"]), "v": prs, "u": 0, "le": 0, "ex": 1}, {"n": "q", "v": 3, "u": 0, "le": 0, "ex": 0}],
             "ov": {}, "cols": [["b", 1]], "where": w, "order": None, "limit": None, "offset": None}
        out.append((R, "tuple-in"))
    for _ in range(max(1, n // 3)):
        R = {"k": "select", "binds": [{"n": "p", "v": [1, 2], "u": 0, "le": 0, "ex": 1}], "ov": {"p": rng.randint(1, 9)},
             "cols": [["c", "y"]], "where": ["in", "x", 0], "order": None, "limit": None, "offset": None, "misuse": 1}
        out.append((R, "scalar-for-expanding"))
    return out


SAFE_POOL = ["p", "q", "r", "a b", "pct%", "c:d", "(par)", "x[1]", "w.z w", "s", "lim", "k9"]


def gen_cases(rng, tier):
    recs = []
    n = 1500 if tier == "thorough" else 280
    for _ in range(n):
        recs.append((gen_recipe(rng), "random"))
    for _ in range(n // 2):
        # names that never collide: the guarded region, with many escaped names
        recs.append((gen_recipe(rng, pool=SAFE_POOL), "random-safe-names"))
    recs += _family_recipes(rng, 40 if tier == "thorough" else 14)
    return _derive_cases(recs)


def search_cases(rng, tier):
    recs = []
    for _ in range(500):
        recs.append((gen_recipe(rng, pool=SAFE_POOL), "search-safe"))
    for _ in range(250):
        recs.append((gen_recipe(rng), "search"))
    return _derive_cases(recs)


def _decode_in(c):
    toks, order, kinds, values, params, _pc, _procs = c["in"]
    return (
        [(k, unpack(s)) for k, s in toks],
        [unpack(s) for s in order],
        {unpack(s): k for s, k in kinds},
        ([unpack(s) for s in values[0]] if values else None),
        {unpack(s): v for s, v in params},
    )


def nontrivial(c):
    if not c["in"]:
        return False
    toks, order, kinds, values, params = _decode_in(c)
    occ = [n for k, n in toks if k != 0]
    if len(occ) < 3:
        return False
    first = []
    for n in occ:
        if n not in first:
            first.append(n)
    dord = []
    for n in order:
        if n not in dord:
            dord.append(n)
    return (
        len(set(occ)) < len(occ)
        or any(k != 0 for k in kinds.values())
        or any(re.search(r"[%():\[\]. ]", n) for n in occ)
        or first != [n for n in dord if n in first]
    )


# ------------------------------------------------------------------ implementation side
_ENG = {}
_CAP = []
_DB = None
_TEXTS = {}  # (statement, parameters) per style of the LAST impl() call (the observation carries hashes)


def impl_setup():
    import sqlite3
    import warnings

    import sqlalchemy as sa
    from sqlalchemy import event

    warnings.simplefilter("ignore")
    for ps in STYLES:
        e = sa.create_engine("sqlite://", paramstyle=ps)

        def de(cursor, statement, parameters, context):
            _CAP.append((statement, parameters))
            return True  # the statement is NOT sent to sqlite3

        event.listen(e, "do_execute", de)
        event.listen(e, "do_executemany", de)
        _ENG[ps] = e
    global _DB
    _DB = sqlite3.connect(":memory:", isolation_level=None)
    _DB.execute("create table t (id integer primary key, x integer, y integer, z integer, x_1 integer)")
    _DB.execute("create table u (id integer primary key, tid integer, w integer)")
    k = 0
    for i in range(1, 41):
        _DB.execute("insert into t values (?,?,?,?,?)", (i, (i * 7) % 11, (i * 5) % 13, (i * 3) % 7, (i * 2) % 10))
        for j in range(i % 3):
            k += 1
            _DB.execute("insert into u values (?,?,?)", (k, i, (i + j) % 9))


def _hash_zs(zs):
    h = 0
    for z in zs:
        h = (h * 1000003 + z + 1) & HASH_MASK
    return h


def _enc_params(p):
    """positional: the values; dictionary: hash of the sorted items and size (see ParamsRun.of_fparams)"""
    if isinstance(p, dict):
        zs = []
        for k, v in sorted((str(k).encode("latin-1"), v) for k, v in p.items()):
            zs += list(k) + [-1]
            zs += ([-2] + [int(x) for x in v] + [-3]) if isinstance(v, (list, tuple)) else [int(v)]
            zs.append(-4)
        return [1, _hash_zs(zs), len(p)]
    return [0, [enc_pval(v) for v in p]]


def impl(c):
    import sqlalchemy as sa

    if not _ENG:
        impl_setup()
    R = c["recipe"]
    obs = []
    _TEXTS.clear()
    for ps in STYLES:
        stmt, params = build(R)
        del _CAP[:]
        try:
            with _ENG[ps].connect() as conn:
                del _CAP[:]
                if R.get("many"):
                    # what Connection._execute_clauseelement does, with the statement compiled for executemany
                    dialect = _ENG[ps].dialect
                    comp = stmt.compile(dialect=dialect, for_executemany=True)
                    dist = [params] if params else []
                    opts = stmt._execution_options.merge_with(conn._execution_options, {})
                    conn._execute_context(dialect, dialect.execution_ctx_cls._init_compiled, comp, dist, opts, comp, dist, stmt, None)
                elif params:
                    conn.execute(stmt, params)
                else:
                    conn.execute(stmt)
            if len(_CAP) != 1:
                obs.append([8, len(_CAP)])
                continue
            text, p = _CAP[0]
            _TEXTS[ps] = (text, p)
            obs.append([0, text_obs(text), _enc_params(p)])
        except AssertionError:
            obs.append([1])
        except sa.exc.StatementError as e:
            o = getattr(e, "orig", None)
            obs.append(
                [2] if isinstance(o, KeyError) else [3] if isinstance(o, TypeError) else [1] if isinstance(o, AssertionError) else [9]
            )
        except KeyError:
            obs.append([2])
        except TypeError:
            obs.append([3])
        except Exception:  # anything else the implementation raises instead of reaching the driver
            obs.append([9])
    return obs


# ------------------------------------------------------------------ oracle
def _val(v):
    if isinstance(v, int):
        return v
    raise ValueError("parameter value %r is not a scalar" % (v,))


def _inline(ps, text, params):
    """what a PEP-249 driver of this paramstyle substitutes; raises ValueError when it could not"""
    if ps in ("qmark", "format", "numeric", "numeric_dollar"):
        if isinstance(params, dict):
            raise ValueError("positional style with dict parameters")
        vals = [_val(v) for v in params]
    else:
        if not isinstance(params, dict):
            raise ValueError("named style with sequence parameters")
        d = dict(params)
    if ps == "qmark":
        parts = text.split("?")
        if len(parts) - 1 != len(vals):
            raise ValueError("%d placeholders, %d parameters" % (len(parts) - 1, len(vals)))
        return "".join(a + (str(v) if i < len(vals) else "") for i, (a, v) in enumerate(zip(parts, vals + [None])))
    if ps == "format":
        it = iter(vals)

        def f(m):
            if m.group(0) == "%%":
                return "%"
            if m.group(0) == "%":
                raise ValueError("stray % in format statement")
            try:
                return str(next(it))
            except StopIteration:
                raise ValueError("more %s than parameters")

        out = re.sub(r"%%|%s|%", f, text)
        if list(it):
            raise ValueError("more parameters than %s")
        return out
    if ps in ("numeric", "numeric_dollar"):
        ch = ":" if ps == "numeric" else r"\$"

        def f(m):
            k = int(m.group(1))
            if not 1 <= k <= len(vals):
                raise ValueError("placeholder %s out of range" % m.group(0))
            return str(vals[k - 1])

        return re.sub(ch + r"(\d+)", f, text)
    if ps == "named":

        def f(m):
            if m.group(1) not in d:
                raise ValueError("no parameter %r" % m.group(1))
            return str(_val(d[m.group(1)]))

        return re.sub(r":(\w+)", f, text)

    def f(m):
        if m.group(0) == "%%":
            return "%"
        if m.group(0) == "%":
            raise ValueError("stray % in pyformat statement")
        if m.group(1) not in d:
            raise ValueError("no parameter %r" % m.group(1))
        return str(_val(d[m.group(1)]))

    return re.sub(r"%%|%\((\w+)\)s|%", f, text)


def _rows(sql, params=()):
    _DB.execute("begin")
    try:
        cur = _DB.execute(sql, params)
        rows = cur.fetchall() if cur.description else []
        return sorted(rows, key=repr)
    finally:
        _DB.execute("rollback")


def oracle(c, obs):
    from sqlalchemy.dialects import sqlite

    R = c["recipe"]
    if R.get("misuse"):
        return None  # a scalar given to an expanding bind: not a statement the property speaks about
    stmt, _ = build(R, final=True)
    truth = str(stmt.compile(dialect=sqlite.dialect(), compile_kwargs={"literal_binds": True}))
    want_rows = None
    for ps, o in zip(STYLES, obs):
        if o[0] != 0:
            return "%s: no statement reaches the driver (error code %s)" % (ps, o[0])
        if ps not in _TEXTS or text_obs(_TEXTS[ps][0]) != o[1]:
            return None  # oracle called without the preceding impl() run of this case
        text, params = _TEXTS[ps]
        try:
            got = _inline(ps, text, params)
        except ValueError as e:
            return "%s: driver cannot bind: %s | %r" % (ps, e, text)
        if got != truth:
            return "%s: placeholders receive other values than their binds: %r, expected %r" % (ps, got, truth)
        if ps in ("qmark", "numeric", "numeric_dollar", "named"):
            if want_rows is None:
                want_rows = _rows(truth)
            if ps == "qmark":
                p = tuple(_val(v) for v in params)
            elif ps == "named":
                p = {k: _val(v) for k, v in params.items()}
            else:
                p = {str(i): _val(v) for i, v in enumerate(params, 1)}
            try:
                rows = _rows(text, p)
            except Exception as e:
                return "%s: sqlite3 rejects the statement/parameters: %s" % (ps, e)
            if rows != want_rows:
                return "%s: rows differ from the literal statement: %r vs %r" % (ps, rows[:5], want_rows[:5])
    return None


# ------------------------------------------------------------------ known findings
_ESC = {"%": "P", "(": "A", ")": "Z", ":": "C", ".": "_", "[": "_", "]": "_", " ": "_"}


def _esc(n):
    return "".join(_ESC.get(ch, ch) for ch in n)


def match_finding(c, what):
    R = c.get("recipe") or {}
    if _uses_tuple(R):
        used = []

        def walk(x):
            if isinstance(x, list):
                if x and x[0] == "tin":
                    used.append(x[3])
                for v in x:
                    walk(v)
            elif isinstance(x, dict):
                for v in x.values():
                    walk(v)

        walk(R)
        return "C04-tuple-expanding-reused" if len(set(used)) < len(used) else None
    try:
        toks, order, kinds, values, params = _decode_in(c)
    except Exception:
        return None
    names = []
    for n in order:
        if n not in names:
            names.append(n)
    if {n for k, n in toks if k == 1} & {n for k, n in toks if k == 2}:
        return "C04-same-name-mixed-literal-execute"
    escd = [_esc(n) for n in names]
    if len(set(escd)) < len(escd):
        return "C04-escape-collision"
    for n in names:
        if kinds.get(n) == 2 and _esc(n) != n:
            return "C04-literal-execute-escaped-name-keyerror"
    exp = []
    for n in names:
        if kinds.get(n) == 1 and isinstance(params.get(n), list):
            exp += ["%s_%d" % (_esc(n), i) for i in range(1, len(params[n]) + 1)]
    if len(set(exp)) < len(exp) or set(exp) & (set(names) | set(escd)):
        return "C04-expanded-name-collision"
    return None
