"""C34 - the identity map holds at most one object per row (identity key)."""
import itertools
import re

ID = "C34"
LEVEL = "proof"
PROPS = "props/C34.v"
RUNNER = ("SAV.orm.IdMapRun", "run_case")
STATIC_MODULES = ["SAV.orm.IdMapRun"]
RULE = (
    "histories over query (four routes: scalars(select), populate_existing, yield_per=1, Query.all; with and without "
    "an identity_token execution option), get (with/without identity_token), refresh, merge, expunge, add, primary-key "
    "assignment, flush, commit, rollback, delete and an external DELETE of a row (another actor), on 1-3 generated "
    "objects of a one-column mapped class plus whatever the loads create (primary keys from {1,1,2,3}, rows {1,2,3} "
    "pre-inserted at random, expire_on_commit on/off), driven against a real Session on in-memory SQLite: all 400 "
    "ordered pairs of 20 operation variants inside a fixed load/observe frame, 121 pairs in the same frame under an "
    "identity token and 121 after a flushed primary-key switch, the defect histories, and random histories of length "
    "<= 12 (three weightings); oracle-only families (not followed by the Coq model): a class with a deferred() column, "
    "SAVEPOINT histories (begin_nested / release / rollback to savepoint) and an eager_defaults mapping; thorough: all "
    "8000 triples and 20000 random histories.  Before every "
    "operation the harness records the model's environment (visible rows; per object expired / pk-expired / pk-loaded "
    "/ modified); after it: error class, identities (first-occurrence indices) of all returned objects, whether a get "
    "emitted no SQL (before_cursor_execute count), and per object its identity key and membership in session.new / "
    "session.deleted / identity_map, persistent?, attached?.  non-trivial = at least one load (query/get/merge) and "
    "one mutation"
)
TRUSTED = [
    "hand-written Gallina transcription (coq/orm/IdMap.v) of the identity-map relevant parts of orm/identity.py, "
    "orm/session.py, orm/loading.py (get_from_identity, identity lookup-or-create of _instance_processor), "
    "unitofwork/persistence (row switch, was_already_deleted); sets keyed by InstanceState are per-object flags; pinned "
    "to the normalised source of the anchors and compared with the implementation on every run",
    "harness observation of the environment through state.expired / expired_attributes / dict / modified and the raw "
    "DBAPI connection shared with the Session (SingletonThreadPool); SQL counted by before_cursor_execute",
]
ASSUMPTIONS = [
    "one Session, no relationships (relationship loads are not covered), objects kept alive by the caller, "
    "single-column primary key set by the application, SQLite; SAVEPOINTs, deferred columns and eager_defaults are "
    "exercised on the implementation and judged by the oracle only (no model, no theorem)",
    "histories are cut when an identity-less object has lost its pk value, when two states about to be flushed would "
    "get the same identity or share their old primary key (set-iteration-order dependent outcomes), and after a "
    "rollback() that raised",
]
ANCHORS = [
    ("lib/sqlalchemy/orm/identity.py", "_WeakInstanceDict.add"),
    ("lib/sqlalchemy/orm/identity.py", "_WeakInstanceDict.replace"),
    ("lib/sqlalchemy/orm/identity.py", "_WeakInstanceDict.safe_discard"),
    ("lib/sqlalchemy/orm/identity.py", "_WeakInstanceDict._fast_discard"),
    ("lib/sqlalchemy/orm/identity.py", "_WeakInstanceDict.contains_state"),
    ("lib/sqlalchemy/orm/identity.py", "_WeakInstanceDict.get"),
    ("lib/sqlalchemy/orm/identity.py", "_WeakInstanceDict._add_unpresent"),
    ("lib/sqlalchemy/orm/loading.py", "get_from_identity"),
    ("lib/sqlalchemy/orm/loading.py", "_instance_processor"),
    ("lib/sqlalchemy/orm/loading.py", "_load_scalar_attributes"),
    ("lib/sqlalchemy/orm/session.py", "Session._identity_lookup"),
    ("lib/sqlalchemy/orm/session.py", "Session._get_impl"),
    ("lib/sqlalchemy/orm/session.py", "Session.refresh"),
    ("lib/sqlalchemy/orm/session.py", "Session._expire_state"),
    ("lib/sqlalchemy/orm/session.py", "Session.merge"),
    ("lib/sqlalchemy/orm/session.py", "Session._merge"),
    ("lib/sqlalchemy/orm/session.py", "Session.expunge"),
    ("lib/sqlalchemy/orm/session.py", "Session._expunge_states"),
    ("lib/sqlalchemy/orm/session.py", "Session._register_persistent"),
    ("lib/sqlalchemy/orm/session.py", "Session._remove_newly_deleted"),
    ("lib/sqlalchemy/orm/session.py", "Session._save_impl"),
    ("lib/sqlalchemy/orm/session.py", "Session._update_impl"),
    ("lib/sqlalchemy/orm/session.py", "Session._delete_impl"),
    ("lib/sqlalchemy/orm/session.py", "Session._autoflush"),
    ("lib/sqlalchemy/orm/session.py", "Session._is_clean"),
    ("lib/sqlalchemy/orm/session.py", "Session._flush"),
    ("lib/sqlalchemy/orm/session.py", "SessionTransaction._restore_snapshot"),
    ("lib/sqlalchemy/orm/session.py", "SessionTransaction._remove_snapshot"),
    ("lib/sqlalchemy/orm/state.py", "InstanceState._detach_states"),
    ("lib/sqlalchemy/orm/state.py", "InstanceState._load_expired"),
    ("lib/sqlalchemy/orm/unitofwork.py", "UOWTransaction.finalize_flush_changes"),
    ("lib/sqlalchemy/orm/unitofwork.py", "UOWTransaction.was_already_deleted"),
    ("lib/sqlalchemy/orm/persistence.py", "_organize_states_for_save"),
]
OPN = ["query", "get", "refresh", "merge", "expunge", "add", "pkset", "flush", "commit", "rollback", "delete", "extdelete",
       "begin_nested", "nested_commit", "nested_rollback"]
TOK = {0: None, 1: 7}


def translate(repo, outdir):
    from translate import fingerprint

    fingerprint.check(repo, ANCHORS, "C34")
    return []


# ------------------------------------------------------------------------------------------------
# cases: {"in": [eoc, pks, rows, ops]}; op = [code, a, b]:
#   query(route a, token b)  get(pk a, token b)  refresh(i=a)  merge(i=a)  expunge(i=a)  add(i=a)  pkset(i=a, pk b)
#   flush  commit  rollback  delete(i=a)  extdelete(pk a)
VARIANTS = [
    [0, 0, 0], [0, 1, 0], [0, 2, 1], [0, 3, 0], [1, 1, 0], [1, 1, 1], [1, 3, 0], [2, 1, 0], [3, 0, 0], [3, 1, 0],
    [4, 1, 0], [5, 0, 0], [5, 1, 0], [6, 1, 3], [6, 1, 2], [7, 0, 0], [8, 0, 0], [9, 0, 0], [10, 1, 0], [11, 1, 0],
]


def _random_case(rng):
    n = rng.randint(1, 3)
    pks = [rng.choice([1, 1, 2, 3]) for _ in range(n)]
    rows = [r for r in (1, 2, 3) if rng.random() < 0.5]
    w = rng.choice([[4, 4, 2, 2, 2, 2, 3, 3, 2, 2, 2, 1], [2, 2, 1, 2, 1, 3, 4, 4, 2, 3, 2, 2], [2] * 12])
    ops = []
    for _ in range(rng.randint(2, 12)):
        c = rng.choices(range(12), w)[0]
        if c == 0:
            ops.append([0, rng.randint(0, 3), int(rng.random() < 0.25)])
        elif c == 1:
            ops.append([1, rng.randint(1, 4), int(rng.random() < 0.25)])
        elif c == 6:
            ops.append([6, rng.randint(0, 6), rng.randint(1, 4)])
        elif c == 11:
            ops.append([11, rng.randint(1, 3), 0])
        else:
            ops.append([c, rng.randint(0, 6), 0])
    return {"in": [rng.randint(0, 1), pks, rows, ops], "kind": "random"}


def gen_cases(rng, tier):
    cases = []
    n = 3 if tier == "thorough" else 2
    for k, seq in enumerate(itertools.product(VARIANTS, repeat=n)):
        cases.append({"in": [k & 1, [1], [1, 2], [[0, 0, 0]] + [list(v) for v in seq] + [[0, 0, 0], [1, 1, 0]]],
                      "kind": "frame-%d" % n})
    sub = [VARIANTS[i] for i in (0, 4, 6, 9, 10, 12, 15, 16, 17, 18)] + [[1, 3, 0]]
    for k, seq in enumerate(itertools.product(sub if tier != "thorough" else VARIANTS, repeat=2)):
        # the same frame with objects loaded under an identity token
        cases.append({"in": [k & 1, [1], [1, 2], [[0, 0, 1]] + [list(v) for v in seq] + [[0, 0, 1], [1, 1, 1]]],
                      "kind": "frame-token"})
        # after a flushed primary-key switch 1 -> 3
        cases.append({"in": [k & 1, [1], [1, 2], [[0, 0, 0], [6, 1, 3], [7, 0, 0]] + [list(v) for v in seq]
                             + [[1, 3, 0], [1, 1, 0], [0, 0, 0]]], "kind": "pk-switch"})
    for k, seq in enumerate(itertools.product(VARIANTS if tier == "thorough" else sub, repeat=2)):
        # a class with a deferred() column (loads leave it in expired_attributes): oracle only
        cases.append({"in": [1, [1], [1, 2], [[0, 0, 0]] + [list(v) for v in seq] + [[0, 0, 0], [1, 1, 0], [1, 2, 0]]],
                      "kind": "deferred", "deferred": 1, "model": False})
    nest = [[12, 0, 0], [13, 0, 0], [14, 0, 0], [6, 1, 3], [6, 1, 4], [7, 0, 0], [9, 0, 0], [8, 0, 0], [0, 0, 0], [4, 1, 0], [5, 1, 0], [10, 1, 0]]
    for k, seq in enumerate(itertools.product(nest, repeat=3)):
        # SAVEPOINT histories (the Coq model has no nested transactions): oracle only
        if [12, 0, 0] not in seq or k % (1 if tier == "thorough" else 3):
            continue
        cases.append({"in": [k & 1, [1], [1, 2], [[0, 0, 0], [6, 1, 3], [7, 0, 0]] + [list(v) for v in seq]
                             + [[9, 0, 0], [0, 0, 0], [1, 1, 0]]], "kind": "savepoint", "model": False})
    for k, v in enumerate(VARIANTS):
        # an object added in the transaction switches its primary key, then the transaction is rolled back
        cases.append({"in": [k & 1, [1], [2], [[5, 0, 0], [7, 0, 0], [6, 0, 3], [7, 0, 0], list(v), [9, 0, 0],
                                               [0, 0, 0], [1, 1, 0], [1, 3, 0]]], "kind": "new-pk-switch"})
    for k, v in enumerate(VARIANTS):
        # eager_defaults mapping, primary-key switch: oracle only
        cases.append({"in": [0, [1], [2], [[5, 0, 0], [8, 0, 0], [6, 0, 3], [7, 0, 0], list(v), [1, 3, 0], [0, 0, 0]]],
                      "kind": "eager", "eager": 1, "model": False})
    for _ in range(20000 if tier == "thorough" else 600):
        cases.append(_random_case(rng))
    return cases


def nontrivial(c):
    ops = c["in"][-1]
    codes = [(o[0] & 15) for o in ops]
    return c.get("model", True) and any(x in (0, 1, 3) for x in codes) and any(x in (4, 5, 6, 7, 8, 9, 10) for x in codes)


# ------------------------------------------------------------------------------------------------
_env = {}


def _setup():
    if _env:
        return _env
    import warnings

    warnings.simplefilter("ignore")
    from sqlalchemy import Column, Integer, create_engine, event, inspect, select, text
    from sqlalchemy import exc as sa_exc
    from sqlalchemy.orm import Session, declarative_base
    from sqlalchemy.orm import exc as orm_exc

    Base = declarative_base()

    class A(Base):
        __tablename__ = "a"
        id = Column(Integer, primary_key=True, autoincrement=False)

    from sqlalchemy.orm import deferred

    class AD(Base):  # same identity column plus a deferred() one: loads leave it in expired_attributes
        __tablename__ = "ad"
        id = Column(Integer, primary_key=True, autoincrement=False)
        d = deferred(Column(Integer))

    from sqlalchemy.schema import FetchedValue

    class AE(Base):  # eager_defaults with a server-side onupdate column and no RETURNING: the flush re-loads the row
        __tablename__ = "ae"
        id = Column(Integer, primary_key=True, autoincrement=False)
        v = Column(Integer, server_default=text("0"), server_onupdate=FetchedValue())
        __mapper_args__ = {"eager_defaults": True}
        __table_args__ = {"implicit_returning": False}

    e = create_engine("sqlite://", connect_args={"autocommit": False})
    Base.metadata.create_all(e)
    nsql = [0]
    event.listen(e, "before_cursor_execute", lambda *a, **k: nsql.__setitem__(0, nsql[0] + 1))
    _env.update(locals())
    return _env


def _exc_code(ex, E):
    sa_exc, orm_exc = E["sa_exc"], E["orm_exc"]
    if isinstance(ex, sa_exc.PendingRollbackError):
        return 3
    if isinstance(ex, orm_exc.ObjectDeletedError):
        return 5
    if isinstance(ex, orm_exc.DetachedInstanceError):
        return 7
    if isinstance(ex, orm_exc.StaleDataError):
        return 4
    if isinstance(ex, orm_exc.FlushError):
        return 6
    if isinstance(ex, sa_exc.IntegrityError):
        return 2
    if isinstance(ex, sa_exc.InvalidRequestError):
        return 1
    return 9


def impl(case):
    """-> [model_input, observation] (packed as described in coq/orm/IdMapRun.v)"""
    E = _setup()
    eoc, pks, rows, ops = case["in"]
    nostop = bool(case.get("nostop"))
    e, Session, inspect, text, select, nsql = E["e"], E["Session"], E["inspect"], E["text"], E["select"], E["nsql"]
    A, tbl = (E["AD"], "ad") if case.get("deferred") else (E["AE"], "ae") if case.get("eager") else (E["A"], "a")
    with e.begin() as c:
        c.execute(text("delete from %s" % tbl))
        for r in rows:
            c.execute(text("insert into %s (id) values (%d)" % (tbl, r)))
    s = Session(e, expire_on_commit=bool(eoc))
    objs = [A(id=p) for p in pks]
    raw = e.raw_connection()
    out = []
    mops = []
    after = []   # rows visible after each operation (for the oracle only)

    def idx(o):
        for i, x in enumerate(objs):
            if x is o:
                return i
        objs.append(o)
        return len(objs) - 1

    try:
        for code, a, b in ops:
            o = objs[a % len(objs)]
            cur = raw.cursor()
            cur.execute("select id from %s order by id" % tbl)
            vis = [r[0] for r in cur.fetchall()]
            cur.close()
            fl = []
            for x in objs:
                st = inspect(x)
                fl.append(int(st.expired) | int("id" in st.expired_attributes) << 1 | int("id" in st.dict) << 2 | int(st.modified) << 3)
            mops.append([code + 16 * a + 128 * b + 1024 * sum(1 << (r - 1) for r in vis), sum(f << (4 * j) for j, f in enumerate(fl))])
            toflush = list(s.new) + list(s.dirty)
            npk = [(inspect(x).dict.get("id", inspect(x).key[1][0] if inspect(x).key else None), inspect(x).identity_token) for x in toflush]
            old_ = [inspect(x).key[1][0] for x in s.dirty]
            if not nostop and (
                len(set(old_)) != len(old_)
                or any(inspect(x).key is None and "id" not in inspect(x).dict for x in objs)
                or len(set(npk)) != len(npk)
            ):
                out.append([99])
                break
            err = 0
            res = []
            n0 = nsql[0]
            try:
                if code == 0:
                    tok = TOK[b]
                    opts = {} if tok is None else {"identity_token": tok}
                    if a == 0:
                        r = s.scalars(select(A).order_by(A.id), execution_options=opts).all()
                    elif a == 1:
                        r = s.scalars(select(A).order_by(A.id), execution_options=dict(opts, populate_existing=True)).all()
                    elif a == 2:
                        r = list(s.scalars(select(A).order_by(A.id), execution_options=dict(opts, yield_per=1)))
                    else:
                        r = s.query(A).order_by(A.id).execution_options(**opts).all()
                    res = [idx(x) for x in r]
                elif code == 1:
                    r = s.get(A, a, identity_token=TOK[b])
                    res = [] if r is None else [idx(r)]
                elif code == 2:
                    s.refresh(o)
                elif code == 3:
                    res = [idx(s.merge(o))]
                elif code == 4:
                    s.expunge(o)
                elif code == 5:
                    s.add(o)
                elif code == 6:
                    st = inspect(o)
                    if (o in s.new or s.identity_map.contains_state(st)) and o not in s.deleted and "id" in st.dict:
                        o.id = b
                elif code == 7:
                    s.flush()
                elif code == 8:
                    s.commit()
                elif code == 9:
                    s.rollback()
                elif code == 10:
                    s.delete(o)
                elif code == 12:
                    s.begin_nested()
                elif code == 13:
                    t = s.get_nested_transaction()
                    if t is not None:
                        t.commit()
                elif code == 14:
                    t = s.get_nested_transaction()
                    if t is not None:
                        t.rollback()
                elif code == 11:
                    cur = raw.cursor()
                    cur.execute("delete from %s where id = %d" % (tbl, a))
                    cur.close()
            except Exception as ex:
                err = _exc_code(ex, E)
            nosql = int(nsql[0] == n0) if code == 1 and err == 0 else 0
            sts = []
            for x in objs:
                st = inspect(x)
                k = st.key
                kk = 0 if k is None else (k[1][0] * 2 + (1 if k[2] is not None else 0) + 1)
                fl_ = (int(x in s.new) | int(x in s.deleted) << 1 | int(s.identity_map.contains_state(st)) << 2
                       | int(st.persistent) << 3 | int(st.session_id == s.hash_key) << 4)
                sts.append(fl_ + 32 * kk)
            out.append([err + 16 * nosql, sum(w << (9 * j) for j, w in enumerate(sts))] + res)
            cur = raw.cursor()
            cur.execute("select id from %s order by id" % tbl)
            after.append([r[0] for r in cur.fetchall()])
            cur.close()
            if code == 9 and err != 0:  # a rollback() that raised leaves the transaction half restored: cut
                out.append([99])
                break
    finally:
        s.close()
        raw.close()
    return [[eoc, pks, mops], out, after]


def model_pair(case, obs):
    return obs[0], obs[1]   # obs[2] (rows after each operation) is for the oracle only


# ------------------------------------------------------------------------------------------------
# the property, stated on the observation
def _unpack(w):
    out = []
    while w:
        out.append(w & 511)
        w >>= 9
    return out


def _state_faults(sts):
    f = set()
    seen = {}
    for j, s in enumerate(sts):
        if s & 8:
            kk = s >> 5
            if kk in seen:
                f.add(("two-persistent-objects-one-identity", seen[kk], j))
            seen[kk] = j
        if s & 4 and not s & 16:
            f.add(("detached-object-in-identity-map", j))
        if s & 8 and not s & 4:
            f.add(("persistent-object-not-in-identity-map", j))
    return f


def _violations(obs):
    mi, out = obs[0], obs[1]
    after = obs[2] if len(obs) > 2 else None
    codes = [(m[0] & 15) for m in mi[2]]
    # rows can leave the table behind the session's back (external DELETE), or move away under an object
    # that aliases the row under another identity token
    rows_tracked = 11 not in codes and not any((m[0] & 15) in (0, 1) and (m[0] >> 7) & 7 for m in mi[2])
    viol = []
    prev = [0] * len(mi[1])
    begin = list(prev)   # state words at the last transaction boundary
    pfaults = set()
    for k, (mop, o) in enumerate(zip(mi[2], out)):
        if o == [99]:
            break
        w, fw = mop
        code, a, b = w & 15, (w >> 4) & 7, (w >> 7) & 7
        err, nosql, sts, res = o[0] & 15, (o[0] >> 4) & 1, _unpack(o[1]), o[2:]
        sts += [0] * (len(prev) - len(sts))
        name = OPN[code]
        faults = _state_faults(sts)
        for f in sorted(faults - pfaults):   # reported at the operation that introduces them
            viol.append((k, name, f[0], f[1:]))
        pfaults = faults
        if err == 0 and code in (0, 1, 3):
            for r in res:
                if (code != 3 or sts[r] >> 5) and not sts[r] & 4:
                    viol.append((k, name, "returned-object-is-not-the-mapped-one", (r,)))
            if code == 3 and res and sts[res[0]] >> 5 and sts[a % len(prev)] >> 5 \
                    and sts[res[0]] >> 5 != sts[a % len(prev)] >> 5:
                viol.append((k, name, "merge-returned-another-identity", (res[0],)))
            if code == 0 and after is not None and k < len(after) \
                    and [((sts[r] >> 5) - 1) >> 1 for r in res] != sorted(after[k]):
                viol.append((k, name, "query-results-do-not-carry-the-identities-of-the-rows", ()))
            if code == 0:
                keys = [sts[r] >> 5 for r in res]
                if len(set(keys)) != len(keys):
                    viol.append((k, name, "query-returned-two-objects-for-one-identity", ()))
                if any(((kk - 1) & 1) != (1 if b else 0) for kk in keys):
                    viol.append((k, name, "query-result-token-mismatch", ()))
        if code == 1:
            want = 2 * a + (1 if b else 0) + 1
            held = [j for j, s in enumerate(prev) if s & 4 and s >> 5 == want]
            if held:
                h = held[0]
                if not (fw >> (4 * h)) & 1 and not (err == 0 and res == [h] and nosql):
                    viol.append((k, name, "get-of-present-unexpired-object-emitted-sql-or-returned-another", (h,)))
            if err == 0 and res and sts[res[0]] >> 5 != want:
                viol.append((k, name, "get-returned-wrong-identity", ()))
        if code == 8 and err == 0 and after is not None and k < len(after) and rows_tracked:
            # after a commit every mapped object stands for a row of the table
            for j, w in enumerate(sts):
                if w & 4 and ((w >> 5) - 1) >> 1 not in after[k]:
                    viol.append((k, name, "mapped-object-without-row-after-transaction-end", (j,)))
        if code == 9 and err == 0:
            # a rollback gives every object that was mapped when the transaction began, and still is, the identity
            # key it had then.  (An object loaded during the transaction from a row that the rollback takes away
            # - e.g. inserted by an object that was expunged afterwards - legitimately stays mapped, expired.)
            for j, w in enumerate(sts):
                if w & 4 and j < len(begin) and begin[j] & 4 and w >> 5 != begin[j] >> 5:
                    viol.append((k, name, "rollback-did-not-restore-identity-key", (j,)))
        if code in (8, 9) and err == 0:
            begin = list(sts)
        prev = sts
    return viol


def oracle(case, obs):
    v = _violations(obs)
    if not v:
        return None
    k, name, kind, objs_ = v[0]
    return "step %d (%s): %s %s" % (k, name, kind, list(objs_))


def match_finding(case, what):
    m = re.match(r"step \d+ \((\w+)\): ([\w-]+) ", what)
    if not m:
        return None
    name, kind = m.group(1), m.group(2)
    ops = case["in"][-1]
    codes = [(o[0] & 15) for o in ops]
    if kind == "returned-object-is-not-the-mapped-one" and name == "get":
        return "C34-get-returns-stale-object"
    if kind == "detached-object-in-identity-map" and 4 in codes and 6 in codes:
        return "C34-rollback-maps-detached-object"
    if case.get("eager") and kind in ("get-returned-wrong-identity", "mapped-object-without-row-after-transaction-end",
                                      "rollback-did-not-restore-identity-key",
                                      "query-results-do-not-carry-the-identities-of-the-rows"):
        return "C34-eager-defaults-key-switch-bypassed"
    if kind in ("mapped-object-without-row-after-transaction-end", "rollback-did-not-restore-identity-key") \
            and 12 in codes and 13 in codes and codes.count(6) >= 2:
        return "C34-savepoint-release-loses-original-key"
    if kind in ("two-persistent-objects-one-identity", "persistent-object-not-in-identity-map"):
        if case.get("nostop"):
            return "C34-double-row-switch"
        token_alias = any((o[0] & 15) in (0, 1) and ((o[0] >> 7) & 7 if len(o) == 2 else o[2]) for o in ops)
        if 11 in codes or (6 in codes and token_alias):
            return "C34-identity-replaced-after-row-vanished"
    return None


def search_cases(rng, tier):
    cases = gen_cases(rng, "quick")
    # oracle-only: histories the model does not follow (set-iteration-order dependent flushes)
    for _ in range(300):
        c = _random_case(rng)
        c["nostop"] = 1
        c["model"] = False
        c["kind"] = "random-nostop"
        cases.append(c)
    return cases


LEVEL_TEXT = (
    "Machine-checked proof (Coq) over a Gallina transcription of the identity-map machinery: for every history of the "
    "modelled operations (unbounded, any database / attribute environment) the identity map is a partial function and "
    "what it holds carries an identity key; on the guarded region (ghost flag of the model down: no replace() evicted "
    "another object, no unattached state was re-mapped by a snapshot restore, no row of a mapped object vanished, "
    "delete() was never given a was-deleted state) every persistent object is the mapped one, everything mapped is "
    "attached and two persistent objects never share an identity key; a query returns, row by row, the object mapped "
    "under (pk, token); get of a present unexpired object returns it, emits no SQL and changes nothing.  Three concrete "
    "histories outside the guard refute the unguarded reading (they reproduce on the implementation and are listed as "
    "known findings); two former findings (get() returning the pre-autoflush instance, SAVEPOINT release losing the "
    "original key) are repaired in /repo 69ec57b / f8f802f and kept as witnesses.  Tie to the code: pinned anchors and model/implementation correspondence on histories."
)
LEVEL_NOTE = (
    "partial: one Session; relationship loads, SAVEPOINTs, weak-reference collection of unreferenced objects, composite "
    "keys and other databases are not covered; rows and attribute expiry are environment inputs (quantified in the "
    "theorems, observed from the implementation in the correspondence); histories are cut at set-iteration-order "
    "dependent flushes.  The guard is conservative where it flags every vanished row and every delete() of a "
    "was-deleted state, not only those that end in an inconsistency.  Trusted: Coq kernel, the hand transcription, the "
    "harness observation.  No axioms."
)
TECHNIQUE = (
    "Coq: invariant (functional map, keyed) preserved by every operation, by lemmas about monotone / claiming / adding "
    "passes over the object list and induction over folds and histories; a per-object boolean consistency invariant "
    "under a ghost flag; witnesses by vm_compute; source pins; "
    "model/implementation correspondence with environment feedback (model_pair); direct oracle on identities and SQL counts"
)
