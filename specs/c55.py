"""C55 - compiled and pure-Python implementations are interchangeable (PARTIAL: no Cython here).

Three readings of the seven dual modules are driven with the same inputs:
  (i)   the PURE source (the impl interpreter loads the *_cy.py files from source: vlib/purepy_loader);
  (ii)  the COMPILED BRANCH'S SOURCE: a second process loads the same files with `cython.compiled = True`,
        a `cython` module whose types carry C semantics, Python stand-ins for the few C-API calls
        (PyList_New/PyTuple_New allocate NULL slots, SET_ITEM fills a slot once and steals an INCREF'd
        reference) and an AST transform that makes the annotations executable (typed arguments are
        converted on entry, `unsigned int` arithmetic wraps, boundscheck(False) reads outside an exact
        tuple/list are `CyUndefinedBehaviour`, C attribute stores bypass __setattr__, cdef classes have no
        instance __dict__, `dict`-typed locals use PyDict_GetItem);
  (iii) the PREBUILT extension modules (a third process, VERIF_USE_SO=1).
Only (i) vs (ii) decides: both are readings of the CURRENT source.  (iii) cannot be rebuilt here; it
validates the emulation in (ii) and its differences are reported in the evidence (`impl_facts`).
"""
import ast
import glob
import importlib.abc
import importlib.util
import itertools
import json
import os
import subprocess
import sys
import traceback
import types

ID = "C55"
LEVEL = "proof"
PROPS = "props/C55.v"
RUNNER = ("SAV.cy.DualRun", "run_case")
STATIC_MODULES = ["SAV.cy.DualRun", "SAV.cy.DualTheorems"]
RULE = (
    "model families (Coq runs BOTH branches of a pair, the implementation side is [compiled-branch source, pure source]): "
    "unique_list over all sequences <= 4 of {3 hashables, 1 unhashable} + random; both _apply_processors over all processor "
    "vectors <= 3 of {None, 3 callables incl. raising ones} x row lengths 0..4 + random; many_rows/interim_rows with raising "
    "row constructors; BaseRow attribute access exhaustively over 5 names x class attributes x key maps; anon_map sequences incl. "
    "across the 2^32 counter boundary; OrderedSet.insert/__getitem__ incl. +-2^63 boundaries; tuplegetter index vectors; "
    "immutabledict update. Surface families (three-way, oracle only): random operation sequences over OrderedSet, IdentitySet, "
    "immutabledict/ImmutableDictBase/ReadOnlyContainer, the processors, _distill_params*, tuplegetter, prefix_anon_map/anon_map, "
    "BaseRow/Row and IteratorResult/ChunkedIteratorResult (processors, unique, columns, scalars, mappings, partitions, row logging); "
    "an `edge` family feeds arguments outside the declared C / exact types. non-trivial = at least two steps (surface) or a non-empty input (model)"
)
TRUSTED = [
    "the Cython compiler and C are MODELLED, not executed from the current source: hand-written Gallina definitions of both branches "
    "of every `if cython.compiled:` pair (pinned normalised source + per-run AST extraction of the pair sites and C-typed names) and the "
    "Python-level emulation of the compiled branch (specs/c55.py: fake `cython` module + AST transform), validated on every run against "
    "the prebuilt extension modules wherever their source is unchanged",
    "Python callables handed in (processors, row constructors) are arbitrary functions Z -> value-or-exception with a call log",
]
ASSUMPTIONS = [
    "LP64: Py_ssize_t/Py_hash_t 64-bit two's complement, unsigned int 32-bit, pointers < 2^64",
    "values are modelled as integers (hashable, compared by ==); unhashable elements as a separate constructor",
]
LEVEL_TEXT = (
    "Machine-checked proofs (Coq) over Gallina transcriptions of BOTH branches of every `if cython.compiled:` pair: inside the range of "
    "the declared C types the two branches return the same value, raise the same exception and make the same calls in the same order "
    "(branch_equiv_*), and explicit range_divergence_* theorems say what differs outside. Tie: pinned source + per-run extraction of the "
    "pair sites + model/implementation correspondence on both branches + a three-way behavioural comparison over the public surface."
)
LEVEL_NOTE = (
    "partial: Cython is not installed, so the compiled side is a model (Gallina + a Python emulation of the compiled branch), checked "
    "against the prebuilt extensions only where their source did not change since they were built; non-LP64 platforms, free-threading "
    "and performance-only differences are outside. No axioms (Print Assumptions: closed under the global context)."
)
TECHNIQUE = "Coq proofs of branch equivalence with explicit C integer semantics; AST extraction; three-way differential execution (pure source / compiled-branch source under a C-semantics shim / prebuilt extension)"

CY_MODULES = (
    "sqlalchemy.util._collections_cy",
    "sqlalchemy.util._immutabledict_cy",
    "sqlalchemy.engine._processors_cy",
    "sqlalchemy.engine._result_cy",
    "sqlalchemy.engine._row_cy",
    "sqlalchemy.engine._util_cy",
    "sqlalchemy.sql._util_cy",
)
CY_FILES = ["lib/" + m.replace(".", "/") + ".py" for m in CY_MODULES]

# ====================================================================================================
# (ii): the compiled branch's source made executable
# ====================================================================================================
class CyUndefinedBehaviour(BaseException):
    """the compiled branch would do something C leaves undefined (out-of-bounds read with
    boundscheck(False), NULL slot left in a new list/tuple, stolen reference without INCREF)"""


class CType:
    def __init__(self, name, lo=None, hi=None, kind="int"):
        self.name, self.lo, self.hi, self.kind = name, lo, hi, kind

    def __repr__(self):
        return "cython." + self.name

    def conv(self, v):
        """Python object -> C value (argument / assignment conversion): raises"""
        if self.kind == "bint":
            return bool(v)
        if self.kind == "float":
            return float(v)
        if self.kind == "obj":
            return v
        if isinstance(v, float):
            raise TypeError("'float' object cannot be interpreted as an integer")
        try:
            i = v.__index__()
        except AttributeError:
            raise TypeError("'%s' object cannot be interpreted as an integer" % type(v).__name__)
        if self.lo <= i <= self.hi:
            return i
        if i < 0 and self.lo == 0:
            raise OverflowError("can't convert negative value to %s" % self.name)
        raise OverflowError("Python int too large to convert to C %s" % self.name)

    def conv_assign(self, v):
        """assignment of a Python object to a C integer variable (__Pyx_PyInt_As_...): numbers are truncated"""
        if self.kind == "int" and not isinstance(v, int):
            return self.conv(RT.pyint(v))
        return self.conv(v)

    def wrap(self, i):
        """result of C arithmetic in this type"""
        if self.kind != "int":
            return self.conv(i)
        m = self.hi - self.lo + 1
        return (i - self.lo) % m + self.lo


class _Pointer:
    def __init__(self, addr):
        self.addr = addr


class _PointerType(CType):
    def __init__(self):
        CType.__init__(self, "pointer", kind="ptr")

    def conv(self, v):
        return _Pointer(id(v))


class _NullSlot:
    def __repr__(self):
        return "<NULL>"


NULL_SLOT = _NullSlot()


class _TupleUnderConstruction(list):
    pass


_pending_incref = {}


def _cy_unpickle(cls, state, d=None):
    o = cls.__new__(cls)
    for n, v in state:
        object.__setattr__(o, n, v)
    if d:
        o.__dict__.update(d)
    return o


def make_cython_module():
    m = types.ModuleType("cython")
    m.IS_SHIM = True
    m.compiled = True
    S63 = 2**63
    m.int = CType("int", -(2**31), 2**31 - 1)
    m.char = CType("char", -128, 127)
    m.bint = CType("bint", kind="bint")
    m.longlong = CType("longlong", -S63, S63 - 1)
    m.ulonglong = CType("ulonglong", 0, 2**64 - 1)
    m.Py_ssize_t = CType("ssize_t", -S63, S63 - 1)
    m.Py_hash_t = CType("Py_hash_t", -S63, S63 - 1)
    m.uint = CType("unsigned int", 0, 2**32 - 1)
    m.float = CType("float", kind="float")
    m.double = CType("double", kind="float")
    m.void = CType("void", kind="obj")
    m.NULL = None

    def _no_op(fn):
        return fn

    def cclass(cls):
        has_cinit = "__cinit__" in cls.__dict__
        if has_cinit:
            cinit = cls.__dict__["__cinit__"]
            base_new = cls.__new__

            def __new__(c, *a, **k):
                o = base_new(c, *a, **k) if base_new is not object.__new__ else base_new(c)
                cinit(o)
                return o

            cls.__new__ = staticmethod(__new__)
        # Cython gives a cdef class an automatic __reduce_cython__ (C attributes only - the content of a dict
        # base is NOT part of it) whenever the inherited __reduce__ is object's; with a __cinit__ it refuses
        if cls.__reduce__ is object.__reduce__ and cls.__reduce_ex__ is object.__reduce_ex__:
            if has_cinit:

                def __reduce__(self):
                    raise TypeError("no default __reduce__ due to non-trivial __cinit__")

            else:

                def __reduce__(self):
                    names = [n for k in type(self).__mro__ for n in getattr(k, "__slots__", ()) if isinstance(n, str)]
                    state = tuple((n, getattr(self, n)) for n in names if hasattr(self, n))
                    return (_cy_unpickle, (type(self), state, getattr(self, "__dict__", None) or None))

            cls.__reduce__ = __reduce__
        return cls

    m.cclass = cclass
    m.ccall = m.cfunc = m.inline = m.final = _no_op
    m.pointer = lambda t: _PointerType()

    def declare(t, value=None, **kw):
        if isinstance(t, CType) and value is not None:
            return t.conv(value)
        return value

    m.declare = declare

    def cast(t, value, *, typecheck=False):
        if isinstance(t, _PointerType):
            return t.conv(value)
        if isinstance(t, CType):
            if isinstance(value, _Pointer):
                return t.wrap(value.addr)
            return t.wrap(value) if t.kind == "int" else t.conv(value)
        return value

    m.cast = cast
    for n in ("annotation_typing", "exceptval", "returns", "locals", "wraparound", "boundscheck"):
        setattr(m, n, lambda *a, **k: _no_op)

    # ---- C-API used by the compiled branches
    cim = types.ModuleType("cython.cimports")
    cim.__path__ = []
    cpy = types.ModuleType("cython.cimports.cpython")
    cpy.__path__ = []

    def PyList_New(n):
        return [NULL_SLOT] * n

    def PyTuple_New(n):
        return _TupleUnderConstruction([NULL_SLOT] * n)

    def Py_INCREF(o):
        _pending_incref[id(o)] = _pending_incref.get(id(o), 0) + 1

    def _set_item(seq, i, v):
        if not (isinstance(i, int) and 0 <= i < len(seq)):
            raise CyUndefinedBehaviour("SET_ITEM index %r outside the allocated %d slots" % (i, len(seq)))
        if seq[i] is not NULL_SLOT:
            raise CyUndefinedBehaviour("SET_ITEM over a filled slot (leaks the old reference)")
        k = _pending_incref.get(id(v), 0)
        if k <= 0:
            raise CyUndefinedBehaviour("SET_ITEM steals a reference that was not INCREF'd")
        if k == 1:
            del _pending_incref[id(v)]
        else:
            _pending_incref[id(v)] = k - 1
        list.__setitem__(seq, i, v)

    cpy.PyList_New = PyList_New
    cpy.PyTuple_New = PyTuple_New
    cpy.Py_INCREF = Py_INCREF
    cpy.PyList_SET_ITEM = _set_item
    cpy.PyTuple_SET_ITEM = _set_item
    cdict = types.ModuleType("cython.cimports.cpython.dict")

    def PyDict_Update(a, b):
        if not isinstance(a, dict) or not isinstance(b, dict) and not hasattr(b, "keys"):
            raise CyUndefinedBehaviour("PyDict_Update on a non-dict")
        dict.update(a, b)

    cdict.PyDict_Update = PyDict_Update
    cpy.dict = cdict
    cim.cpython = cpy
    m.cimports = cim
    mods = {"cython": m, "cython.cimports": cim, "cython.cimports.cpython": cpy, "cython.cimports.cpython.dict": cdict}

    # cimport of a sibling compiled module: resolves to that module's (ii) copy
    class _Lazy(types.ModuleType):
        def __init__(self, name, real):
            types.ModuleType.__init__(self, name)
            self.__dict__["_real"] = real

        def __getattr__(self, k):
            import importlib

            return getattr(importlib.import_module(self.__dict__["_real"]), k)

    parts = ["sqlalchemy", "util", "_collections_cy"]
    prev = "cython.cimports"
    for i, p in enumerate(parts):
        nm = prev + "." + p
        if i < len(parts) - 1:
            mm = types.ModuleType(nm)
            mm.__path__ = []
        else:
            mm = _Lazy(nm, "sqlalchemy.util._collections_cy")
        mods[nm] = mm
        prev = nm
    return m, mods


# ------------------------------------------------------------------ runtime helpers used by transformed code
class RT:
    EXACT = {"str": str, "dict": dict, "tuple": tuple, "list": list, "set": set, "type": type, "bytes": bytes}

    @staticmethod
    def arg(ctype, v):
        return ctype.conv(v)

    @staticmethod
    def argtype(tname, v, argname):
        if tname == "int":
            try:
                return RT.pyint(v)
            except TypeError:
                ok = False
        else:
            ok = type(v) is RT.EXACT[tname]
        if not ok:
            raise TypeError(
                "Argument '%s' has incorrect type (expected %s, got %s)" % (argname, tname, type(v).__name__)
            )
        return v

    @staticmethod
    def wrap(ctype, v):
        return ctype.wrap(v)

    @staticmethod
    def assign(ctype, v):
        return ctype.conv_assign(v)

    @staticmethod
    def pyint(v):
        """a name declared `int`: numbers are converted with the number protocol, anything else is a TypeError"""
        if type(v) is int:
            return v
        t = type(v)
        if isinstance(v, int) or hasattr(t, "__int__") or hasattr(t, "__index__"):
            return int(v)
        raise TypeError("Expected int, got %s" % t.__name__)

    @staticmethod
    def uidx(seq, i):
        """seq[i] where i is a C integer and boundscheck/wraparound are off"""
        if type(seq) in (list, tuple, _TupleUnderConstruction):
            if not 0 <= i < len(seq):
                raise CyUndefinedBehaviour("unchecked read of element %d of a %d-element %s" % (i, len(seq), type(seq).__name__))
            return seq[i]
        return seq[i]

    @staticmethod
    def dget(d, k):
        """d[k] for a variable declared `dict`: PyDict_GetItem, never an overridden __getitem__/__missing__"""
        if dict.__contains__(d, k):
            return dict.__getitem__(d, k)
        raise KeyError(k)

    @staticmethod
    def fin(v):
        if isinstance(v, _TupleUnderConstruction):
            if any(x is NULL_SLOT for x in v):
                raise CyUndefinedBehaviour("tuple returned with a NULL slot")
            return tuple(v)
        if type(v) is list and any(x is NULL_SLOT for x in v):
            raise CyUndefinedBehaviour("list returned with a NULL slot")
        return v


def _cyt(a):
    if isinstance(a, ast.Attribute) and isinstance(a.value, ast.Name) and a.value.id == "cython":
        return a.attr
    return None


CTYPE_NAMES = {"int", "char", "bint", "longlong", "ulonglong", "Py_ssize_t", "Py_hash_t", "uint", "double", "float"}


def _rt(fn, *args):
    return ast.Call(func=ast.Attribute(value=ast.Name(id="CYRT_", ctx=ast.Load()), attr=fn, ctx=ast.Load()), args=list(args), keywords=[])


def _ctype_expr(name):
    return ast.Attribute(value=ast.Name(id="cython", ctx=ast.Load()), attr=name, ctx=ast.Load())


class Transform(ast.NodeTransformer):
    """makes the C semantics of the Cython annotations executable (see module docstring of specs/c55.py)"""

    def __init__(self):
        self.cls = []  # stack of (is_cclass, typed_attrs, slot_attrs, has_setattr)
        self.fn = []  # stack of dict(typed locals name->ctype, unchecked:bool)

    # ---- classes
    def visit_ClassDef(self, node):
        is_cc = any(_cyt(d) == "cclass" for d in node.decorator_list)
        typed = {}
        slots = set()
        has_setattr = False

        def scan(body):
            nonlocal has_setattr
            for s in body:
                if isinstance(s, ast.AnnAssign) and isinstance(s.target, ast.Name) and _cyt(s.annotation) in CTYPE_NAMES:
                    typed[s.target.id] = _cyt(s.annotation)
                if isinstance(s, ast.Assign) and any(isinstance(t, ast.Name) and t.id == "__slots__" for t in s.targets):
                    try:
                        slots.update(ast.literal_eval(s.value))
                    except Exception:
                        pass
                if isinstance(s, ast.FunctionDef) and s.name == "__setattr__":
                    has_setattr = True
                if isinstance(s, ast.If) and _is_compiled_test(s.test):
                    scan(s.body)

        scan(node.body)
        self.cls.append({"cc": is_cc, "typed": typed, "slots": slots, "setattr": has_setattr})
        node.body = self._class_body(node.body)
        if is_cc and not any(
            isinstance(s, ast.Assign) and any(isinstance(t, ast.Name) and t.id == "__slots__" for t in s.targets) for s in node.body
        ):
            node.body.insert(
                0,
                ast.Assign(
                    targets=[ast.Name(id="__slots__", ctx=ast.Store())],
                    value=ast.Tuple(elts=[ast.Constant(k) for k in sorted(typed)], ctx=ast.Load()),
                ),
            )
        self.generic_visit(node)
        self.cls.pop()
        return node

    def _class_body(self, body):
        out = []
        for s in body:
            if isinstance(s, ast.If) and _is_compiled_test(s.test):
                s.body = self._class_body(s.body) or [ast.Pass()]
                out.append(s)
                continue
            # C attribute declarations are not class attributes
            v = getattr(s, "value", None)
            if isinstance(s, (ast.AnnAssign, ast.Assign)) and isinstance(v, ast.Call) and _cyt(v.func) == "declare" and any(
                k.arg == "visibility" for k in v.keywords
            ):
                continue
            if isinstance(s, ast.AnnAssign) and s.value is None and _cyt(s.annotation) in CTYPE_NAMES:
                continue
            out.append(s)
        return out

    # ---- functions
    def visit_FunctionDef(self, node):
        decs = [ast.unparse(d) for d in node.decorator_list]
        annot_typing = "cython.annotation_typing(False)" not in decs
        unchecked = "cython.boundscheck(False)" in decs
        typed = {}
        for d in node.decorator_list:
            if isinstance(d, ast.Call) and _cyt(d.func) == "locals":
                for k in d.keywords:
                    if _cyt(k.value) in CTYPE_NAMES:
                        typed[k.arg] = _cyt(k.value)
        pre = []
        for a in node.args.posonlyargs + node.args.args:
            if a.annotation is None:
                continue
            t = _cyt(a.annotation)
            if t in CTYPE_NAMES:
                typed[a.arg] = t
                pre.append(
                    ast.Assign(targets=[ast.Name(id=a.arg, ctx=ast.Store())], value=_rt("arg", _ctype_expr(t), ast.Name(id=a.arg, ctx=ast.Load())))
                )
            elif (
                annot_typing
                and isinstance(a.annotation, ast.Name)
                and a.annotation.id in ("str", "dict", "tuple", "list", "set", "type", "int", "bytes")
            ):
                pre.append(
                    ast.Assign(
                        targets=[ast.Name(id=a.arg, ctx=ast.Store())],
                        value=_rt("argtype", ast.Constant(a.annotation.id), ast.Name(id=a.arg, ctx=ast.Load()), ast.Constant(a.arg)),
                    )
                )
        # typed locals declared by annotation anywhere in the body (not in nested functions)
        for s in _walk_no_nested(node):
            if isinstance(s, ast.AnnAssign) and isinstance(s.target, ast.Name) and _cyt(s.annotation) in CTYPE_NAMES:
                typed[s.target.id] = _cyt(s.annotation)
        pyints = set()
        for s in _walk_no_nested(node):
            if isinstance(s, ast.AnnAssign) and isinstance(s.target, ast.Name) and isinstance(s.annotation, ast.Name) and s.annotation.id == "int":
                pyints.add(s.target.id)
        dicts = set()
        for s in _walk_no_nested(node):
            if isinstance(s, ast.AnnAssign) and isinstance(s.target, ast.Name) and isinstance(s.annotation, ast.Name) and s.annotation.id == "dict":
                dicts.add(s.target.id)
        uses_new = any(
            isinstance(s, ast.Call) and isinstance(s.func, ast.Name) and s.func.id in ("PyList_New", "PyTuple_New") for s in _walk_no_nested(node)
        )
        self.fn.append({"typed": typed, "unchecked": unchecked, "fin": uses_new, "dicts": dicts, "pyints": pyints})
        self.generic_visit(node)
        self.fn.pop()
        # docstring stays first
        k = 1 if node.body and isinstance(node.body[0], ast.Expr) and isinstance(getattr(node.body[0], "value", None), ast.Constant) else 0
        node.body = node.body[:k] + pre + node.body[k:]
        return node

    def visit_Return(self, node):
        self.generic_visit(node)
        if self.fn and self.fn[-1]["fin"] and node.value is not None:
            node.value = _rt("fin", node.value)
        return node

    def visit_AnnAssign(self, node):
        self.generic_visit(node)
        if self.fn and isinstance(node.target, ast.Name) and _cyt(node.annotation) in CTYPE_NAMES:
            if node.value is None:
                return None
            return ast.Assign(targets=[node.target], value=_rt("assign", _ctype_expr(_cyt(node.annotation)), node.value))
        if self.fn and isinstance(node.target, ast.Name) and isinstance(node.annotation, ast.Name) and node.annotation.id == "int":
            if node.value is None:
                return None
            return ast.Assign(targets=[node.target], value=_rt("pyint", node.value))
        return node

    def visit_Assign(self, node):
        self.generic_visit(node)
        if len(node.targets) == 1:
            t = node.targets[0]
            if self.fn and isinstance(t, ast.Name) and t.id in self.fn[-1]["pyints"]:
                node.value = _rt("pyint", node.value)
            elif self.fn and isinstance(t, ast.Name) and t.id in self.fn[-1]["typed"]:
                node.value = _rt("assign", _ctype_expr(self.fn[-1]["typed"][t.id]), node.value)
            elif self._self_attr(t):
                c = self.cls[-1]
                if t.attr in c["typed"]:
                    node.value = _rt("arg", _ctype_expr(c["typed"][t.attr]), node.value)
                if c["cc"] and c["setattr"] and t.attr in c["slots"]:
                    # a C attribute store does not go through __setattr__
                    return ast.Expr(
                        value=ast.Call(
                            func=ast.Attribute(value=ast.Name(id="object", ctx=ast.Load()), attr="__setattr__", ctx=ast.Load()),
                            args=[ast.Name(id="self", ctx=ast.Load()), ast.Constant(t.attr), node.value],
                            keywords=[],
                        )
                    )
        return node

    def visit_AugAssign(self, node):
        self.generic_visit(node)
        t = node.target
        ct = None
        if self.fn and isinstance(t, ast.Name) and t.id in self.fn[-1]["typed"]:
            ct = self.fn[-1]["typed"][t.id]
            load = ast.Name(id=t.id, ctx=ast.Load())
        elif self._self_attr(t) and t.attr in self.cls[-1]["typed"]:
            ct = self.cls[-1]["typed"][t.attr]
            load = ast.Attribute(value=ast.Name(id="self", ctx=ast.Load()), attr=t.attr, ctx=ast.Load())
        if ct is None:
            return node
        # C arithmetic in the declared type: wraps
        return ast.Assign(targets=[t], value=_rt("wrap", _ctype_expr(ct), ast.BinOp(left=load, op=node.op, right=node.value)))

    def visit_BinOp(self, node):
        self.generic_visit(node)
        if not self.fn or not isinstance(node.op, (ast.Add, ast.Sub, ast.Mult)):
            return node
        typed = self.fn[-1]["typed"]

        def cint(n):
            if isinstance(n, ast.Name) and typed.get(n.id) in ("Py_ssize_t", "Py_hash_t", "uint", "ulonglong", "longlong", "int", "char"):
                return typed[n.id]
            return None

        a, b = cint(node.left), cint(node.right)
        konst = lambda n: isinstance(n, ast.Constant) and type(n.value) is int
        if (a and (b or konst(node.right))) or (b and konst(node.left)):
            return _rt("wrap", _ctype_expr(a or b), node)
        return node

    def visit_Subscript(self, node):
        self.generic_visit(node)
        if (
            self.fn
            and self.fn[-1]["unchecked"]
            and isinstance(node.ctx, ast.Load)
            and isinstance(node.slice, ast.Name)
            and node.slice.id in self.fn[-1]["typed"]
        ):
            return _rt("uidx", node.value, node.slice)
        if self.fn and isinstance(node.ctx, ast.Load) and isinstance(node.value, ast.Name) and node.value.id in self.fn[-1]["dicts"]:
            return _rt("dget", node.value, node.slice)
        return node

    def _self_attr(self, t):
        return bool(self.cls) and bool(self.fn) and isinstance(t, ast.Attribute) and isinstance(t.value, ast.Name) and t.value.id == "self"


def _is_compiled_test(t):
    return isinstance(t, ast.Attribute) and t.attr == "compiled" and isinstance(t.value, ast.Name) and t.value.id == "cython"


def _walk_no_nested(fn):
    todo = list(fn.body)
    while todo:
        n = todo.pop()
        yield n
        for ch in ast.iter_child_nodes(n):
            if isinstance(ch, (ast.FunctionDef, ast.AsyncFunctionDef, ast.ClassDef, ast.Lambda)):
                continue
            todo.append(ch)


def transform_source(src, filename):
    tree = ast.parse(src, filename)
    tree = Transform().visit(tree)
    ast.fix_missing_locations(tree)
    return tree


class _ShimLoader(importlib.abc.Loader):
    def __init__(self, path):
        self.path = path

    def create_module(self, spec):
        return None

    def exec_module(self, module):
        with open(self.path) as f:
            src = f.read()
        tree = transform_source(src, self.path)
        module.__dict__["CYRT_"] = RT
        exec(compile(tree, self.path, "exec"), module.__dict__)


class _ShimFinder(importlib.abc.MetaPathFinder):
    def __init__(self, libdir):
        self.libdir = libdir

    def find_spec(self, fullname, path=None, target=None):
        if fullname in CY_MODULES:
            p = os.path.join(self.libdir, *fullname.split(".")) + ".py"
            return importlib.util.spec_from_file_location(fullname, p, loader=_ShimLoader(p))
        return None


def install_shim():
    repo = os.environ.get("VERIF_REPO", "/repo")
    m, mods = make_cython_module()
    sys.modules.update(mods)
    sys.meta_path.insert(0, _ShimFinder(os.path.join(repo, "lib")))


# ====================================================================================================
# The case interpreter: the SAME code runs in the three builds ((i) pure source, (ii) compiled-branch
# source under the shim, (iii) prebuilt extension).  Everything below imports sqlalchemy lazily.
# ====================================================================================================
EXC_CODE = {
    "TypeError": 1, "IndexError": 2, "OverflowError": 3, "AssertionError": 4, "AttributeError": 5,
    "KeyError": 6, "ValueError": 7, "CyUndefinedBehaviour": 8,
}
_LOG = []
_POOL = []


class _O:
    __slots__ = ("k",)

    def __init__(self, k):
        self.k = k


def _pool(k):
    while len(_POOL) <= k:
        _POOL.append(_O(len(_POOL)))
    return _POOL[k]


class _StrSub(str):
    pass


class _IntSub(int):
    pass


class _Meta(type):
    pass


def _mapping_cls():
    from collections.abc import Mapping

    class _Map(Mapping):
        def __init__(self, items):
            self._d = dict(items)

        def __getitem__(self, k):
            return self._d[k]

        def __iter__(self):
            return iter(self._d)

        def __len__(self):
            return len(self._d)

    return _Map


def _named_fn(name):
    """processors / row constructors: every call is logged (observable side effect)"""

    def add10(x):
        _LOG.append(["add10", canon(x)])
        return x + 10

    def raise_odd(x):
        _LOG.append(["raise_odd", canon(x)])
        if x % 2:
            raise ValueError("odd")
        return 2 * x

    def type_error(x):
        _LOG.append(["type_error", canon(x)])
        return None + 1

    def neg(x):
        _LOG.append(["neg", canon(x)])
        return -x

    def to_s(x):
        _LOG.append(["to_s", canon(x)])
        return str(x)

    def null_to_s(x):
        _LOG.append(["null_to_s", canon(x)])
        return "missing" if x is None else x

    def count(x):
        _LOG.append(["count", canon(x)])
        return x

    def logrow(row):
        _LOG.append(["logrow", canon(tuple(row))])
        return row

    def first(row):
        return row[0]

    return {"add10": add10, "raise_odd": raise_odd, "type_error": type_error, "neg": neg, "to_s": to_s,
            "logrow": logrow, "first": first, "none": None, "null_to_s": null_to_s, "count": count}[name]


def val(spec):
    """JSON value spec -> Python value"""
    if isinstance(spec, list):
        return [val(x) for x in spec]
    if not isinstance(spec, dict):
        return spec
    (k, v), = spec.items()
    if k == "T":
        return tuple(val(x) for x in v)
    if k == "S":
        return {val(x) for x in v}
    if k == "FS":
        return frozenset(val(x) for x in v)
    if k == "D":
        return {val(a): val(b) for a, b in v}
    if k == "O":
        return _pool(v)
    if k == "G":
        return (val(x) for x in v)
    if k == "P":
        return v[0] ** v[1] + v[2]
    if k == "F":
        return _named_fn(v)
    if k == "SL":
        return slice(*[val(x) for x in v])
    if k == "STRSUB":
        return _StrSub(v)
    if k == "INTSUB":
        return _IntSub(v)
    if k == "FLOAT":
        return float(v)
    if k == "BYTES":
        return v.encode()
    if k == "DEC":
        import decimal

        return decimal.Decimal(v)
    if k == "TYPE":
        import decimal

        return {"Decimal": decimal.Decimal, "str": str, "float": float, "meta": _Meta("K", (), {"__init__": lambda self, s: None}),
                "int": int}[v]
    if k == "MP":
        return _mapping_cls()([(val(a), val(b)) for a, b in v])
    from sqlalchemy.util import _collections_cy as C
    from sqlalchemy.util import _immutabledict_cy as IM

    if k == "OS":
        return C.OrderedSet(val(v))
    if k == "IS":
        return C.IdentitySet(val(v))
    if k == "IM":
        return IM.immutabledict({val(a): val(b) for a, b in v})
    raise ValueError("bad value spec %r" % (spec,))


def canon(v, depth=0):
    """canonical JSON form of a result (type-tagged; identities -> pool indices; sets sorted)"""
    import datetime
    import decimal
    import operator

    if v is None or isinstance(v, str):
        return v if v is None else ["s", v] if type(v) is str else ["strsub", str(v)]
    if isinstance(v, bool):
        return ["b", int(v)]
    if isinstance(v, int):
        return v if -(2**53) < v < 2**53 and type(v) is int else ["int", str(int(v)), type(v).__name__]
    if isinstance(v, float):
        return ["f", repr(v)]
    if isinstance(v, _O):
        return ["o", v.k]
    if depth > 6:
        return ["deep"]
    d = depth + 1
    if v is NotImplemented:
        return ["NotImplemented"]
    if isinstance(v, bytes):
        return ["bytes", v.decode("latin1")]
    if isinstance(v, decimal.Decimal):
        return ["Decimal", str(v)]
    if isinstance(v, (datetime.datetime, datetime.date, datetime.time)):
        return [type(v).__name__, v.isoformat()]
    if isinstance(v, slice):
        return ["slice", canon(v.start), canon(v.stop), canon(v.step)]
    if isinstance(v, operator.itemgetter):
        return ["itemgetter", [canon(a, d) for a in v.__reduce__()[1]]]
    if isinstance(v, type):
        return ["type", v.__name__]
    tn = type(v).__name__
    from sqlalchemy.engine import _row_cy as RC
    from sqlalchemy.util import _collections_cy as C
    from sqlalchemy.util import _immutabledict_cy as IM

    if isinstance(v, C.OrderedSet):
        return ["OrderedSet", [canon(x, d) for x in v], sorted(json.dumps(canon(x, d)) for x in set(v))]
    if isinstance(v, C.IdentitySet):
        return ["IdentitySet", [canon(x, d) for x in v]]
    if isinstance(v, IM.immutabledict):
        return ["immutabledict", [[canon(a, d), canon(b, d)] for a, b in dict.items(v)]]
    if isinstance(v, RC.BaseRow):
        return ["Row" if tn == "Row" else "BaseRow", [canon(x, d) for x in v._to_tuple_instance()]]
    if tn == "RowMapping":
        return ["RowMapping", [[canon(a, d), canon(b, d)] for a, b in v.items()]]
    if isinstance(v, tuple):
        return ["t", [canon(x, d) for x in v]]
    if isinstance(v, list):
        return ["l", [canon(x, d) for x in v]]
    if isinstance(v, dict):
        return [tn if type(v) is not dict else "d", [[canon(a, d), canon(b, d)] for a, b in v.items()]]
    if isinstance(v, (set, frozenset)):
        return [tn, sorted(json.dumps(canon(x, d)) for x in v)]
    if tn in ("IteratorResult", "ScalarResult", "MappingResult", "ChunkedIteratorResult", "FilterResult"):
        return ["result", tn]
    if callable(v) and hasattr(v, "__name__"):
        return ["callable", v.__name__]
    if hasattr(v, "__next__"):
        return ["iterator"]
    return ["other", tn]


def _exc(e):
    n = type(e).__name__
    return ["exc", n]


def _try(f):
    import warnings

    with warnings.catch_warnings(record=True) as w:
        warnings.simplefilter("always")
        try:
            r = canon(f())
        except RecursionError:
            r = ["exc", "RecursionError"]
        except BaseException as e:  # noqa: B902 - the comparison is about exception TYPES
            if isinstance(e, (KeyboardInterrupt, SystemExit, MemoryError)):
                raise
            r = _exc(e)
    if w:
        return ["warn", sorted({x.category.__name__ for x in w}), r]
    return r


class _MD:
    """minimal parent for BaseRow: what ResultMetaData._key_not_found does"""

    def __init__(self, k2i=None):
        self._key_to_index = k2i or {}

    def _key_not_found(self, key, attr_err):
        if attr_err:
            raise AttributeError(key)
        raise KeyError(key)


# ---------------------------------------------------------------------------------------- model families
def _enc_res(f, enc=lambda x: x):
    try:
        return [0, enc(f())]
    except BaseException as e:  # noqa: B902
        n = type(e).__name__
        if n not in EXC_CODE:
            raise
        return [1, EXC_CODE[n]]


_MFN = {}
NONE_CODE = -1000


def _dn(v):
    return None if v == NONE_CODE else v


def _en(v):
    return NONE_CODE if v is None else v


def _model_fn(k):
    if k not in _MFN:
        def f(x, k=k):
            _LOG.append([k, NONE_CODE if x is None else x])
            if k == 1:
                return x + 10
            if k == 2:
                if x % 2:
                    raise ValueError("odd")
                return 2 * x
            if k == 3:
                return None + 1
            if k == 5:  # NOT None-preserving: a TypeDecorator translating NULL
                return 77 if x is None else x + 1
            if k == 6:  # passes everything through; only its calls are observable
                return x
            return -x

        _MFN[k] = f
    return _MFN[k]


def exec_model(t, kind):
    """one build's answer for a model case (the Coq runner answers [compiled, pure])"""
    op = t[0]
    del _LOG[:]
    if op == 0:
        from sqlalchemy.util._collections_cy import unique_list

        seq = [x if isinstance(x, int) else [x[0]] for x in t[1]]
        return _enc_res(lambda: unique_list(seq))
    if op == 1:
        from sqlalchemy.engine._row_cy import BaseRow

        procs = [None if p == 0 else _model_fn(p) for p in t[1]]
        data = tuple(_dn(x) for x in t[2])
        r = _enc_res(lambda: [_en(x) for x in BaseRow(_MD(), procs, {}, data)._to_tuple_instance()])
        return [list(_LOG), r]
    if op in (2, 3):
        from sqlalchemy.engine import result as R

        if op == 2:
            procs = [None if p == 0 else _model_fn(p) for p in t[1]]
            rows = [tuple(_dn(x) for x in t[2])]
        else:
            procs = [_model_fn(t[1])]
            rows = [(_dn(x),) for x in t[2]]
        md = R.SimpleResultMetaData(["c%d" % i for i in range(len(procs))], _processors=procs)
        res = R.IteratorResult(md, iter(rows))
        if op == 2:
            r = _enc_res(lambda: [_en(x) for x in res._raw_all_tuples()[0]])
        elif kind == "m3b":
            r = _enc_res(lambda: [_en(x[0]) for x in res._raw_all_tuples()])
        else:
            r = _enc_res(lambda: [_en(x[0]) for x in res.all()])
        return [list(_LOG), r]
    if op == 4:
        from sqlalchemy.engine._row_cy import BaseRow

        ca, k2i, data, name = t[1], t[2], t[3], t[4]
        s = lambda cp: "".join(chr(c) for c in cp)
        cls = type("R", (BaseRow,), dict({"__slots__": ()}, **{s(a): "CA:" + s(a) for a in ca}))
        kd = {}
        for k, v in k2i:
            kd.setdefault(s(k), None if v == [] else v)  # the FIRST entry wins in the model's association list
        row = cls(_MD(), None, kd, tuple(data))
        try:
            v = getattr(row, s(name))
        except BaseException as e:  # noqa: B902
            return [1, EXC_CODE[type(e).__name__]]
        if isinstance(v, str) and v.startswith("CA:"):
            return [2, [ord(c) for c in v[3:]]]
        return [0, v]
    if op == 5:
        from sqlalchemy.sql._util_cy import anon_map

        a = anon_map()
        if t[1] != 0:
            a._index = t[1]  # not possible on the extension (C attribute): the caller skips (iii)
        outs = []
        for o, k in t[2]:
            if o == 0:
                key = "k%d" % k
                found = dict.__contains__(a, key)
                outs.append([a[key], int(found)])
            else:
                v, found = a.get_anon(_pool(k))
                outs.append([v, int(found)])
        return [outs, getattr(a, "_index", -1), len(a)]
    if op == 7:
        from sqlalchemy.util._collections_cy import OrderedSet

        o = OrderedSet(t[1])

        def f():
            o.insert(t[2], t[3])
            return list(o)

        return _enc_res(f)
    if op == 8:
        from sqlalchemy.util._collections_cy import OrderedSet

        o = OrderedSet(t[1])
        return _enc_res(lambda: o[t[2]])
    if op == 9:
        from sqlalchemy.engine._util_cy import tuplegetter

        def enc(g):
            a = g.__reduce__()[1]
            if len(a) == 1 and isinstance(a[0], slice):
                return [0, a[0].start, a[0].stop]
            return [1, list(a)]

        return _enc_res(lambda: tuplegetter(*t[1]), enc)
    if op == 10:
        from sqlalchemy.util._immutabledict_cy import immutabledict

        r = immutabledict({k: v for k, v in t[1]}).union({k: v for k, v in t[2]})
        return [[k, v] for k, v in dict.items(r)]
    if op == 11:
        from sqlalchemy.util._collections_cy import OrderedSet, unique_list

        objs, reads = [], []
        for o in t[1]:
            if o[0] == 0:
                objs.append(list(o[1]))
            elif o[0] == 1:
                objs.append(unique_list(objs[o[1]]))
            elif o[0] == 2:
                objs.append(OrderedSet(objs[o[1]]))
            elif o[0] == 3:
                objs[o[1]].append(o[2])
            elif o[0] == 4:
                objs[o[1]].add(o[2])
            else:
                reads.append(list(objs[o[1]]))
        return reads
    raise ValueError("unknown model op %r" % (op,))


# ---------------------------------------------------------------------------------------- surface families
def _binop(name, a, b):
    import operator

    if name.startswith("i") and name not in ("in",):
        return getattr(operator, name)(a, b)
    return {"or": operator.or_, "and": operator.and_, "xor": operator.xor, "sub": operator.sub, "add": operator.add,
            "eq": operator.eq, "ne": operator.ne, "le": operator.le, "lt": operator.lt, "ge": operator.ge,
            "gt": operator.gt, "ror": lambda x, y: y | x}[name](a, b)


_BIN = {"or", "and", "xor", "sub", "add", "eq", "ne", "le", "lt", "ge", "gt", "ior", "iand", "ixor", "isub", "ror"}


def _generic_step(subj, st):
    op, args = st[0], [val(a) for a in st[1:]]
    if op in _BIN:
        return lambda: _binop(op, subj, args[0])
    if op == "list":
        return lambda: list(subj)
    if op == "len":
        return lambda: len(subj)
    if op == "in":
        return lambda: args[0] in subj
    if op == "getitem":
        return lambda: subj[args[0]]
    if op == "setitem":
        return lambda: subj.__setitem__(args[0], args[1])
    if op == "delitem":
        return lambda: subj.__delitem__(args[0])
    if op == "getattr":
        return lambda: getattr(subj, args[0])
    if op == "setattr":
        return lambda: setattr(subj, args[0], args[1])
    if op == "delattr":
        return lambda: delattr(subj, args[0])
    if op == "repr":
        return lambda: repr(subj)
    if op == "hash":
        return lambda: hash(subj) and 0
    if op == "hash_eq_tuple":
        return lambda: hash(subj) == hash(tuple(subj))
    if op == "pickle":
        import pickle

        return lambda: pickle.loads(pickle.dumps(subj))
    if op == "copy":
        import copy

        return lambda: copy.copy(subj)
    if op == "reduce":
        return lambda: subj.__reduce__()[1]
    if op == "is_self":
        return lambda: getattr(subj, args[0])(*args[1:]) is subj
    return lambda: getattr(subj, op)(*args)


_IDS = {}


def _ckey(k):
    if type(k) is int and k in _IDS:
        return ["id-of", _IDS[k]]
    return canon(k)


def _snapshot(fam, subj):
    if fam == "am":
        return [[_ckey(a), canon(b)] for a, b in dict.items(subj)]
    if fam == "os":
        return canon(subj)
    if fam == "ids":
        return [canon(x) for x in subj]
    if fam in ("imm", "pam", "am"):
        return [[canon(a), canon(b)] for a, b in dict.items(subj)]
    return None


def exec_surface(prog):
    del _LOG[:]
    del _POOL[:]
    _IDS.clear()
    fam = prog["fam"]
    out = []
    if fam == "fn":
        from sqlalchemy.engine import _processors_cy as P
        from sqlalchemy.engine import _util_cy as U
        from sqlalchemy.util import _collections_cy as C

        for st in prog["steps"]:
            name, args = st[0], [val(a) for a in st[1:]]
            if name == "to_decimal":
                f = lambda: P.to_decimal_processor_factory(args[0], args[1])(args[2])
            elif name == "tuplegetter":
                f = lambda: U.tuplegetter(*args[0])(args[1])
            elif name == "tuplegetter_form":
                f = lambda: U.tuplegetter(*args[0])
            elif name == "unique_list":
                f = lambda: _noalias(C.unique_list(*args), list(args) + [None])
            elif name == "unique_list_then_mutate":
                def f(args=args):
                    src = args[0]
                    r = C.unique_list(src)
                    r.append("R")
                    src.append("S")
                    return [r, src]
            elif name == "get_id":
                f = lambda: C._get_id(args[0]) == id(args[0]) if hasattr(C, "_get_id") else True
            elif hasattr(P, name):
                f = lambda: getattr(P, name)(*args)
            else:
                f = lambda: getattr(U, name)(*args)
            out.append([_try(f), None])
        return [None, out, []]
    if fam == "row":
        from sqlalchemy.engine import _row_cy as RC
        from sqlalchemy.engine import result as R
        from sqlalchemy.engine.row import Row

        ini = prog["init"]
        procs = None if ini.get("procs") is None else [_named_fn(p) for p in ini["procs"]]
        def mk():
            data = val(ini["data"])
            if ini.get("cls") == "Row":
                md = R.SimpleResultMetaData(ini["keys"])
                return Row(md, procs, md._key_to_index, data)
            k2i = {val(k): v for k, v in ini["k2i"]}
            return RC.BaseRow(_MD(k2i), procs, k2i, data)

        first = _try(mk)
        if first and first[0] == "exc":
            return [first, [], list(_LOG)]
        ilog = list(_LOG)
        subj = mk()
        del _LOG[:]
        first = [first, ilog]
        for st in prog["steps"]:
            if st[0] == "cmp":
                other = mk() if isinstance(st[2], dict) and "row" in st[2] else val(st[2])
                out.append([_try(lambda: _binop(st[1], subj, other)), None])
            elif st[0] == "mapping":
                out.append([_try(lambda: getattr(subj._mapping, st[1])(*[val(a) for a in st[2:]])), None])
            else:
                out.append([_try(_generic_step(subj, st)), None])
        return [first, out, list(_LOG)]
    if fam == "res":
        from sqlalchemy.engine import result as R

        ini = prog["init"]
        procs = None if ini.get("procs") is None else [_named_fn(p) for p in ini["procs"]]
        md = R.SimpleResultMetaData(ini["keys"], _processors=procs)
        rows = val(ini["rows"])
        if ini.get("chunked"):
            n = ini["chunked"]
            it = iter(rows)

            def chunks(size):
                while True:
                    ch = [x for _, x in zip(range(size or n), it)]
                    if not ch:
                        return
                    yield ch

            subj = R.ChunkedIteratorResult(md, chunks, source_supports_scalars=bool(ini.get("scalars_src")))
        else:
            subj = R.IteratorResult(md, iter(rows), _source_supports_scalars=bool(ini.get("scalars_src")))
        if ini.get("logrows"):
            subj._row_logging_fn = _named_fn("logrow")
        for st in prog["steps"]:
            holder = {}

            def f(st=st, subj=subj):
                if st[0] == "iter":
                    return list(subj)
                if st[0] == "next":
                    return next(subj)
                if st[0] == "partitions":
                    return [list(p) for p in subj.partitions(*[val(a) for a in st[1:]])]
                if st[0] == "unique":
                    r = subj.unique(*[val(a) for a in st[1:]])
                else:
                    r = getattr(subj, st[0])(*[val(a) for a in st[1:]])
                holder["r"] = r
                return r

            c = _try(f)
            out.append([c, list(_LOG)])
            del _LOG[:]
            if isinstance(c, list) and c and c[0] == "result":
                subj = holder["r"]
        return [None, out, []]
    # object families with a generic subject
    from sqlalchemy.sql import _util_cy as SU
    from sqlalchemy.util import _collections_cy as C
    from sqlalchemy.util import _immutabledict_cy as IM

    ctor = {"os": C.OrderedSet, "ids": C.IdentitySet, "imm": IM.immutabledict, "pam": SU.prefix_anon_map,
            "am": SU.anon_map, "immbase": IM.ImmutableDictBase,
            "roc": type("ROC", (IM.ReadOnlyContainer, dict), {})}[fam]
    ini = prog.get("init", "NOARG")
    src = None if ini == "NOARG" else val(ini)
    hold = {}

    def mk():
        hold["s"] = ctor() if ini == "NOARG" else ctor(src)

    first = _try(mk)
    if first and first[0] == "exc":
        return [first, [], []]
    subj = hold["s"]
    for st in prog["steps"]:
        if st[0] == "src_append":
            # the caller mutates the object the subject was built from: the subject must not change
            r = _try(lambda: src.append(val(st[1])) if isinstance(src, list) else None)
        elif st[0] == "src_read":
            r = _try(lambda: src if isinstance(src, (list, dict, set, tuple)) else None)
        elif st[0] == "get_anon":
            o = val(st[1])
            _IDS[id(o)] = canon(o)
            r = _try(lambda: subj.get_anon(o))
        else:
            r = _try(_generic_step(subj, st))
        out.append([r, _snapshot(fam, subj)])
    return [first, out, []]


def exec_case(c):
    if "prog" in c:
        return exec_surface(c["prog"])
    return exec_model(c["in"], c.get("kind", ""))


# ====================================================================================================
# Workers: (ii) and (iii) are subprocesses running exec_case; (i) is the impl interpreter itself
# ====================================================================================================
def _worker_main(mode):
    if mode == "ii":
        install_shim()
    import sqlalchemy  # noqa: F401
    from sqlalchemy.util import _collections_cy as C

    want = {"ii": True, "iii": True}[mode]
    sys.stdout.write(json.dumps({"ready": bool(C._is_compiled()) == want, "file": C.__file__}) + "\n")
    sys.stdout.flush()
    for line in sys.stdin:
        c = json.loads(line)
        try:
            r = {"obs": exec_case(c)}
        except BaseException as e:  # noqa: B902
            if isinstance(e, (KeyboardInterrupt, SystemExit)):
                raise
            r = {"err": "%s: %s" % (type(e).__name__, e), "tb": traceback.format_exc()[-800:]}
        sys.stdout.write(json.dumps(r) + "\n")
        sys.stdout.flush()


class _Worker:
    def __init__(self, mode):
        self.mode = mode
        self.p = None
        self.ok = None
        self.info = None
        self.crashes = 0

    def start(self):
        env = dict(os.environ)
        if self.mode == "iii":
            env["VERIF_USE_SO"] = "1"
        self.p = subprocess.Popen(
            [sys.executable, "-m", "specs.c55", "worker", self.mode], stdin=subprocess.PIPE, stdout=subprocess.PIPE,
            stderr=subprocess.DEVNULL, text=True, env=env, cwd=os.path.dirname(os.path.dirname(os.path.abspath(__file__))),
        )
        line = self.p.stdout.readline()
        try:
            self.info = json.loads(line)
            self.ok = bool(self.info.get("ready"))
        except ValueError:
            self.ok = False
            self.info = {"error": "worker did not start: %r" % line[:200]}

    def ask(self, c):
        if self.ok is False:
            return None
        if self.p is None or self.p.poll() is not None:
            self.start()
            if not self.ok:
                return None
        try:
            self.p.stdin.write(json.dumps(c) + "\n")
            self.p.stdin.flush()
            line = self.p.stdout.readline()
        except (BrokenPipeError, OSError):
            line = ""
        if not line:
            rc = self.p.wait()
            self.p = None
            self.crashes += 1
            return ["CRASH", rc]  # the process died (e.g. SIGSEGV = -11): memory-unsafe behaviour of this build
        r = json.loads(line)
        if "err" in r:
            return ["HARNESS-ERROR", r["err"]]
        return r["obs"]


_W = {}
_LAST = {}
_FACTS = {
    "compared_with_extension": 0, "extension_agrees_with_compiled_branch_source": 0,
    "extension_confirms_divergence": 0, "stale_extension_differences": 0, "unexplained_extension_differences": 0,
    "stale_samples": [], "unexplained_samples": [], "extension_crashes": [],
}
# operations whose source changed after the extension modules were built (/repo commit 3021dc0); a
# difference (iii) vs (i)/(ii) after one of these ran is "stale extension", not a violation
STALE_OPS = {("os", "symmetric_difference_update"), ("os", "ixor"), ("ids", "ixor"), ("ids", "__ixor__"), ("os", "__ixor__")}


def impl_setup():
    _W["ii"] = _Worker("ii")
    _W["iii"] = _Worker("iii")
    _W["ii"].start()
    _W["iii"].start()
    if not _W["ii"].ok:
        raise RuntimeError("the compiled-branch (shim) build could not be loaded: %r" % (_W["ii"].info,))


def _first_diff(a, b):
    if isinstance(a, list) and isinstance(b, list) and len(a) == len(b):
        for k, (x, y) in enumerate(zip(a, b)):
            if x != y:
                return k
    return -1


def _diff_step(a, b):
    """index of the first step whose [result, snapshot] differs; -1: the construction; -2: only the log"""
    try:
        if a[0] != b[0]:
            return -1
        for k, (x, y) in enumerate(zip(a[1], b[1])):
            if x != y:
                return k
        if len(a[1]) != len(b[1]):
            return min(len(a[1]), len(b[1]))
    except (TypeError, IndexError):
        return -1
    return -2


def impl(c):
    import sqlalchemy.util._collections_cy as C

    if C._is_compiled():
        raise RuntimeError("the impl interpreter must run the pure source (purepy_loader)")
    if not _W:
        impl_setup()
    try:
        o1 = exec_case(c)
    except BaseException as e:  # noqa: B902
        if isinstance(e, (KeyboardInterrupt, SystemExit)):
            raise
        o1 = ["HARNESS-ERROR", "%s: %s" % (type(e).__name__, e)]
    o2 = _W["ii"].ask(c)
    skip3 = c.get("no_so") or ("prog" not in c and c["in"][0] == 5 and c["in"][1] != 0)
    o3 = None if skip3 else _W["iii"].ask(c)
    _LAST.clear()
    _LAST.update({"i": o1, "ii": o2, "iii": o3})
    if o3 is not None:
        _account_extension(c, o1, o2, o3)
    if "prog" in c:
        return o1
    return [o2, o1]


def _strip_index(t, o):
    # anon_map's counter is a C attribute of the extension type: not observable there
    if t[0] == 5 and isinstance(o, list) and len(o) == 3:
        return [o[0], -1, o[2]]
    return o


def _account_extension(c, o1, o2, o3):
    f = _FACTS
    f["compared_with_extension"] += 1
    if "prog" not in c:
        o1, o2, o3 = (_strip_index(c["in"], o) for o in (o1, o2, o3))
    ub = json.dumps(o2).find("CyUndefinedBehaviour") >= 0 or ("prog" not in c and json.dumps(o2).find("[1, 8]") >= 0)
    if isinstance(o3, list) and o3 and o3[0] == "CRASH":
        f["extension_crashes"].append({"case": c.get("prog", c["in"]), "exit_status": o3[1],
                                       "compiled_branch_source_reading": "undefined behaviour reached" if ub else "no undefined behaviour predicted"})
        f["extension_crashes"] = f["extension_crashes"][:5]
    if ub:
        # the compiled branch reads outside an object: whatever the extension did (crash, garbage) is covered
        f["extension_confirms_divergence"] += 1
        return
    if o3 == o2:
        f["extension_agrees_with_compiled_branch_source"] += 1
        if o2 != o1:
            f["extension_confirms_divergence"] += 1
        return
    # (iii) differs from (ii): explained by a source change after the build?
    stale = False
    if "prog" in c:
        fam = c["prog"]["fam"]
        k = _diff_step(o2, o3)
        steps = c["prog"].get("steps", [])
        ran = steps if k < 0 else steps[: k + 1]
        stale = any((fam, st[0]) in STALE_OPS for st in ran)
    key = "stale" if stale else "unexplained"
    f[key + "_extension_differences"] += 1
    if len(f[key + "_samples"]) < 6:
        f[key + "_samples"].append({"case": c.get("prog", c["in"]), "pure": o1, "compiled_branch_source": o2, "extension": o3})


def impl_facts():
    import hashlib

    so = {}
    lib = os.path.join(os.environ.get("VERIF_REPO", "/repo"), "lib")
    newer = []
    for m in CY_MODULES:
        base = os.path.join(lib, *m.split("."))
        cands = [p for p in glob.glob(base + ".*.so")]
        for p in cands:
            with open(p, "rb") as fh:
                so[os.path.relpath(p, lib)] = hashlib.sha256(fh.read()).hexdigest()[:16]
            try:
                if os.path.getmtime(base + ".py") > os.path.getmtime(p) + 1:
                    newer.append(m)
            except OSError:
                pass
    out = dict(_FACTS)
    out["extension_files_sha256_16"] = so
    out["source_newer_than_extension"] = newer
    out["workers"] = {k: {"ok": w.ok, "info": w.info, "crashes": w.crashes} for k, w in _W.items()}
    out["stale_extension_note"] = (
        "the prebuilt extension modules cannot be rebuilt here (no Cython); differences between them and the current "
        "source that follow operations changed by /repo commit 3021dc0 (OrderedSet.symmetric_difference_update, "
        "IdentitySet.__ixor__) are reported as stale_extension_differences, never as violations"
    )
    for w in _W.values():
        try:
            w.p.stdin.close()
        except Exception:
            pass
    return out


# ====================================================================================================
# Oracle: C55 itself - the compiled reading and the pure reading of the CURRENT source agree
# ====================================================================================================
def oracle(c, obs):
    o1, o2 = _LAST.get("i"), _LAST.get("ii")
    if o2 is None:
        return "the compiled-branch build did not answer"
    for tag, o in (("pure", o1), ("compiled-branch", o2)):
        if isinstance(o, list) and o and o[0] == "HARNESS-ERROR":
            return "harness error in the %s build: %s" % (tag, o[1])
    if o1 == o2:
        return None
    if "prog" in c:
        fam = c["prog"]["fam"]
        k = _diff_step(o1, o2)
        steps = c["prog"].get("steps", [])
        if 0 <= k < len(steps):
            st, a, b = steps[k], o1[1][k], o2[1][k]
        else:
            st, a, b = ["<init>" if k == -1 else "<log>"], o1, o2
        return "DIFF step=%d op=%s :: %s: pure source gives %s, compiled-branch source gives %s" % (
            k, json.dumps(st), fam, json.dumps(a)[:300], json.dumps(b)[:300])
    return "DIFF step=0 op=%s :: model family %d: pure source gives %s, compiled-branch source gives %s" % (
        json.dumps(c["in"])[:200], c["in"][0], json.dumps(o1)[:300], json.dumps(o2)[:300])


# ====================================================================================================
# Case generation
# ====================================================================================================
BIG = [{"P": [2, 63, 0]}, {"P": [2, 63, 5]}, {"P": [-2, 63, -1]}, {"P": [2, 70, 0]}]
S63 = 2**63


def _surface(serial, fam, init, steps, **kw):
    c = {"in": [100, serial], "kind": "s-" + fam, "model": False, "prog": {"fam": fam, "steps": steps}}
    if init is not _NOINIT:
        c["prog"]["init"] = init
    c.update(kw)
    return c


_NOINIT = object()


def _small_iter(rng, elems, allow_exotic=True):
    n = rng.randint(0, 5)
    l = [rng.choice(elems) for _ in range(n)]
    k = rng.random()
    if not allow_exotic or k < 0.5:
        return l
    if k < 0.65:
        return {"T": l}
    if k < 0.8:
        return {"S": l}
    if k < 0.9:
        return {"G": l}
    return {"OS": l}


def _gen_os(rng):
    E = [0, 1, 2, 3, 4, 5, "a", "b", None, {"T": [1, 2]}]
    it = lambda: _small_iter(rng, E)
    init = rng.choice([_NOINIT, it(), it(), rng.sample(E[:8], rng.randint(0, 4)), rng.sample(E[:8], rng.randint(0, 4)), {"D": [[1, 2], [0, 3]]}, None])
    steps = []
    for _ in range(rng.randint(1, 7)):
        k = rng.choice(
            ["add", "remove", "pop", "insert", "discard", "clear", "getitem", "list", "len", "in", "repr", "update", "union",
             "intersection", "symmetric_difference", "difference", "intersection_update", "symmetric_difference_update",
             "difference_update", "or", "and", "xor", "sub", "ior", "iand", "ixor", "isub", "copy", "plus", "eq", "issubset",
             "pickle", "src_append", "src_read", "src_read"]
        )
        e = rng.choice(E)
        if k in ("add", "remove", "discard", "in"):
            steps.append([k, e])
        elif k == "src_append":
            steps.append(["src_append", rng.choice([7, 8, "z"])])
        elif k == "src_read":
            steps.append(["src_read"])
        elif k == "insert":
            steps.append(["insert", rng.randint(-7, 7), e])
        elif k == "getitem":
            steps.append(["getitem", rng.randint(-6, 6)])
        elif k in ("pop", "clear", "list", "len", "repr", "copy", "pickle"):
            steps.append([k])
        elif k in ("update", "union", "intersection", "difference", "intersection_update", "difference_update"):
            steps.append([k] + [it() for _ in range(rng.choice([0, 1, 1, 2]))])
        elif k in ("symmetric_difference", "symmetric_difference_update", "issubset"):
            steps.append([k, it()])
        elif k == "plus":
            steps.append(["__add__", it()])
        else:
            steps.append([k, rng.choice([{"S": [rng.choice(E) for _ in range(rng.randint(0, 4))]},
                                         {"OS": [rng.choice(E) for _ in range(rng.randint(0, 4))]}, it()])])
    return "os", init, steps


def _gen_ids(rng):
    E = [{"O": 0}, {"O": 1}, {"O": 2}, {"O": 3}, 1, "a", None]
    it = lambda: rng.choice([[rng.choice(E) for _ in range(rng.randint(0, 4))], {"IS": [rng.choice(E) for _ in range(rng.randint(0, 4))]},
                             {"G": [rng.choice(E) for _ in range(rng.randint(0, 3))]}, {"T": [rng.choice(E)]}])
    init = rng.choice([_NOINIT, it(), it(), None])
    steps = []
    for _ in range(rng.randint(1, 7)):
        k = rng.choice(
            ["add", "in", "remove", "discard", "pop", "clear", "eq", "ne", "le", "lt", "ge", "gt", "issubset", "issuperset", "union",
             "update", "difference", "difference_update", "intersection", "intersection_update", "symmetric_difference",
             "symmetric_difference_update", "or", "and", "xor", "sub", "ior", "iand", "ixor", "isub", "copy", "__copy__", "len", "list",
             "hash", "repr_len"]
        )
        if k in ("add", "in", "remove", "discard"):
            steps.append([k, rng.choice(E)])
        elif k in ("pop", "clear", "copy", "__copy__", "len", "list", "hash"):
            steps.append([k])
        elif k == "repr_len":
            steps.append(["__len__"])
        else:
            steps.append([k, it()])
    return "ids", init, steps


def _gen_imm(rng):
    K = ["a", "b", "c", 1, 2, None, {"T": [1]}]
    pairs = lambda: [[k, rng.randint(0, 5)] for k in rng.sample(K, rng.randint(0, 3))]
    arg = lambda: rng.choice([None, {"D": pairs()}, {"IM": pairs()}, {"D": []}, {"IM": []}, {"MP": pairs()}, [{"T": p} for p in pairs()]])
    fam = rng.choice(["imm"] * 8 + ["immbase", "roc"])
    init = rng.choice([_NOINIT, {"D": pairs()}, {"IM": pairs()}, [{"T": p} for p in pairs()]])
    steps = []
    for _ in range(rng.randint(1, 6)):
        k = rng.choice(["union", "merge_with", "is_self_union", "or", "ror", "ior", "setitem", "delitem", "clear", "pop", "popitem",
                        "setdefault", "update", "setattr", "copy_is", "reduce", "repr", "hash", "getitem", "len", "list", "pickle", "eq", "get"])
        if fam != "imm" and k in ("union", "merge_with", "is_self_union", "copy_is", "reduce"):
            k = "setitem"
        if k in ("union", "merge_with"):
            steps.append([k] + [arg() for _ in range(rng.choice([0, 1, 1, 2, 3]))])
        elif k == "is_self_union":
            steps.append(["is_self", "union"] + [arg() for _ in range(rng.choice([0, 1, 2]))])
        elif k in ("or", "ror", "ior", "eq"):
            steps.append([k, rng.choice([{"D": pairs()}, {"IM": pairs()}, 5, None, {"MP": pairs()}])])
        elif k == "setitem":
            steps.append(["setitem", rng.choice(K), 1])
        elif k in ("delitem", "pop", "setdefault", "getitem", "get"):
            steps.append([k, rng.choice(K)])
        elif k == "update":
            steps.append(["update", {"D": pairs()}])
        elif k == "setattr":
            steps.append(["setattr", "x", 1])
        elif k == "copy_is":
            steps.append(["is_self", "copy"])
        else:
            steps.append([k])
    return fam, init, steps


def _gen_fn(rng):
    V = [None, 0, 1, -1, 2, {"P": [2, 70, 0]}, {"FLOAT": 1.5}, "1", "1.5", "abc", "", {"BYTES": "x"}, True, False, [], {"T": []}, {"D": []},
         "2020-01-02", "2020-01-02 03:04:05", "2020-01-02T03:04:05.000006", "03:04:05", "bad", {"DEC": "1.5"}, {"FLOAT": "nan"},
         {"STRSUB": "2021-05-06"}, 20200102]
    P = [None, {"T": []}, [], {"D": []}, {"D": [["a", 1]]}, [{"D": [["a", 1]]}], [{"D": [["a", 1]]}, {"D": [["a", 2]]}], {"T": [1, 2]},
         [{"T": [1, 2]}], [[1, 2]], [1, 2], "x", [{"T": ["a"]}], {"T": [{"T": [1]}, {"T": [2]}]}, [{"D": []}], {"T": [{"D": [["a", 1]]}]},
         [None], 1, [1, {"D": [["a", 1]]}], {"IM": [["a", 1]]}, [{"IM": [["a", 1]]}], {"MP": [["a", 1]]}, [{"MP": [["a", 1]]}],
         {"T": [{"MP": [["a", 1]]}]}, {"S": [1]}, {"G": [1]}]
    ROWS = [{"T": [10, 11, 12, 13]}, [10, 11, 12, 13], {"T": []}, "abcd", None, {"T": [1]}]
    steps = []
    for _ in range(rng.randint(1, 6)):
        k = rng.choice(["proc", "proc", "dec", "dist20", "distraw", "tg", "tg", "tgform", "ul", "get_id"])
        if k == "proc":
            steps.append([rng.choice(["int_to_boolean", "to_str", "to_float", "str_to_datetime", "str_to_time", "str_to_date"]), rng.choice(V)])
        elif k == "dec":
            steps.append(["to_decimal", {"TYPE": rng.choice(["Decimal", "Decimal", "str", "float"])}, rng.choice([0, 1, 2, 5, 10]), rng.choice(V)])
        elif k == "dist20":
            steps.append(["_distill_params_20", rng.choice(P)])
        elif k == "distraw":
            steps.append(["_distill_raw_params", rng.choice(P)])
        elif k in ("tg", "tgform"):
            n = rng.choice([0, 1, 1, 2, 2, 3, 4])
            if rng.random() < 0.5:
                a = rng.randint(-3, 3)
                idx = [a + i for i in range(n)]
            else:
                idx = [rng.randint(-5, 5) for _ in range(n)]
            steps.append(["tuplegetter", idx, rng.choice(ROWS)] if k == "tg" else ["tuplegetter_form", idx])
        elif k == "ul":
            if rng.random() < 0.4:
                steps.append(["unique_list_then_mutate", [rng.choice([1, 2, 3, "a"]) for _ in range(rng.randint(0, 4))]])
            else:
                steps.append(["unique_list", rng.choice([_small_iter(rng, [1, 2, 3, "a", None, {"T": [1]}]), None, 5, [[1]], "abca"])])
        else:
            steps.append(["get_id", rng.choice([{"O": 0}, 1, "a", None])])
    return "fn", _NOINIT, steps


def _gen_am(rng):
    if rng.random() < 0.5:
        keys = ["1 foo", "2 foo", "1 foo", "3 bar", "4 a b", "5 bar", "6 foo bar"]
        steps = []
        for _ in range(rng.randint(1, 7)):
            k = rng.choice(["getitem", "getitem", "getitem", "in", "len", "get", "setitem", "getitem", "pickle" if rng.random() < 0.3 else "len"])
            if k == "setitem":
                steps.append(["setitem", rng.choice(["foo", "bar", "9 foo"]), rng.choice([5, 7])])
            elif k in ("len", "pickle"):
                steps.append([k])
            else:
                steps.append([k, rng.choice(keys)])
        return "pam", _NOINIT, steps
    steps = []
    for _ in range(rng.randint(1, 8)):
        k = rng.choice(["getitem", "getitem", "get_anon", "get_anon", "in", "len", "get", "setitem", "copy" if rng.random() < 0.3 else "len"])
        if k == "copy":
            steps.append(["copy"])
        elif k == "get_anon":
            steps.append(["get_anon", rng.choice([{"O": 0}, {"O": 1}, {"O": 2}, "s", 5])])
        elif k == "len":
            steps.append(["len"])
        elif k == "setitem":
            steps.append(["setitem", rng.choice(["k1", "zz"]), rng.choice([True, 7])])
        else:
            steps.append([k, rng.choice(["k1", "k2", "k3", 17, {"T": [1]}])])
    return "am", _NOINIT, steps


def _gen_row(rng):
    n = rng.randint(0, 4)
    data = [rng.choice([1, 2, 3, "x", None, 2]) for _ in range(n)]
    ini = {"data": rng.choice([{"T": data}, {"T": data}, data])}
    procs = None
    if rng.random() < 0.4:
        procs = [rng.choice(["none", "to_s", "none", "type_error" if rng.random() < 0.2 else "to_s"]) for _ in range(n)]
        ini["procs"] = procs
    names = ["a", "b", "count", "_x", "", "index", "_data", "_mapping", "keys", "zz", "t"]
    if rng.random() < 0.5:
        ini["cls"] = "Row"
        ini["keys"] = rng.sample(["a", "b", "count", "_x", "index", "q"], n) if n <= 6 else []
    else:
        ini["k2i"] = [[rng.choice(names + [5]), rng.choice([0, 1, 2, -1, 7, None])] for _ in range(rng.randint(0, 4))]
    steps = []
    for _ in range(rng.randint(1, 7)):
        k = rng.choice(["getitem", "getitem", "getattr", "getattr", "getattr", "list", "len", "hash_eq_tuple", "in", "_values_impl",
                        "_to_tuple_instance", "_get_by_key_impl_mapping", "setattr", "delattr", "pickle", "reduce", "cmp", "mapping",
                        "call"])
        if k == "getitem":
            steps.append(["getitem", rng.choice([0, 1, -1, 5, {"SL": [0, 2, None]}, {"SL": [None, None, -1]}, "a", None])])
        elif k == "getattr":
            steps.append(["getattr", rng.choice(names)])
        elif k == "in":
            steps.append(["in", rng.choice([1, "x", None, 9])])
        elif k == "_get_by_key_impl_mapping":
            steps.append([k, rng.choice(names + [0, 5])])
        elif k == "setattr":
            steps.append(["setattr", rng.choice(["a", "_data", "zz"]), 1])
        elif k == "delattr":
            steps.append(["delattr", rng.choice(["a", "_data"])])
        elif k == "cmp":
            steps.append(["cmp", rng.choice(["eq", "ne", "lt", "le", "gt", "ge"]), rng.choice([{"T": data}, {"row": 1}, {"T": [1]}, 5, data])])
        elif k == "mapping":
            if ini.get("cls") == "Row":
                steps.append(["mapping", rng.choice(["keys", "values", "items", "__len__"])])
        elif k == "call":
            if ini.get("cls") == "Row":
                steps.append([rng.choice(["_asdict", "count", "index"])])
                if steps[-1][0] != "_asdict":
                    steps[-1].append(rng.choice([1, "x", 9]))
        elif k == "pickle":
            if ini.get("cls") == "Row" and procs is None:
                steps.append(["pickle"])
        else:
            steps.append([k])
    return "row", ini, steps


def _gen_res(rng, mismatch=False):
    nk = rng.randint(1, 3)
    keys = ["a", "b", "c"][:nk]
    ini = {"keys": keys}
    if rng.random() < 0.55:
        ini["procs"] = [rng.choice(["none", "to_s", "add10", "neg", "raise_odd" if rng.random() < 0.3 else "add10", "null_to_s", "count"]) for _ in range(nk)]
    nr = rng.randint(0, 5)
    mk = lambda ln: [rng.choice([1, 2, 3, 4, 2, None]) for _ in range(ln)]
    rows = [mk(nk) for _ in range(nr)]
    if rng.random() < 0.3 and rows:
        rows.append(list(rows[0]))
    rng.shuffle(rows)
    if mismatch and rows:
        j = rng.randrange(len(rows))
        rows[j] = mk(nk + rng.choice([1, 2]))
    form = rng.choice(["T", "T", "T", "L"])
    ini["rows"] = [{"T": r} if form == "T" else r for r in rows]
    if rng.random() < 0.15:
        ini["chunked"] = rng.choice([1, 2, 3])
    if rng.random() < 0.15:
        ini["logrows"] = 1
    if rng.random() < 0.12 and nk == 1:
        ini["scalars_src"] = 1
        ini["rows"] = [r[0] for r in rows if len(r) == 1 and r[0] is not None]
        ini.pop("procs", None)
    steps = []
    for _ in range(rng.randint(0, 2)):
        k = rng.choice(["unique", "columns", "yield_per", "scalars", "mappings", "tuples"])
        if k == "columns":
            steps.append(["columns"] + [rng.choice(list(range(nk)) + keys) for _ in range(rng.randint(1, 2))])
        elif k == "yield_per":
            steps.append(["yield_per", rng.choice([1, 2, 5])])
        elif k == "scalars":
            steps.append(["scalars"] + ([rng.randrange(nk)] if rng.random() < 0.5 else []))
        else:
            steps.append([k])
        if k in ("scalars", "mappings"):
            break
    for _ in range(rng.randint(1, 4)):
        k = rng.choice(["all", "fetchall", "fetchone", "fetchmany", "first", "one", "one_or_none", "scalar", "scalar_one",
                        "scalar_one_or_none", "iter", "next", "partitions", "_raw_all_tuples", "keys_list", "close", "all"])
        last = steps[-1][0] if steps else ""
        if last in ("scalars", "mappings") or any(s[0] in ("scalars", "mappings") for s in steps):
            k = rng.choice(["all", "fetchall", "fetchmany", "first", "one", "one_or_none", "iter", "next", "partitions", "unique", "close"])
        if k == "fetchmany":
            steps.append(["fetchmany"] + ([rng.choice([0, 1, 2, 10])] if rng.random() < 0.8 else []))
        elif k == "partitions":
            steps.append(["partitions"] + ([rng.choice([1, 2])] if rng.random() < 0.8 or not any(s[0] == "yield_per" for s in steps) else []))
        elif k == "keys_list":
            steps.append(["keys"])
        elif k == "_raw_all_tuples":
            if not any(s[0] in ("unique", "scalars", "mappings") for s in steps):
                steps.append([k])
        else:
            steps.append([k])
    if not steps:
        steps = [["all"]]
    return "res", ini, steps


def _model_cases(rng, tier):
    cs = []
    n = 3 if tier == "quick" else 6

    def add(t, kind, **kw):
        c = {"in": t, "kind": kind}
        c.update(kw)
        cs.append(c)

    # 0 unique_list: all sequences over {0,1,2,unhashable} up to length 4, plus random
    alph = [0, 1, 2, [7]]
    for ln in range(0, 5):
        for tup in itertools.product(alph, repeat=ln):
            add([0, list(tup)], "m0")
    for _ in range(30 * n):
        add([0, [rng.choice([0, 1, 2, 3, 4, 5, [9]] if rng.random() < 0.2 else [0, 1, 2, 3, 4, 5]) for _ in range(rng.randint(0, 12))]], "m0")
    # 1/2 apply_processors
    for ln in range(0, 4):
        for ps in itertools.product([0, 1, 2, 3], repeat=ln):
            for dl in range(0, 5):
                data = [3 + 2 * i + (i % 2) for i in range(dl)]
                add([1, list(ps), data], "m1")
                if any(ps):
                    # rows shorter than the processors reach an unchecked read in the extension: not sent there
                    add([2, list(ps), data], "m2" if dl == ln else "m2-len", no_so=dl < ln)
    for _ in range(40 * n):
        ln = rng.randint(1, 6)
        ps = [rng.choice([0, 0, 1, 2, 4]) for _ in range(ln)]
        data = [rng.randint(-5, 9) for _ in range(ln)]
        add([1, ps, data], "m1")
        if any(ps):
            add([2, ps, data], "m2")
    # rows holding None at processed positions; processors that are NOT None-preserving (5) or only count calls (6):
    # every processor is applied to every value, None included
    for ln in range(1, 4):
        for ps in itertools.product([0, 5, 6, 1], repeat=ln):
            if not any(ps):
                continue
            for mask in range(1 << ln):
                data = [NONE_CODE if mask >> i & 1 else 4 + i for i in range(ln)]
                add([2, list(ps), data], "m2-none")
                if mask % 3 == 0:
                    add([1, list(ps), data], "m1-none")
    for k in (5, 6, 1):
        for rows in ([NONE_CODE], [2, NONE_CODE, 4], [NONE_CODE, NONE_CODE]):
            add([3, k, rows], "m3a")
            add([3, k, rows], "m3b")
    # 11 aliasing: build from a list, mutate the source, observe; mutate the result, observe the source
    for src in ([], [1], [1, 2, 3], [1, 1, 2], [3, 1, 3]):
        for mk in (1, 2):
            add([11, [[0, src], [mk, 0], [3, 0, 9], [5, 1], [5, 0]]], "m11")
            add([11, [[0, src], [mk, 0], [4 if mk == 2 else 3, 1, 8], [5, 0], [5, 1]]], "m11")
            add([11, [[0, src], [mk, 0], [mk, 0], [4 if mk == 2 else 3, 1, 7], [5, 2], [5, 0], [3, 0, 6], [5, 1], [5, 2]]], "m11")
    for _ in range(20 * n):
        ops = [[0, [rng.randint(0, 4) for _ in range(rng.randint(0, 4))]]]
        kinds = ["l"]
        for _ in range(rng.randint(2, 8)):
            r = rng.random()
            o = rng.randrange(len(kinds))
            if r < 0.3:
                lists = [i for i, k in enumerate(kinds) if k == "l"]
                mk = rng.choice([1, 2])
                ops.append([mk, rng.choice(lists)])
                kinds.append("l" if mk == 1 else "s")
            elif r < 0.6:
                ops.append([3 if kinds[o] == "l" else 4, o, rng.randint(0, 9)])
            else:
                ops.append([5, o])
        ops += [[5, i] for i in range(len(kinds))]
        add([11, ops], "m11")
    # 3 many_rows / interim_rows
    for k in (1, 2, 3, 4):
        for ln in range(0, 5):
            rows = [2 * i + (1 if i == ln - 1 and ln % 2 else 0) for i in range(ln)]
            add([3, k, rows], "m3a")
            add([3, k, rows], "m3b")
    for _ in range(40 * n):
        add([3, rng.choice([1, 2, 4]), [rng.randint(-4, 8) for _ in range(rng.randint(0, 9))]], rng.choice(["m3a", "m3b"]))
    # 4 BaseRow attribute access: exhaustive over a small universe
    NM = ["a", "_a", "", "ab", "b"]
    enc = lambda s: [ord(ch) for ch in s]
    for name in NM:
        for ca in ([], ["a"], ["ab", "_a"], ["b", "a"]):
            for k2i in ([], [["a", 0]], [["a", 1], ["_a", 0]], [["", 0], ["ab", []]], [["b", -1], ["a", 5]], [["a", []], ["b", -3]], [["ab", 1], ["ab", 0]]):
                for data in ([], [40, 41]):
                    add([4, [enc(x) for x in ca], [[enc(k), v] for k, v in k2i], data, enc(name)], "m4")
    # 5 anon_map: in range, and across the 2^32 boundary of the C counter (not possible on the extension)
    for _ in range(30 * n):
        ops = [[rng.choice([0, 1]), rng.randint(0, 5)] for _ in range(rng.randint(0, 9))]
        ops = [[o, k if o == 0 else 100 + k] for o, k in ops]
        add([5, rng.choice([0, 0, 0, 7, 2**32 - 40]), ops], "m5")
    for _ in range(6 * n):
        ops = [[rng.choice([0, 1]), rng.randint(0, 7)] for _ in range(rng.randint(3, 9))]
        ops = [[o, k if o == 0 else 100 + k] for o, k in ops]
        add([5, 2**32 - rng.randint(1, 3), ops], "m5-wrap")
    # 7/8 OrderedSet.insert / __getitem__
    for l in ([], [1], [1, 2, 3]):
        for pos in list(range(-5, 6)) + [S63 - 1, -S63, S63, -S63 - 1, 2**70]:
            for x in (1, 9):
                add([7, l, pos, x], "m7" if -S63 <= pos < S63 else "m7-range")
            add([8, l, pos], "m8" if -S63 <= pos < S63 else "m8-range")
    # 9 tuplegetter
    for ln in range(0, 4):
        for tup in itertools.product([0, 1, 2, -1], repeat=ln):
            add([9, list(tup)], "m9")
    for idx in ([S63, S63 + 1], [1, S63], [S63], [S63 - 1, -S63], [5, -S63], [-S63, -S63 + 1], [S63 - 2, S63 - 1], [0, 1, 2**64]):
        ok = all(-S63 < i < S63 for i in idx) or len(idx) == 1
        add([9, idx], "m9" if ok else "m9-range")
    for _ in range(20 * n):
        a = rng.randint(-3, 50)
        ln = rng.randint(2, 5)
        idx = [a + i for i in range(ln)]
        if rng.random() < 0.4:
            idx[rng.randrange(ln)] += rng.choice([1, -1, 2])
        add([9, idx], "m9")
    # 10 immutabledict: PyDict_Update vs dict.update
    for _ in range(30 * n):
        a = [[k, rng.randint(0, 9)] for k in rng.sample(range(6), rng.randint(0, 4))]
        b = [[k, rng.randint(0, 9)] for k in rng.sample(range(6), rng.randint(0, 4))]
        add([10, a, b], "m10")
    return cs


def _edge_cases():
    """inputs outside the declared C / exact types: each belongs to a known, recorded divergence"""
    cs = []
    k = [5000]

    def add(fam, init, steps, **kw):
        k[0] += 1
        c = _surface(k[0], fam, init, steps, **kw)
        c["kind"] = "edge-" + fam
        cs.append(c)

    for pos in ({"P": [2, 63, 0]}, {"P": [-2, 63, -1]}, None, "a", {"FLOAT": 1.0}):
        add("os", [1, 2, 3], [["insert", pos, 1], ["list"]])
        add("os", [1, 2, 3], [["insert", pos, 9], ["list"]])
    for key in ({"SL": [0, 2, None]}, {"SL": [None, None, None]}, {"P": [2, 63, 0]}, {"P": [-2, 63, -1]}, {"FLOAT": 1.0}, True, {"INTSUB": 1}):
        add("os", [1, 2, 3], [["getitem", key]])
    for key in (5, None, {"STRSUB": "1 a"}, {"T": ["1 a"]}, {"BYTES": "1 a"}):
        add("pam", _NOINIT, [["getitem", key], ["getitem", "2 a"]])
    for ty, sc in (("meta", 2), ("Decimal", "2"), ("Decimal", None), ("Decimal", True), ("Decimal", {"INTSUB": 2}), ("Decimal", {"FLOAT": 2.0})):
        add("fn", _NOINIT, [["to_decimal", {"TYPE": ty}, sc, {"FLOAT": 1.5}]])
    add("fn", _NOINIT, [["to_decimal", None, 2, 1]])
    for idx in ([{"P": [2, 63, 0]}, {"P": [2, 63, 1]}], [1, {"P": [2, 63, 0]}], [{"P": [2, 63, -1]}, {"P": [-2, 63, 0]}], ["a", "b"], [None, 1], [{"FLOAT": 1.0}, {"FLOAT": 2.0}], [True, 2]):
        add("fn", _NOINIT, [["tuplegetter_form", idx]])
    add("row", {"data": {"G": [1, 2]}, "procs": ["to_s", "none"], "k2i": []}, [["list"]])
    add("row", {"data": {"G": [1, 2]}, "k2i": []}, [["list"]])
    # rows whose length differs from the number of processors, after the first row
    add("res", {"keys": ["a", "b"], "procs": ["none", "to_s"], "rows": [{"T": [1, 2]}, {"T": [3, 4, 5]}]}, [["all"]])
    add("res", {"keys": ["a", "b"], "procs": ["none", "to_s"], "rows": [{"T": [1, 2, 3]}, {"T": [3, 4]}]}, [["_raw_all_tuples"]])
    # this one IS sent to the extension: it reads past the end of the 1-tuple (boundscheck(False)) and usually dies
    add("res", {"keys": ["a", "b"], "procs": ["to_s", "none"], "rows": [{"T": [1, 2]}, {"T": [3]}]}, [["all"]])
    add("res", {"keys": ["a", "b"], "procs": ["none", "to_s"], "rows": [{"T": [1]}]}, [["_raw_all_tuples"]], no_so=True)
    return cs


def gen_cases(rng, tier):
    cases = _model_cases(rng, tier)
    cases += _edge_cases()
    n = 200 if tier == "quick" else 3000
    gens = [_gen_os, _gen_os, _gen_ids, _gen_ids, _gen_imm, _gen_fn, _gen_fn, _gen_am, _gen_row, _gen_row, _gen_res, _gen_res, _gen_res]
    serial = 0
    for g in gens:
        for _ in range(n):
            serial += 1
            fam, init, steps = g(rng)
            cases.append(_surface(serial, fam, init, steps))
    for _ in range(n // 4):
        serial += 1
        fam, init, steps = _gen_res(rng, mismatch=True)
        cases.append(_surface(serial, fam, init, steps, no_so=True))
        cases[-1]["kind"] = "s-res-rowlen"
    return cases


def nontrivial(c):
    if "prog" in c:
        return len(c["prog"].get("steps", [])) >= 2
    t = c["in"]
    return len(json.dumps(t)) > 14


# ====================================================================================================
# T1: extraction of every `if cython.compiled:` site and every C-typed name; source pin
# ====================================================================================================
# model pair a site belongs to (0 = C declarations / cimports only)
SITE_PAIR = {
    (0, "unique_list"): 1, (0, ""): 7, (1, ""): 10, (3, ""): 0, (3, "BaseResultInternal._row_getter"): 4,
    (3, "@_apply_processors"): 3, (4, "BaseRow"): 5, (4, "BaseRow._set_attrs"): 5, (4, "@_apply_processors"): 2,
    (6, ""): 7, (6, "anon_map"): 6,
}
CTYPE_CODE = {"Py_ssize_t": 1, "Py_hash_t": 2, "uint": 3, "ulonglong": 4, "bint": 5, "char": 6}


def _is_cc(t):
    return isinstance(t, ast.Attribute) and t.attr == "compiled" and isinstance(t.value, ast.Name) and t.value.id == "cython"


def extract(repo):
    """-> (sites, ctypes, pinned text).  sites: [(module index, scope qualname, defined names)]"""
    from translate import fingerprint

    sites, ctypes, pin = [], [], []
    for mi, rel in enumerate(CY_FILES):
        with open(os.path.join(repo, rel)) as f:
            tree = ast.parse(f.read())

        def walk(node, path):
            for ch in ast.iter_child_nodes(node):
                p = path + [ch.name] if isinstance(ch, (ast.FunctionDef, ast.ClassDef)) else path
                if isinstance(ch, ast.If) and _is_cc(ch.test):
                    names = []
                    for s in ch.body + ch.orelse:
                        if isinstance(s, (ast.FunctionDef, ast.ClassDef)):
                            names.append(s.name)
                    scope = ".".join(path)
                    if not path and "_apply_processors" in names:
                        scope = "@_apply_processors"
                    sites.append((mi, scope, bool(ch.orelse)))
                    node2 = fingerprint._Strip().visit(ast.parse(ast.unparse(ch)))
                    pin.append("### %s :: if cython.compiled @ %s\n%s\n" % (rel, scope or "<module>", ast.unparse(node2)))
                if isinstance(ch, ast.FunctionDef):
                    for a in ch.args.posonlyargs + ch.args.args:
                        t = _cyt(a.annotation) if a.annotation is not None else None
                        if t in CTYPE_CODE:
                            ctypes.append((mi, ".".join(p) + "." + a.arg, CTYPE_CODE[t]))
                    for d in ch.decorator_list:
                        if isinstance(d, ast.Call) and _cyt(d.func) == "locals":
                            for kw in d.keywords:
                                if _cyt(kw.value) in CTYPE_CODE:
                                    ctypes.append((mi, ".".join(p) + "." + kw.arg, CTYPE_CODE[_cyt(kw.value)]))
                if isinstance(ch, ast.AnnAssign) and _cyt(ch.annotation) in CTYPE_CODE and isinstance(ch.target, ast.Name):
                    ctypes.append((mi, ".".join(path) + "." + ch.target.id, CTYPE_CODE[_cyt(ch.annotation)]))
                walk(ch, p)

        walk(tree, [])
    return sites, ctypes, "\n".join(pin)


ANCHORS = [
    ("lib/sqlalchemy/util/_collections_cy.py", "unique_list"),
    ("lib/sqlalchemy/util/_collections_cy.py", "OrderedSet.insert"),
    ("lib/sqlalchemy/util/_collections_cy.py", "OrderedSet.__getitem__"),
    ("lib/sqlalchemy/util/_immutabledict_cy.py", "immutabledict._union_other"),
    ("lib/sqlalchemy/engine/_result_cy.py", "BaseResultInternal._row_getter"),
    ("lib/sqlalchemy/engine/_row_cy.py", "BaseRow"),
    ("lib/sqlalchemy/engine/_util_cy.py", "_is_contiguous"),
    ("lib/sqlalchemy/engine/_util_cy.py", "tuplegetter"),
    ("lib/sqlalchemy/sql/_util_cy.py", "prefix_anon_map"),
    ("lib/sqlalchemy/sql/_util_cy.py", "anon_map"),
    ("lib/sqlalchemy/engine/result.py", "ResultMetaData._effective_processors"),
]


def pin_check(repo):
    from translate import fingerprint

    cur = fingerprint.current(repo, ANCHORS) + "\n" + extract(repo)[2]
    pfile = os.path.join(fingerprint.HERE, "pinned", "C55.txt")
    if os.environ.get("VERIF_PIN") == "1":
        with open(pfile, "w") as f:
            f.write(cur)
        return
    with open(pfile) as f:
        old = f.read()
    if old != cur:
        import difflib

        d = "\n".join(difflib.unified_diff(old.split("\n"), cur.split("\n"), "modelled", "current", lineterm="", n=2))
        raise fingerprint.TranslateError("anchored source differs from what the model transcribes (C55):\n%s" % d[:2500])


def _coq_str(s):
    """a name packed into one integer literal (lists of code points make Coq's elaboration of the table slow)"""
    return str(int.from_bytes(s.encode("ascii"), "big"))


def translate(repo, outdir):
    sites, ctypes, _ = extract(repo)
    rows = []
    for mi, scope, has_else in sites:
        if (mi, scope) not in SITE_PAIR:
            raise RuntimeError("an `if cython.compiled:` site the model has no pair for: %s @ %s" % (CY_FILES[mi], scope or "<module>"))
        rows.append("(%d, %s, %d)" % (mi, _coq_str(scope), SITE_PAIR[(mi, scope)]))
    crow = ["(%d, %s, %d)" % (mi, _coq_str(q), c) for mi, q, c in ctypes]
    src = (
        "(* generated on every run by specs/c55.py from the current source - do not edit *)\n"
        "From Coq Require Import List ZArith Bool.\nImport ListNotations.\n"
        "From SAV.cy Require Import Dual DualSites.\nOpen Scope Z_scope.\n\n"
        "Definition gen_sites : list site := [\n  %s\n].\n"
        "Definition gen_ctypes : list site := [\n  %s\n].\n\n"
        "(* every pair site of the current source is one the development proves a branch_equiv theorem for,\n"
        "   none is missing, and the C types of the typed names are the ones the model's ranges assume *)\n"
        "Lemma gen_sites_ok : sites_eqb gen_sites known_sites = true.\nProof. vm_compute; reflexivity. Qed.\n"
        "Lemma gen_ctypes_ok : sites_eqb gen_ctypes known_ctypes = true.\nProof. vm_compute; reflexivity. Qed.\n"
        "Lemma gen_pairs_covered : forallb (fun s : site => existsb (Z.eqb (snd s)) proved_pairs) gen_sites = true.\n"
        "Proof. vm_compute; reflexivity. Qed.\n"
    ) % (";\n  ".join(rows), ";\n  ".join(crow))
    p = os.path.join(outdir, "Gen_C55.v")
    with open(p, "w") as f:
        f.write(src)
    return [p]


# ====================================================================================================
# Known findings: divergences for arguments outside the declared C / exact types
# ====================================================================================================
def _outside_ssize(v):
    """value spec that is not an int-like in the Py_ssize_t range"""
    if isinstance(v, bool):
        return False
    if isinstance(v, int):
        return not -S63 <= v < S63
    if isinstance(v, dict):
        if "P" in v:
            x = v["P"][0] ** v["P"][1] + v["P"][2]
            return not -S63 <= x < S63
        if "INTSUB" in v:
            return False
        return True
    return True


def match_finding(c, what):
    import re

    m = re.match(r"DIFF step=(-?\d+) op=(.*?) :: ", what)
    if not m:
        return None
    k = int(m.group(1))
    if "prog" not in c:
        t = c["in"]
        op = t[0]
        if op == 2 and len(t[2]) != len(t[1]):
            return "C55-result-row-length"
        if op == 5 and t[1] + len(t[2]) >= 2**32:
            return "C55-anon-map-uint-wrap"
        if op == 7 and _outside_ssize(t[2]) and t[3] in t[1]:
            return "C55-orderedset-insert-eager-pos"
        if op == 8 and _outside_ssize(t[2]):
            return "C55-orderedset-getitem-index-type"
        if op == 9 and len(t[1]) > 1 and any(not -S63 < i < S63 for i in t[1]):
            return "C55-tuplegetter-ssize"
        return None
    prog = c["prog"]
    fam = prog["fam"]
    steps = prog.get("steps", [])
    st = steps[k] if 0 <= k < len(steps) else None
    if fam == "os" and st:
        if st[0] == "insert" and (_outside_ssize(st[1]) or isinstance(st[1], dict) and "FLOAT" in st[1]):
            return "C55-orderedset-insert-eager-pos"
        if st[0] == "getitem" and (_outside_ssize(st[1])):
            return "C55-orderedset-getitem-index-type"
    if fam in ("pam", "am", "immbase") and st and st[0] in ("pickle", "copy", "reduce"):
        return "C55-cython-auto-pickle"
    if fam == "pam" and st and st[0] in ("getitem",) and not isinstance(st[1], str):
        return "C55-exact-argument-types"
    if fam == "fn" and st:
        if st[0] == "to_decimal" and (st[1] != {"TYPE": "Decimal"} and st[1] != {"TYPE": "str"} and st[1] != {"TYPE": "float"} or not (isinstance(st[2], int) and not isinstance(st[2], bool))):
            return "C55-exact-argument-types"
        if st[0] in ("tuplegetter_form", "tuplegetter") and len(st[1]) > 1 and any(
            isinstance(i, bool) or not isinstance(i, int) or not -S63 < i < S63 for i in st[1]
        ):
            return "C55-tuplegetter-ssize"
    if fam == "row" and k == -1 and prog["init"].get("procs") is not None and isinstance(prog["init"]["data"], dict) and "G" in prog["init"]["data"]:
        return "C55-baserow-unsized-data"
    if fam == "res":
        ini = prog["init"]
        if ini.get("procs") is not None and any(p != "none" for p in ini["procs"]):
            n = len(ini["procs"])
            lens = [len(r["T"]) if isinstance(r, dict) else len(r) for r in ini["rows"] if isinstance(r, (dict, list))]
            if any(x != n for x in lens):
                return "C55-result-row-length"
    return None


if __name__ == "__main__":
    if len(sys.argv) >= 3 and sys.argv[1] == "worker":
        _worker_main(sys.argv[2])
