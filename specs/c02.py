"""C02 - the compiled-statement cache is transparent."""
import ast
import glob
import inspect
import os
import re
import textwrap

ID = "C02"
LEVEL = "proof"
PROPS = "props/C02.v"
RUNNER = ("Gen.Gen_C02", "run_case")
STATIC_MODULES = ["SAV.sql.CacheKeyRun", "SAV.sql.CacheKeyMain", "SAV.sql.CacheKeyRef", "SAV.sql.CacheKeyTypes"]

RULE = (
    "PAIRS: generated Core statement families (select with operators/functions/CASE/CAST/OVER/IN/EXISTS/labels/"
    "ORDER/LIMIT/DISTINCT/GROUP BY, joins, subqueries, CTEs, set operations, VALUES, text(), INSERT/UPDATE/DELETE with "
    "RETURNING and ON CONFLICT) and a few ORM ones (entities, joins, loader options), each pair differing in exactly "
    "one constructor argument of a random base (every coordinate x every alternative value). The implementation's "
    "object graph is encoded generically (attributes named by _traverse_internals and by the compiler read-set, "
    "labels = the anon_map indices) and the model must reproduce: cacheable?, key equality, the extracted bind "
    "parameters in order, the traversal order. HISTORIES: random sequences (6..14 executions) of structurally "
    "similar and dissimilar statements against ONE SQLite engine with query_cache_size 500 / 2 / 1, steps with "
    "compiled_cache=None mixed in; the model (LRU bookkeeping + construct_params re-binding) must reproduce "
    "hit/miss/direct and the parameter values of every step. Oracle (direct statement of the property): equal "
    "keys => identical SQL text, bind types and cross-applied parameters; every cached execution = the same "
    "execution with compiled_cache=None (cursor text, cursor parameters, rows). non-trivial = the two statements "
    "differ / the history contains a cache hit on a statement with different literals"
)
TRUSTED = [
    "T (what each class's cache key records): obtained on every run by calling the real "
    "HasCacheKey._generate_cache_attrs of every HasCacheKey subclass with _CacheKeyTraversal.generate_dispatch hooked "
    "(so inherit_cache / _cache_key_traversal / _traverse_internals resolution is the code's own); handler symbols are "
    "mapped to 5 shapes by METHOD_SHAPE (hand table; an unknown handler fails closed); classes overriding "
    "_gen_cache_key: BindParameter (key attributes = AST self-loads of its _gen_cache_key), Table (identity), "
    "FunctionAsBinary (delegates), the rest (_OverrideBinds, LambdaElement, Bundle, Mapper, CacheableOptions, PathToken) "
    "are OPAQUE: outside the model, their real key is used as one atom",
    "V (what the compiler reads): SYNTACTIC scan of attribute loads on the element parameter of every "
    "SQLiteCompiler/SQLCompiler visit_* method, following self.helper(elem) calls two levels deep, plus loads on "
    "names statement/stmt/... in SelectState, CompoundSelectState, DMLState & subclasses and sql/crud.py. "
    "getattr(elem, <non-constant>) is flagged and fails closed, NOT followed; reads through other variables "
    "(compile_state.*, aliases of the element, dialect compilers other than SQLite's) are not seen",
    "hand-maintained tables DERIVED (property -> underlying keyed attributes), IGNORED (read but cannot change the "
    "SQLite statement text / parameter types; each with a reason), METHODS_OK (methods called on the element), "
    "LITERAL (bind values), GAPS (known uncovered reads, each backed by a KNOWN-FINDING witness) in specs/c02.py",
    "class constants are recognised automatically: the attribute is a plain class-level value and no assignment to an "
    "attribute of that name exists anywhere under lib/sqlalchemy",
    "the generic object-graph encoder in specs/c02.py (values -> atoms interned by Python ==/hash, or element "
    "structures; tuples and dict entries become pseudo objects); the SQL text is NOT modelled: the compiler is an "
    "arbitrary function of the view in the theorems, and in the history correspondence the positional order of the "
    "bind parameters of each compilation is taken from the implementation",
    "hand transcription of _gen_cache_key / the generated dispatcher / BindParameter._gen_cache_key / "
    "_compile_w_cache / construct_params(extracted_parameters) / LRUCache bookkeeping (pinned normalised source)",
]
ASSUMPTIONS = [
    "equal labels denote one object (checked on every encoded statement through wf: un-pruned key = projection, "
    "extracted binds = the binds found under their label, every keyed bind extracted)",
    "the compiler does not distinguish falsy values (None/False/0/''/empty) of an attribute - the key skips them",
    "a type's compile-time behaviour is a function of its _static_cache_key; a Table's of its identity",
    "the compiler only emits parameters for bind parameters it visited (holes subset of the view's binds)",
    "_cache_key_bind_match one-to-many matching of cloned binds (DML) and execution-time parameter dictionaries are "
    "not in the model (covered by the execution oracle only)",
]
LEVEL_TEXT = (
    "Coq proof over a Gallina transcription of cache-key generation (anon_map pruning, bind extraction), the compiled "
    "cache and construct_params re-binding: (1) for EVERY per-class table T and compiler read-set V with covers T V = "
    "true, equal keys imply equal compiler views for every compiler function, and extracted parameters line up; "
    "(2) for EVERY history, every eviction policy and every reachable cache state, cached execution = direct "
    "execution (text and parameter values in order), by induction with the invariant 'every entry under key k is the "
    "compilation of a statement with key k'. Per run: T and V are regenerated from the running source and "
    "covers gen_T (gen_V minus known gaps) = true is re-proved by vm_compute. Two refuted/guarded pairs: "
    "Label.type is read by the compiler but not keyed; construct_params consults the cached bind's callable."
)
LEVEL_NOTE = (
    "partial: the read-set V is a SYNTACTIC analysis (dynamic getattr flagged, not followed; reads via compile_state "
    "objects beyond the listed roots, and dialect compilers other than SQLite's, are not seen); DERIVED/IGNORED are "
    "hand-curated; ORM compile-state caching, lambda statements, _OverrideBinds and executemany/insertmanyvalues are "
    "covered by the execution oracle only; SQL text generation itself is abstract in the theorems."
)
TECHNIQUE = (
    "Coq proof (nested induction over object trees, history invariant) + per-run reflective table check over tables "
    "regenerated by runtime introspection and AST scan + model/impl correspondence + cached-vs-uncached execution oracle"
)

ANCHORS = [
    ("lib/sqlalchemy/sql/cache_key.py", "HasCacheKey._generate_cache_attrs"),
    ("lib/sqlalchemy/sql/cache_key.py", "HasCacheKey._gen_cache_key"),
    ("lib/sqlalchemy/sql/cache_key.py", "HasCacheKey._generate_cache_key"),
    ("lib/sqlalchemy/sql/cache_key.py", "_CacheKeyTraversal._generate_dispatcher"),
    ("lib/sqlalchemy/sql/elements.py", "BindParameter._gen_cache_key"),
    ("lib/sqlalchemy/sql/schema.py", "Table._gen_cache_key"),
    ("lib/sqlalchemy/sql/elements.py", "ClauseElement._compile_w_cache"),
    ("lib/sqlalchemy/sql/compiler.py", "SQLCompiler.construct_params"),
    ("lib/sqlalchemy/engine/default.py", "DefaultExecutionContext._init_compiled"),
    ("lib/sqlalchemy/sql/type_api.py", "TypeEngine._static_cache_key"),
    ("lib/sqlalchemy/util/langhelpers.py", "get_cls_kwargs"),
    ("lib/sqlalchemy/util/_collections.py", "LRUCache.get"),
    ("lib/sqlalchemy/util/_collections.py", "LRUCache.__setitem__"),
    ("lib/sqlalchemy/util/_collections.py", "LRUCache._manage_size"),
]

# =====================================================================================================
# T1: tables regenerated from the running source
# =====================================================================================================
H_SKIP, H_TRUTHY, H_NOTNONE, H_KIDS, H_NOCACHE = "HSkip", "HTruthy", "HNotNone", "HKids", "HNoCache"

# handlers that remain methods of _CacheKeyTraversal: how they treat the attribute
METHOD_SHAPE = {
    "visit_has_cache_key_list": H_KIDS, "visit_has_cache_key_tuples": H_KIDS, "visit_clauseelement_tuples": H_KIDS,
    "visit_executable_options": H_KIDS, "visit_inspectable_list": H_KIDS, "visit_inspectable": H_KIDS,
    "visit_fromclause_ordered_set": H_KIDS, "visit_clauseelement_unordered_set": H_KIDS,
    "visit_prefix_sequence": H_KIDS, "visit_setup_join_tuple": H_KIDS, "visit_table_hint_list": H_KIDS,
    "visit_string_clauseelement_dict": H_KIDS, "visit_string_multi_dict": H_KIDS,
    "visit_fromclause_canonical_column_collection": H_KIDS, "visit_dml_ordered_values": H_KIDS,
    "visit_dml_values": H_KIDS, "visit_multi": H_KIDS, "visit_multi_list": H_KIDS,
    "visit_plain_dict": H_TRUTHY, "visit_dialect_options": H_TRUTHY, "visit_string_list": H_TRUTHY,
    "visit_compile_state_funcs": H_TRUTHY, "visit_named_ddl_element": H_TRUTHY,
    "visit_unknown_structure": H_NOCACHE, "visit_dml_multi_values": H_NOCACHE, "visit_params": H_SKIP,
}
OPAQUE_OWNERS = {
    "sqlalchemy.sql.elements._OverrideBinds", "sqlalchemy.sql.lambdas.LambdaElement", "sqlalchemy.orm.util.Bundle",
    "sqlalchemy.orm.mapper.Mapper", "sqlalchemy.sql.base.CacheableOptions", "sqlalchemy.orm.path_registry.PathToken",
}
RESERVED_ATTRS = ["__self__", "value", "callable", "effective_value"]  # ids 0..3 (coq/sql/CacheKey.v)
TUPLE_ATOM0, TUPLE_KID0, TUPLE_W = 100, 110, 10  # pseudo class 0: positional attributes
ATTR0 = 200

# ---- hand-maintained tables (TRUSTED) --------------------------------------------------------------
# (visit name, attribute) -> keyed attributes it is computed from
DERIVED = {
    ("label", "element"): ["_element"],
    ("binary", "left"): ["sql_function", "left_index"],      # FunctionAsBinary (keyed directly elsewhere)
    ("binary", "right"): ["sql_function", "right_index"],
    ("values", "_unnamed"): ["name"],
    ("select", "_all_selected_columns"): ["_raw_columns", "_from_obj", "_setup_joins", "_memoized_select_entities"],
    ("select", "_has_row_limiting_clause"): ["_limit_clause", "_offset_clause", "_fetch_clause"],
    ("compound_select", "_has_row_limiting_clause"): ["_limit_clause", "_offset_clause", "_fetch_clause"],
    ("select", "_effective_plugin_target"): ["_propagate_attrs"],
    ("insert", "_all_selected_columns"): ["_returning"],
    ("update", "_all_selected_columns"): ["_returning"],
    ("delete", "_all_selected_columns"): ["_returning"],
    ("column", "_tq_label"): ["name", "table"],
    ("type_coerce", "typed_expression"): ["clause", "type"],
    ("textual_label_reference", "_text_clause"): ["element"],
    ("scalar_values", "_column_types"): ["_column_args"],
    ("values", "_column_types"): ["_column_args"],
    ("values", "columns"): ["_column_args", "name"],
    ("alias", "c"): ["element", "name"],
}
# (visit name, attribute) -> why the read cannot change the SQLite statement text / parameter types
IGNORED = {
    ("bindparam", "_cloned_set"): "identity bookkeeping (name-conflict detection, cache key bind match)",
    ("bindparam", "proxy_set"): "identity bookkeeping (name-conflict detection)",
    ("bindparam", "_is_crud"): "set only on binds the compiler itself creates",
    ("bindparam", "unique"): "name anonymisation happened at construction (key is keyed); here it only guards a CompileError",
    ("bindparam", "isoutparam"): "sets Compiled.has_out_parameters (Oracle OUT parameters); no text/type effect, not observable on SQLite",
    ("label", "_alt_names"): "result-map alternative names: result column lookup, not text",
    ("binary", "sql_function"): "only FunctionAsBinary has it (keyed there)",
    ("binary", "operator"): "consulted only where not keyed: FunctionAsBinary, where it is the constant function_as_binary_op",
    ("binary", "type"): "consulted only where not keyed: FunctionAsBinary, where it is always Boolean",
    ("alias", "_render_derived"): "set only by TableValuedAlias.render_derived (keyed there); class constant False on Alias",
    ("alias", "_render_derived_w_types"): "set only by TableValuedAlias.render_derived (keyed there); class constant False on Alias",
    ("table_valued_alias", "joins_implicitly"): "switches the FROM linter (cartesian product warning) off; no text effect",
    ("column", "key"): "result-map key; text uses name",
    ("unary", "_is_implicitly_boolean"): "class constant of the element class (cls is keyed); assigned only in subclass bodies",
    ("function", "_has_args"): "computed in the constructor from clause_expr (keyed)",
    ("function", "sequence"): "next_value only (keyed there)",
    ("textual_select", "positional"): "TextualSelect positional column matching affects result map only",
    ("table_valued_alias", "_is_lateral"): "class constant overridden only by the Lateral subclass (cls is keyed)",
    ("values", "_is_lateral"): "class constant overridden only by the Lateral subclass (cls is keyed)",
    ("alias", "_is_lateral"): "class constant overridden only by the Lateral subclass (cls is keyed)",
    ("cte", "_is_clone_of"): "clone bookkeeping used to find the CTE already rendered",
    ("table", "fullname"): "Table is keyed by identity; TableClause.fullname is computed from name and schema (keyed)",
    ("insert", "_where_criteria"): "crud helper shared with UPDATE/DELETE; attribute not present on Insert",
    ("update", "_multi_values"): "crud helper shared with INSERT; attribute not present on Update",
    ("update", "_select_names"): "crud helper shared with INSERT; attribute not present on Update",
    ("update", "_sort_by_parameter_order"): "crud helper shared with INSERT; attribute not present on Update",
    ("update", "include_insert_from_select_defaults"): "crud helper shared with INSERT; attribute not present on Update",
    ("update", "select"): "crud helper shared with INSERT; attribute is None on Update",
    ("delete", "_inline"): "crud helper shared with INSERT/UPDATE; attribute not present on Delete",
    ("delete", "_post_values_clause"): "crud helper shared with INSERT; attribute not present on Delete",
    ("delete", "_return_defaults"): "crud helper shared with INSERT/UPDATE; attribute not present on Delete",
    ("delete", "_return_defaults_columns"): "crud helper shared with INSERT/UPDATE; attribute not present on Delete",
    ("delete", "_select_names"): "crud helper shared with INSERT; attribute not present on Delete",
    ("delete", "_sort_by_parameter_order"): "crud helper shared with INSERT; attribute not present on Delete",
    ("delete", "_values"): "crud helper shared with INSERT/UPDATE; attribute not present on Delete",
    ("delete", "include_insert_from_select_defaults"): "crud helper shared with INSERT; attribute not present on Delete",
    ("delete", "select"): "crud helper shared with INSERT; attribute not present on Delete",
    ("insert", "_supplemental_returning"): "set by the ORM bulk persistence on a private copy at execution time; None on user statements",
    ("update", "_supplemental_returning"): "set by the ORM bulk persistence on a private copy at execution time; None on user statements",
    ("delete", "_supplemental_returning"): "set by the ORM bulk persistence on a private copy at execution time; None on user statements",
}
METHODS_OK = {
    "_clone", "_de_clone", "_deannotate", "compare", "_get_reference_cte", "_get_method", "_simple_int_clause",
    "subquery", "_generate_columns_plus_names", "_iterate_from_elements",
}
# reads of a specific class that reaches a shared visit method but leaves it early
IGNORED_CLASS = {
    ("sqlalchemy.sql.functions.next_value", a): "visit_function dispatches to visit_next_value_func(func.sequence) before reading it"
    for a in ("_with_ordinality", "clause_expr", "name", "packagenames", "type")
}
# the bind values: what the re-binding carries, not part of the text ("*": any visit name)
LITERAL = {("bindparam", "value"), ("bindparam", "callable"), ("bindparam", "effective_value"), ("*", "_params")}
# known uncovered reads (each has a KNOWN-FINDING witness)
# (bindparam.expanding, select._auto_correlate, insert.include_insert_from_select_defaults were gaps until the
#  repairs f7c5c02 / 23e322e / 3e6ec7b put them into the keys; their witnesses stay in findings/C02.json as "fixed")
GAPS = {
    ("label", "type"): "C02-label-type-not-in-key",
    ("bindparam", "required"): "C02-bindparam-required-not-in-key",   # read by construct_params off the CACHED bind
}
# a gap attribute is encoded relative to its default (None = default), so that "gap-free" means "default everywhere"
GAP_DEFAULT = {("bindparam", "required"): False}

STMT_NAMES = {"statement", "stmt", "select_statement", "insert_stmt", "update_stmt", "delete_stmt"}
EXTRA_ROOTS = {
    "select": [("sqlalchemy.sql.selectable", "SelectState"), ("sqlalchemy.sql.base", "CompileState")],
    "compound_select": [("sqlalchemy.sql.selectable", "CompoundSelectState")],
    "insert": [("sqlalchemy.sql.dml", "DMLState"), ("sqlalchemy.sql.dml", "InsertDMLState"), ("sqlalchemy.sql.crud", None)],
    "update": [("sqlalchemy.sql.dml", "DMLState"), ("sqlalchemy.sql.dml", "UpdateDMLState"), ("sqlalchemy.sql.crud", None)],
    "delete": [("sqlalchemy.sql.dml", "DMLState"), ("sqlalchemy.sql.dml", "DeleteDMLState"), ("sqlalchemy.sql.crud", None)],
}
# further functions that read attributes of an element through a local name: (module, class, function, names)
EXTRA_NAMED_ROOTS = {
    "bindparam": [("sqlalchemy.sql.compiler", "SQLCompiler", "construct_params", {"bindparam", "value_param"})],
}
MERGE_SUFFIX = [("_binary", "binary"), ("_unary_operator", "unary"), ("_unary_modifier", "unary"), ("_func", "function")]


def _subs(c, acc, seen):
    for s in c.__subclasses__():
        if s not in seen:
            seen.add(s)
            acc.append(s)
            _subs(s, acc, seen)
    return acc


def _fn_ast(fn):
    return ast.parse(textwrap.dedent(inspect.getsource(fn))).body[0]


def _self_loads(fnode, pname):
    out = []
    for node in ast.walk(fnode):
        if isinstance(node, ast.Attribute) and isinstance(node.value, ast.Name) and node.value.id == pname and isinstance(node.ctx, ast.Load):
            if node.attr not in out:
                out.append(node.attr)
    return out


def _import_everything():
    import sqlalchemy  # noqa
    import sqlalchemy.orm  # noqa
    import sqlalchemy.dialects.mysql  # noqa
    import sqlalchemy.dialects.postgresql  # noqa
    import sqlalchemy.dialects.sqlite  # noqa
    import sqlalchemy.ext.hybrid  # noqa


def gather_T():
    """what every HasCacheKey class puts into its cache key, as the running code decides it"""
    import warnings

    _import_everything()
    from sqlalchemy.sql import cache_key as ck
    from sqlalchemy.sql.cache_key import NO_CACHE, CacheTraverseTarget, HasCacheKey
    from sqlalchemy.sql.visitors import InternalTraversal

    vis = ck._cache_key_traversal_visitor
    classes = [c for c in _subs(HasCacheKey, [], set()) if c.__module__.startswith("sqlalchemy.")]
    captured = {}
    orig = vis.generate_dispatch

    def hook(target_cls, internal_dispatch, name):
        captured[target_cls] = list(internal_dispatch)
        return orig(target_cls, internal_dispatch, name)

    vis.generate_dispatch = hook
    out = []

    def normal(c, ent):
        captured.pop(c, None)
        with warnings.catch_warnings():
            warnings.simplefilter("ignore")
            r = c._generate_cache_attrs()
        if r is NO_CACHE:
            ent["kind"] = "nocache"
            return
        if c not in captured:
            raise RuntimeError("no traversal captured for %s" % c)
        fields = []
        for attrname, sym in captured[c]:
            meth = vis.dispatch(sym)
            if meth is None:
                shape = H_SKIP
            elif meth is ck.CALL_GEN_CACHE_KEY:
                shape = H_KIDS
            elif meth is ck.STATIC_CACHE_KEY or meth is ck.ANON_NAME:
                shape = H_NOTNONE
            elif meth is ck.CACHE_IN_PLACE or meth is ck.PROPAGATE_ATTRS or meth is InternalTraversal.dp_annotations_key:
                shape = H_TRUTHY
            elif meth in (InternalTraversal.dp_clauseelement_list, InternalTraversal.dp_clauseelement_tuple, InternalTraversal.dp_memoized_select_entities):
                shape = H_KIDS
            elif isinstance(meth, (CacheTraverseTarget, InternalTraversal)):
                raise RuntimeError("no rule for cache key symbol %r" % (meth,))
            else:
                nm = meth.__name__
                if nm not in METHOD_SHAPE:
                    raise RuntimeError("unknown cache key handler method %s" % nm)
                shape = METHOD_SHAPE[nm]
            if any(f[0] == attrname for f in fields):
                raise RuntimeError("%s: attribute %s traversed twice" % (c.__name__, attrname))
            fields.append([attrname, shape, sym.name])
        ent["kind"] = "normal"
        ent["fields"] = fields

    try:
        for c in classes:
            owner = next(k for k in c.__mro__ if "_gen_cache_key" in k.__dict__)
            vn = getattr(c, "__visit_name__", None)
            ent = {"qual": c.__module__ + "." + c.__name__, "visit": vn if isinstance(vn, str) else None, "bind": False}
            oq = owner.__module__ + "." + owner.__name__
            if owner is HasCacheKey:
                normal(c, ent)
            elif oq == "sqlalchemy.sql.elements.BindParameter":
                if not c.__dict__.get("inherit_cache", False):
                    ent["kind"] = "nocache"
                else:
                    f = owner.__dict__["_gen_cache_key"]
                    fa = _fn_ast(f)
                    loads = [a for a in _self_loads(fa, fa.args.args[0].arg) if a not in ("__class__", "_anon_map_key")]
                    ent["kind"] = "normal"
                    ent["bind"] = True
                    ent["fields"] = [[a, H_NOTNONE, "dp_anon_name" if a == "key" else ("dp_type" if a == "type" else "dp_plain_obj")] for a in sorted(loads)]
            elif oq == "sqlalchemy.sql.schema.Table":
                fa = _fn_ast(owner.__dict__["_gen_cache_key"])
                if _self_loads(fa, "self") != ["_annotations", "_annotations_cache_key"]:
                    raise RuntimeError("Table._gen_cache_key is not the identity key any more")
                ent["kind"] = "identity"
            elif oq == "sqlalchemy.sql.functions.FunctionAsBinary":
                fa = _fn_ast(owner.__dict__["_gen_cache_key"])
                if ast.unparse(fa.body[-1]) != "return ColumnElement._gen_cache_key(self, anon_map, bindparams)":
                    raise RuntimeError("FunctionAsBinary._gen_cache_key no longer delegates")
                normal(c, ent)
            elif oq in OPAQUE_OWNERS:
                ent["kind"] = "opaque"
            else:
                raise RuntimeError("class %s overrides _gen_cache_key (%s): not in the pinned list" % (ent["qual"], oq))
            out.append(ent)
    finally:
        vis.generate_dispatch = orig
    out.sort(key=lambda e: e["qual"])
    quals = [e["qual"] for e in out]
    if len(set(quals)) != len(quals):
        # dynamically created Annotated* duplicates etc: keep the first, fail on conflicting content
        seen = {}
        uniq = []
        for e in out:
            if e["qual"] in seen:
                if seen[e["qual"]] != e:
                    raise RuntimeError("two classes named %s with different keys" % e["qual"])
                continue
            seen[e["qual"]] = e
            uniq.append(e)
        out = uniq
    return out


def _loads(fnode, is_target, out, dyn, where):
    for node in ast.walk(fnode):
        if isinstance(node, ast.Attribute) and isinstance(node.ctx, ast.Load) and is_target(node.value):
            out.add(node.attr)
        if isinstance(node, ast.Call) and isinstance(node.func, ast.Name) and node.func.id in ("getattr", "hasattr") and node.args and is_target(node.args[0]):
            if len(node.args) > 1 and isinstance(node.args[1], ast.Constant) and isinstance(node.args[1].value, str):
                out.add(node.args[1].value)
            else:
                dyn.add(where)


def _aliases(fnode, pname):
    """names bound by a plain `x = <element>` assignment (one step; `clause = on_conflict`)"""
    names = {pname}
    for node in ast.walk(fnode):
        if isinstance(node, ast.Assign) and isinstance(node.value, ast.Name) and node.value.id in names:
            for t in node.targets:
                if isinstance(t, ast.Name):
                    names.add(t.id)
    return names


def _follow(fnode, pname, cls, depth, seen, out, dyn, where):
    names = _aliases(fnode, pname)
    _loads(fnode, lambda v: isinstance(v, ast.Name) and v.id in names, out, dyn, where)
    if depth <= 0:
        return
    for node in ast.walk(fnode):
        if not isinstance(node, ast.Call):
            continue
        f = node.func
        if not (isinstance(f, ast.Attribute) and isinstance(f.value, ast.Name) and f.value.id == "self"):
            continue
        m = inspect.getattr_static(cls, f.attr, None)
        m = getattr(m, "__func__", m)
        if m is None or not inspect.isfunction(m) or f.attr.startswith("visit_") or f.attr == "process":
            continue
        try:
            mn = _fn_ast(m)
        except (OSError, TypeError, SyntaxError):
            continue
        params = [a.arg for a in mn.args.args][1:]
        tgt = []
        for i, a in enumerate(node.args):
            if isinstance(a, ast.Name) and a.id == pname and i < len(params):
                tgt.append(params[i])
        for kw in node.keywords:
            if isinstance(kw.value, ast.Name) and kw.value.id == pname and kw.arg:
                tgt.append(kw.arg)
        for p in tgt:
            if (f.attr, p) not in seen:
                seen.add((f.attr, p))
                _follow(mn, p, cls, depth - 1, seen, out, dyn, where + "->" + f.attr)


def gather_R():
    """(visit name -> attributes read from the visited element), syntactic; plus the dynamic-getattr sites"""
    import importlib

    from sqlalchemy.dialects.sqlite.base import SQLiteCompiler

    reads, dyn = {}, set()
    for name in dir(SQLiteCompiler):
        if not name.startswith("visit_"):
            continue
        m = inspect.getattr_static(SQLiteCompiler, name)
        if not inspect.isfunction(m):
            continue
        n = _fn_ast(m)
        args = [a.arg for a in n.args.args]
        if len(args) < 2:
            continue
        out = set()
        _follow(n, args[1], SQLiteCompiler, 2, set(), out, dyn, name)
        v = name[6:]
        for suf, tgt in MERGE_SUFFIX:
            if v.endswith(suf) and v != tgt:
                v = tgt
                break
        reads.setdefault(v, set()).update(out)

    def is_stmt(v):
        if isinstance(v, ast.Name) and v.id in STMT_NAMES:
            return True
        return isinstance(v, ast.Attribute) and v.attr == "statement" and isinstance(v.value, ast.Name) and v.value.id in ("self", "compile_state")

    for v, roots in EXTRA_ROOTS.items():
        for modname, cname in roots:
            mod = importlib.import_module(modname)
            src = inspect.getsource(mod if cname is None else getattr(mod, cname))
            _loads(ast.parse(textwrap.dedent(src)), is_stmt, reads.setdefault(v, set()), dyn, "%s.%s" % (modname, cname))
    for v, roots in EXTRA_NAMED_ROOTS.items():
        for modname, cname, fname, names in roots:
            fn = inspect.getattr_static(getattr(importlib.import_module(modname), cname), fname)
            _loads(_fn_ast(fn), lambda x, names=names: isinstance(x, ast.Name) and x.id in names, reads.setdefault(v, set()), dyn, "%s.%s.%s" % (modname, cname, fname))
    return {k: sorted(x) for k, x in reads.items()}, sorted(dyn)


def _stored_names():
    import sqlalchemy

    root = os.path.dirname(sqlalchemy.__file__)
    names = set()
    for p in glob.glob(root + "/**/*.py", recursive=True):
        try:
            with open(p) as f:
                tree = ast.parse(f.read())
        except SyntaxError:
            continue
        for node in ast.walk(tree):
            if isinstance(node, ast.Attribute) and isinstance(node.ctx, (ast.Store, ast.Del)):
                names.add(node.attr)
            elif isinstance(node, ast.Call) and isinstance(node.func, ast.Name) and node.func.id == "setattr" and len(node.args) > 1 and isinstance(node.args[1], ast.Constant):
                names.add(node.args[1].value)
            elif isinstance(node, ast.Subscript) and isinstance(node.ctx, ast.Store) and isinstance(node.value, ast.Attribute) and node.value.attr == "__dict__" and isinstance(node.slice, ast.Constant):
                names.add(node.slice.value)
    return names


def _classify(cls, a, stored):
    import types

    try:
        v = inspect.getattr_static(cls, a)
    except AttributeError:
        return "field"
    if isinstance(v, (types.FunctionType, classmethod, staticmethod)) or type(v).__name__ in ("hybridmethod", "method_descriptor", "builtin_function_or_method"):
        return "method"
    if isinstance(v, types.MemberDescriptorType):
        return "field"
    if hasattr(type(v), "__get__") and not isinstance(v, type):
        return "property"
    return "field" if a in stored else "const"


def type_skip_mode():
    """the skip test of TypeEngine._static_cache_key, read from its source: 'SkipNone' for
    `self.__dict__[k] is not None`, 'SkipFalsy' for a bare truthiness test; anything else fails closed"""
    from sqlalchemy.sql.type_api import TypeEngine

    fn = TypeEngine.__dict__["_static_cache_key"]
    fn = getattr(fn, "fget", fn)
    fa = _fn_ast(fn)
    gens = [n for n in ast.walk(fa) if isinstance(n, ast.GeneratorExp)]
    if len(gens) != 1 or len(gens[0].generators) != 1:
        raise RuntimeError("_static_cache_key: unexpected shape")
    conds = gens[0].generators[0].ifs
    if len(conds) == 1 and isinstance(conds[0], ast.BoolOp) and isinstance(conds[0].op, ast.And):
        conds = conds[0].values
    texts = [ast.unparse(c) for c in conds]
    want = ["k in self.__dict__", "not k.startswith('_')"]
    if texts[:2] != want or len(texts) != 3:
        raise RuntimeError("_static_cache_key: unexpected conditions %r" % (texts,))
    if texts[2] == "self.__dict__[k] is not None":
        return "SkipNone"
    if texts[2] == "self.__dict__[k]":
        return "SkipFalsy"
    raise RuntimeError("_static_cache_key: unknown skip test %r" % texts[2])


_FACTS = None


def facts(_=None):
    """runs in the impl interpreter.  Everything the generated Coq file and the encoder need."""
    global _FACTS
    if _FACTS is not None:
        return _FACTS
    import importlib

    T = gather_T()
    R, dyn = gather_R()
    stored = _stored_names()
    attrs = list(RESERVED_ATTRS)
    for e in T:
        for f in e.get("fields", []):
            if f[0] not in attrs:
                attrs.append(f[0])
    problems = []
    used_curated = set()
    V = {}
    for e in T:
        e["V"] = []
        if e["kind"] not in ("normal", "identity") or e["visit"] is None or e["visit"] not in R:
            continue
        if not (e["qual"].startswith("sqlalchemy.sql.") or e["qual"].startswith("sqlalchemy.dialects.sqlite.")) or e["qual"].startswith("sqlalchemy.sql.annotation."):
            continue
        if e["kind"] == "identity":
            continue
        mod, name = e["qual"].rsplit(".", 1)
        cls = getattr(importlib.import_module(mod), name)
        v = e["visit"]
        keyed = {f[0] for f in e["fields"] if f[1] in (H_TRUTHY, H_NOTNONE, H_KIDS)}
        want = []
        nocache_attrs = {f[0] for f in e["fields"] if f[1] == H_NOCACHE}
        for a in R[v]:
            if (v, a) in LITERAL or ("*", a) in LITERAL:
                used_curated.add(("L", v, a))
                continue
            if a in keyed:
                want.append(a)
                continue
            if a in nocache_attrs:
                continue  # set => the statement is not cacheable at all; falsy in every cacheable statement
            if (e["qual"], a) in IGNORED_CLASS:
                continue
            if (v, a) in GAPS:
                used_curated.add(("G", v, a))
                want.append(a)
                continue
            if (v, a) in IGNORED:
                used_curated.add(("I", v, a))
                continue
            if (v, a) in DERIVED:
                used_curated.add(("D", v, a))
                for d in DERIVED[(v, a)]:
                    want.append(d)
                continue
            k = _classify(cls, a, stored)
            if k == "const":
                continue
            if k == "method":
                if a in METHODS_OK:
                    continue
                problems.append("%s (%s): method %s called on the element is not in METHODS_OK" % (e["qual"], v, a))
                continue
            # an uncovered read: keep it in V so that covers fails
            want.append(a)
        for a in want:
            if a not in attrs:
                attrs.append(a)
        e["V"] = sorted(set(want))
    if dyn:
        problems.append("dynamic getattr on the visited element (not followed): %s" % dyn)
    aid = {}
    for i, a in enumerate(attrs):
        aid[a] = i if i < len(RESERVED_ATTRS) else ATTR0 + i
    for k, (e) in enumerate(T):
        e["id"] = k + 1
    gaps = []
    for e in T:
        for a in e["V"]:
            if (e["visit"], a) in GAPS:
                gaps.append([e["id"], aid[a]])
    _FACTS = {"classes": T, "attr_id": aid, "gaps": gaps, "problems": problems, "reads": R, "type_skip": type_skip_mode()}
    return _FACTS


def impl_facts():
    """summary of the regenerated tables for the evidence file"""
    f = facts()
    cl = f["classes"]
    return {
        "HasCacheKey_classes": len(cl),
        "kinds": {k: sum(1 for e in cl if e["kind"] == k) for k in ("normal", "identity", "nocache", "opaque")},
        "keyed_attributes": sum(len([x for x in e.get("fields", []) if x[1] != H_SKIP]) for e in cl),
        "classes_with_compiler_reads": sum(1 for e in cl if e["V"]),
        "compiler_read_attributes": sum(len(e["V"]) for e in cl),
        "visit_methods_scanned": len(f["reads"]),
        "known_gaps": sorted(set("%s.%s" % k for k in GAPS)),
        "cases": dict(_COUNT),
        "curated": {"DERIVED": len(DERIVED), "IGNORED": len(IGNORED), "IGNORED_CLASS": len(IGNORED_CLASS), "METHODS_OK": len(METHODS_OK), "LITERAL": len(LITERAL)},
    }


def pin_check(repo):
    from translate import fingerprint

    fingerprint.check(repo, ANCHORS, "C02")


def _coq_tables(f):
    aid = f["attr_id"]
    lines = []
    lines.append("Definition gen_T : ttab := [")
    ents = []
    w = TUPLE_W
    tup_fields = ["(%d, HNotNone)" % (TUPLE_ATOM0 + i) for i in range(w)] + ["(%d, HKids)" % (TUPLE_KID0 + i) for i in range(w)]
    ents.append("  (0, mkC KNormal false [%s])  (* pseudo class: tuple / dict entry *)" % "; ".join(tup_fields))
    for e in f["classes"]:
        if e["kind"] == "normal":
            fs = "; ".join("(%d, %s)" % (aid[a], sh) for a, sh, _ in e["fields"])
            ents.append("  (%d, mkC KNormal %s [%s])  (* %s *)" % (e["id"], "true" if e["bind"] else "false", fs, e["qual"]))
        elif e["kind"] == "identity":
            ents.append("  (%d, mkC KIdentity false [])  (* %s *)" % (e["id"], e["qual"]))
        # classes without a cache key ("nocache") need no entry: a class that is not listed is KNoCache
    lines.append(";\n".join(ents))
    lines.append("]%N.\n")
    vents = ["  (0, [%s])" % "; ".join(str(x) for x in list(range(TUPLE_ATOM0, TUPLE_ATOM0 + w)) + list(range(TUPLE_KID0, TUPLE_KID0 + w)))]
    for e in f["classes"]:
        if e["V"]:
            vents.append("  (%d, [%s])  (* %s: %s *)" % (e["id"], "; ".join(str(aid[a]) for a in e["V"]), e["qual"].rsplit(".", 1)[1], " ".join(e["V"])))
    lines.append("Definition gen_V : vtab := [\n" + ";\n".join(vents) + "\n]%N.\n")
    lines.append("Definition gen_G : list (N * N) := [%s]%%N.\n" % "; ".join("(%d, %d)" % (c, a) for c, a in f["gaps"]))
    return "\n".join(lines)


def translate(repo, outdir):
    from vlib import implcall

    f = implcall.call("specs.c02", "facts")
    if f["problems"]:
        raise RuntimeError("read-set analysis cannot classify: " + "; ".join(f["problems"][:8]))
    src = (
        "(* generated on every run from the running sqlalchemy source - do not edit *)\n"
        "From Coq Require Import List NArith ZArith Bool.\nImport ListNotations.\n"
        "From SAV.base Require Import Tree.\nFrom SAV.sql Require Import CacheKey CacheKeyTypes CacheKeyRun.\n\n"
        + _coq_tables(f)
        + "\n(* the skip test found in TypeEngine._static_cache_key *)\nDefinition gen_skip : skipmode := %s.\n" % f["type_skip"]
        + "\nDefinition gen_tabs : tabs := mkTabs gen_T gen_V gen_G gen_skip.\nDefinition run_case := run_with gen_tabs.\n"
    )
    src2 = (
        "(* generated on every run - per-run obligations about the regenerated tables *)\n"
        "From Coq Require Import List NArith ZArith Bool.\nImport ListNotations.\n"
        "From SAV.sql Require Import CacheKey CacheExec CacheKeyMain CacheKeyTypes.\nFrom SAV.props Require Import C02.\nRequire Import Gen.Gen_C02.\n\n"
        "(* the type component of every key: the static cache key skips exactly the arguments that are None *)\n"
        "Lemma gen_type_skip_is_none_test : gen_skip = SkipNone.\nProof. reflexivity. Qed.\n"
        "Theorem gen_c02_type_key_injective : forall a1 a2 : list targ, length a1 = length a2 ->\n"
        "  tkey gen_skip a1 = tkey gen_skip a2 -> map eff a1 = map eff a2.\n"
        "Proof. rewrite gen_type_skip_is_none_test. exact c02_type_key_injective. Qed.\n"
        "(* every attribute the compiler reads is in the class's cache key, except the known gaps *)\n"
        "Lemma gen_covers_guarded : covers gen_T (vminus gen_V gen_G) = true.\nProof. vm_compute; reflexivity. Qed.\n"
        "(* ... and the gaps are real: without the exception the check fails (remove the gap entry once fixed) *)\n"
        "Lemma gen_covers_refuted : covers gen_T gen_V = %s.\nProof. vm_compute; reflexivity. Qed.\n"
        "(* the property theorems instantiated with the tables the code has NOW *)\n"
        "Theorem gen_c02_key_determines_sql : forall (OUT : Type) (compile_direct : ktree -> OUT) s1 s2 k b1 b2,\n"
        "  gapfree gen_G s1 = true -> gapfree gen_G s2 = true -> wf gen_T s1 = true -> wf gen_T s2 = true ->\n"
        "  gen_key gen_T s1 = Some (k, b1) -> gen_key gen_T s2 = Some (k, b2) ->\n"
        "  compile_direct (view gen_T gen_V s1) = compile_direct (view gen_T gen_V s2) /\\ map blbl b1 = map blbl b2.\n"
        "Proof. exact (c02_key_determines_sql_guarded gen_T gen_V gen_G gen_covers_guarded). Qed.\n"
        "Theorem gen_c02_cached_exec_eq_direct : forall (SQL : Type) (render : atom -> ktree -> SQL * list N),\n"
        "  (forall ctx v, incl (snd (render ctx v)) (kbl gen_T v)) -> forall h1 h2 : list step,\n"
        "  (forall s, In s (stmts (h1 ++ h2)) -> wf gen_T s = true /\\ gapfree gen_G s = true) ->\n"
        "  cunib gen_T (stmts (h1 ++ h2)) = true ->\n"
        "  fst (run gen_T gen_V SQL render (snd (run gen_T gen_V SQL render [] h1)) h2)\n"
        "  = map (fun x => exec_direct gen_T gen_V SQL render (s_ctx x) (s_stmt x) (s_sets x)) h2.\n"
        "Proof. exact (c02_cached_exec_eq_direct_guarded gen_T gen_V gen_G gen_covers_guarded). Qed.\n"
        "Print Assumptions gen_c02_key_determines_sql.\nPrint Assumptions gen_c02_cached_exec_eq_direct.\n"
    ) % ("false" if f["gaps"] else "true")
    p = os.path.join(outdir, "Gen_C02.v")
    with open(p, "w") as fh:
        fh.write(src)
    p2 = os.path.join(outdir, "Gen_C02_obl.v")
    with open(p2, "w") as fh:
        fh.write(src2)
    return [p, p2]


# =====================================================================================================
# statement families (recipes: dict of small integers -> a statement)
# =====================================================================================================
INTS = [1, 2, 3, 7]
INTS2 = [4, 5, 6]
STRS = ["s1", "s%", "a"]
# coordinate -> number of alternatives (select family)
SEL = {
    "cols": 12, "lab": 3, "ltype": 4, "where": 19, "v": 4, "v2": 3, "vs": 3, "lit": 5, "bexp": 2, "bcall": 2,
    "distinct": 2, "order": 6, "limit": 3, "offset": 2, "group": 2, "frm": 10, "setop": 5, "prefix": 3, "fu": 2,
    "hint": 2, "fname": 4, "casttype": 3, "over": 5, "corr": 2, "pm": 3, "neg": 3, "col2": 2, "aname": 2, "breq": 2,
}
DML = {"kind": 3, "vals": 6, "v": 4, "v2": 3, "vs": 3, "ret": 3, "onc": 4, "dwhere": 3, "inline": 2, "prefix": 2, "pk": 4, "incdef": 2, "many": 2}
TYPES = {"tcls": 28, "arg": 3, "va": 7, "v": 4}   # class / argument indices beyond the catalogue are skipped
SIB = {"va": 4, "vb": 4}
NEST = {"form": 3, "va": 4, "vb": 4}
ORM = {"ent": 4, "where": 4, "v": 4, "join": 3, "opt": 7, "order": 2, "limit": 2, "alias": 2}
LITERAL_COORDS = {"v", "v2", "vs", "pk", "pm"}  # coordinates that only change values (pm: where the value of "p" comes from)
FAMS = {"select": SEL, "dml": DML, "orm": ORM, "types": TYPES, "sib": SIB, "nest": NEST}

_S = {}


def _schema():
    if "t" in _S:
        return _S
    from sqlalchemy import Boolean, Column, DateTime, ForeignKey, Integer, MetaData, String, Table
    from sqlalchemy.orm import declarative_base, relationship

    m = MetaData()
    _S["m"] = m
    _S["t"] = Table(
        "t", m, Column("id", Integer, primary_key=True), Column("x", Integer), Column("y", Integer, default=11), Column("s", String),
        Column("b", Boolean), Column("d", DateTime),
    )
    _S["u"] = Table("u", m, Column("id", Integer, primary_key=True), Column("tid", Integer, ForeignKey("t.id")), Column("v", Integer), Column("name", String))
    Base = declarative_base(metadata=m)

    class A(Base):
        __tablename__ = "a"
        id = Column(Integer, primary_key=True)
        x = Column(Integer)
        s = Column(String)
        bs = relationship("B", back_populates="a", order_by="B.id")

    class B(Base):
        __tablename__ = "b"
        id = Column(Integer, primary_key=True)
        a_id = Column(ForeignKey("a.id"))
        v = Column(Integer)
        a = relationship("A", back_populates="bs")

    _S["A"], _S["B"] = A, B
    return _S


def _lit(p, v, ty=None):
    """a literal value, constructed as the 'lit' coordinate says"""
    from sqlalchemy import Integer, String, bindparam, literal

    k = p.get("lit", 0)
    if k == 1:
        return literal(v)
    if k == 2:
        return literal(v, literal_execute=True)
    if k == 3:
        return bindparam(None, v, type_=ty)
    if k == 4:
        return literal(str(v), String) if isinstance(v, int) else literal(v, String)
    return v


def build_select(p):
    import datetime

    from sqlalchemy import Boolean, Integer, Numeric, String, and_, bindparam, case, cast, column, except_, exists, func, intersect, label, literal_column, not_, or_, select, tuple_, type_coerce, union, union_all, values

    S = _schema()
    t, u = S["t"], S["u"]
    v, v2, vs = INTS[p.get("v", 0)], INTS2[p.get("v2", 0)], STRS[p.get("vs", 0)]
    frm = p.get("frm", 0)
    src = t
    an = p.get("aname", 0)
    if frm == 4:
        src = t.alias(["ta", "tb"][an])
    elif frm == 5:
        src = t.alias()
    elif frm == 6:
        src = select(t).where(t.c.y.is_not(None) | (t.c.id > _lit(p, 0))).subquery(["sq", "sr"][an])
    elif frm == 7:
        src = select(t).where(t.c.id >= _lit(p, 0)).cte(["ct", "cu"][an])
    elif frm == 9:  # VALUES with data: not cacheable
        src = values(column("id", Integer), column("x", Integer), column("y", Integer), column("s", String), column("b", Boolean), column("d", String), name="vv").data(
            [(1, v, v2, vs, True, "2020-01-01"), (2, v2, v, "a", False, "2020-01-02")])
    c = src.c
    params = None
    fn = [func.coalesce, func.ifnull, func.max, func.nullif][p.get("fname", 0)]
    cx = [c.x, c.y][p.get("col2", 0)]
    ctype = [String, Integer, Numeric][p.get("casttype", 0)]
    cols_k = p.get("cols", 0)
    if p.get("group", 0):
        cols = [c.x, func.count(c.id)]
    elif cols_k == 1:
        cols = [c.id, c.x + _lit(p, v)]
    elif cols_k == 2:
        cols = [c.id, fn(c.x, _lit(p, v))]
    elif cols_k == 3:
        cols = [c.id, cast(c.x, ctype)]
    elif cols_k == 4:
        cols = [c.id, case((c.x > _lit(p, v), _lit(p, v2)), else_=_lit(p, 0))]
    elif cols_k == 5:
        cols = [c.id, c.s.concat(_lit(p, vs))]
    elif cols_k == 6:
        ov = p.get("over", 0)
        fr = {3: {"rows": (None, 0)}, 4: {"range_": (None, 0)}}.get(ov, {})
        cols = [c.id, func.count().over(partition_by=c.x if ov != 1 else None, order_by=c.id if ov != 2 else c.id.desc(), **fr)]
    elif cols_k == 7:
        cols = [c.id, type_coerce(c.x, ctype)]
    elif cols_k == 8:
        cols = [c.id, literal_column("1")]
    elif cols_k == 9:
        cols = [c.id, c.x.label([None, "l1", "l2"][p.get("lab", 0)])]
    elif cols_k == 10:
        ty = [None, Integer, String, Boolean][p.get("ltype", 0)]
        cols = [c.id, label("lx", c.x, type_=ty)]
    elif cols_k == 11:
        cols = [c.id, func.max(c.x).filter(c.x > _lit(p, v)).over(partition_by=c.y)]
    else:
        cols = [c.id, [cx, -cx, func.abs(cx)][p.get("neg", 0)]]
    s = select(*cols)
    w = p.get("where", 0)
    crit = None
    if w == 1:
        crit = c.x == _lit(p, v)
    elif w == 2:
        crit = c.x > _lit(p, v)
    elif w == 3:
        crit = c.x.in_([v, v + 1])
    elif w == 4:
        crit = c.x.between(_lit(p, v), _lit(p, v2))
    elif w == 5:
        crit = c.s.like(_lit(p, vs))
    elif w == 6:
        crit = c.x.is_(None)
    elif w == 7:
        crit = and_(c.x > _lit(p, v), or_(c.s == _lit(p, vs), c.x < _lit(p, v2)))
    elif w == 8:
        crit = not_(c.x == _lit(p, v))
    elif w == 9:
        crit = exists().where(u.c.tid == c.id).where(u.c.v > _lit(p, v))
    elif w == 10:
        crit = c.x == select(func.min(u.c.v)).where(u.c.v > _lit(p, v)).scalar_subquery()
    elif w == 11:
        crit = c.s.startswith(vs, autoescape=True)
    elif w == 12:
        crit = c.x.in_(select(u.c.tid).where(u.c.v > _lit(p, v)))
    elif w == 13:
        crit = tuple_(c.x, c.y).in_([(v, v2), (v + 1, v2)])
    elif w == 14:
        if p.get("bcall", 0):
            crit = c.x == bindparam("p", type_=Integer, callable_=lambda: v)
        elif p.get("bexp", 0):
            crit = c.x == bindparam("p", [v], type_=Integer, expanding=True)
        elif p.get("breq", 0):  # a required parameter, executed WITHOUT a value: must raise
            crit = c.x == bindparam("p", type_=Integer)
        elif p.get("pm", 0) == 1:  # the value arrives with the execution
            crit = c.x == bindparam("p", type_=Integer)
            params = {"p": v}
        else:
            crit = c.x == bindparam("p", v, type_=Integer)
    elif w == 15:
        crit = c.b == _lit(p, bool(v % 2))
    elif w == 16:
        crit = c.d < datetime.datetime(2020, 1, v)
    elif w == 17:
        crit = c.x.not_in([v, v2])
    elif w == 18:
        crit = c.x.in_([])
    elif w == 19:
        inner = select(func.count(u.c.id)).where(u.c.tid == c.id).where(u.c.v >= _lit(p, 0))
        if p.get("corr", 0):
            inner = inner.correlate(None)  # no auto-correlation: the enclosing table is repeated in the inner FROM
        crit = c.y >= inner.scalar_subquery()
    if crit is not None:
        s = s.where(crit)
    if w == 14 and p.get("pm", 0) == 2 and not p.get("bcall", 0) and not p.get("bexp", 0) and not p.get("breq", 0):
        s = s.params(p=v2)  # statement-level parameter set
    if frm == 1:
        s = s.select_from(t.join(u, u.c.tid == t.c.id))
    elif frm == 2:
        s = s.select_from(t.join(u, u.c.tid == t.c.id, isouter=True))
    elif frm == 3:
        s = s.select_from(t.join(u, and_(u.c.tid == t.c.id, u.c.v > _lit(p, v2))))
    elif frm == 8:
        s = s.select_from(t.join(u, u.c.tid == t.c.id, full=True))
    if p.get("group", 0):
        s = s.group_by(c.x).having(func.count(c.id) >= _lit(p, 1))
    if p.get("distinct", 0):
        s = s.distinct()
    o = p.get("order", 0)
    if o == 1:
        s = s.order_by(c.x.asc(), c.id)
    elif o == 2:
        s = s.order_by(c.x.desc(), c.id)
    elif o == 3:
        s = s.order_by(c.x.desc().nulls_last(), c.id)
    elif o == 4:
        s = s.order_by(c.x.desc().nulls_first(), c.id)
    elif o == 5 and not p.get("group", 0):
        s = s.order_by("id")
    if p.get("limit", 0):
        s = s.limit([None, 2, 3][p["limit"]])
    if p.get("offset", 0):
        s = s.limit(s._limit if s._limit is not None else 50).offset(1)
    if p.get("prefix", 0):
        s = s.prefix_with(["", "/* p1 */", "/* p2 */"][p["prefix"]])
    if p.get("fu", 0):
        s = s.with_for_update()
    if p.get("hint", 0):
        s = s.with_statement_hint("h", "postgresql")
    so = p.get("setop", 0)
    if so:
        other = select(t.c.id, t.c.y).where(t.c.y > _lit(p, v2))
        s = [None, union, union_all, intersect, except_][so](s, other)
    return s, params


def build_dml(p):
    from sqlalchemy import delete, select, update
    from sqlalchemy.dialects.sqlite import insert as sqlite_insert

    S = _schema()
    t, u = S["t"], S["u"]
    v, v2, vs = INTS[p.get("v", 0)], INTS2[p.get("v2", 0)], STRS[p.get("vs", 0)]
    from sqlalchemy import bindparam

    pk = 100 + 10 * p.get("pk", 0)
    kind = p.get("kind", 0)
    many = p.get("many", 0)  # executemany: the per-row values arrive as 3 parameter sets, literals stay in the statement
    params = None
    if kind == 0:
        s = sqlite_insert(t)
        vk = p.get("vals", 0)
        if many and vk in (0, 1):
            s = s.values(x=v) if vk == 0 else s.values(x=v, s=vs)
            params = [{"id": pk + i} for i in range(3)]
        elif many and vk in (2, 3):
            params = [dict({"id": pk + i, "x": v + i}, **({"s": vs} if vk == 3 else {})) for i in range(3)]
        elif vk == 0:
            s = s.values(id=pk, x=v)
        elif vk == 1:
            s = s.values(id=pk, x=v, s=vs)
        elif vk == 2:
            params = {"id": pk, "x": v}
        elif vk == 3:
            params = {"id": pk, "x": v, "s": vs}
        elif vk == 5:  # multiple VALUES: not cacheable
            s = s.values([{"id": pk, "x": v}, {"id": pk + 50, "x": v2}])
        else:
            s = s.from_select(["id", "x"], select(u.c.id + (pk + 100), u.c.v).where(u.c.v > v), include_defaults=not p.get("incdef", 0))
        oc = p.get("onc", 0)
        if oc == 1:
            s = s.on_conflict_do_nothing()
        elif oc == 2:
            s = s.on_conflict_do_update(index_elements=[t.c.id], set_={"x": s.excluded.x})
        elif oc == 3:
            s = s.on_conflict_do_update(index_elements=[t.c.id], set_={"x": v2})
        if p.get("inline", 0):
            s = s.inline()
    elif kind == 1:
        s = update(t)
        vk = p.get("vals", 0)
        if vk == 0:
            s = s.values(x=v)
        elif vk == 1:
            s = s.values(x=t.c.x + v)
        elif vk == 2:
            s = s.values(s=vs)
        elif vk == 3:
            params = {"x": v}
        else:
            params = {"x": v, "s": vs}
        dw = p.get("dwhere", 0)
        s = s.where(t.c.id <= v2 + 4) if dw == 0 else (s.where(t.c.x > v2 - 3) if dw == 1 else s.where(t.c.id.in_([v2, v2 + 1])))
        if many:
            s = s.where(t.c.id == bindparam("b_id"))
            params = [dict(params or {}, b_id=v2 - 1 + i) for i in range(3)]
    else:
        s = delete(t)
        dw = p.get("dwhere", 0)
        s = s.where(t.c.id <= v2 + 4) if dw == 0 else (s.where(t.c.x > v2 - 3) if dw == 1 else s.where(t.c.id.in_([v2, v2 + 1])))
        if many:
            s = s.where(t.c.id == bindparam("b_id"))
            params = [{"b_id": v2 - 1 + i} for i in range(3)]
    r = p.get("ret", 0)
    if r == 1:
        s = s.returning(t.c.id)
    elif r == 2:
        s = s.returning(t.c.id, t.c.x)
    if p.get("prefix", 0) and kind != 0:
        s = s.prefix_with("/* d */")
    return s, params


def build_orm(p):
    from sqlalchemy import select
    from sqlalchemy.orm import aliased, defer, joinedload, load_only, selectinload, subqueryload, with_loader_criteria

    S = _schema()
    A, B = S["A"], S["B"]
    v = INTS[p.get("v", 0)]
    E = aliased(A, name="a1") if p.get("alias", 0) else A
    ent = p.get("ent", 0)
    if ent == 0:
        s = select(E)
    elif ent == 1:
        s = select(E.id, E.x)
    elif ent == 2:
        s = select(E, B)
    else:
        s = select(E.id, B.v)
    j = p.get("join", 0)
    if ent >= 2 or j:
        s = s.join(E.bs) if j != 2 else s.outerjoin(E.bs)
    w = p.get("where", 0)
    if w == 1:
        s = s.where(E.x == v)
    elif w == 2:
        s = s.where(E.x > v)
    elif w == 3:
        s = s.where(E.x.in_([v, v + 1]))
    o = p.get("opt", 0)
    if ent in (0, 2):
        if o == 1:
            s = s.options(joinedload(E.bs))
        elif o == 2:
            s = s.options(selectinload(E.bs))
        elif o == 3:
            s = s.options(load_only(E.x))
        elif o == 4:
            s = s.options(defer(E.s))
        elif o == 5:
            s = s.options(selectinload(E.bs), with_loader_criteria(B, B.v > v))
        elif o == 6:
            s = s.options(subqueryload(E.bs))
    s = s.order_by(E.id) if not p.get("order", 0) else s.order_by(E.x.desc(), E.id)
    if p.get("limit", 0):
        s = s.limit(3)
    return s


_TYPE_DOMAIN = [None, 0, False, "", 2, True, "%(year)04d/%(month)02d/%(day)02d %(hour)02d.%(minute)02d.%(second)02d"]
_TYPE_PAIRS_QUICK = [(0, 1), (0, 2), (0, 3), (0, 4), (2, 4), (0, 6)]
_TYPE_PAIRS_ALL = [(i, j) for i in range(7) for j in range(i + 1, 7) if (i, j) != (1, 2)]  # 0 == False in Python: one key by definition


def type_catalogue():
    """[(type class, [constructor argument names])]: the generic and SQLite types in scope that can be built
    without arguments; the argument names are util.get_cls_kwargs(cls), as _static_cache_key uses them"""
    if "types" in _S:
        return _S["types"]
    from sqlalchemy import types as sqltypes
    from sqlalchemy import util
    from sqlalchemy.dialects.sqlite import base as sqlite_base

    names = ["String", "Text", "Unicode", "Integer", "BigInteger", "Numeric", "Float", "Double", "DateTime", "Date", "Time",
             "Boolean", "LargeBinary", "Interval", "JSON", "Uuid", "NUMERIC", "DECIMAL", "FLOAT", "REAL", "VARCHAR", "CHAR", "TIMESTAMP"]
    out = []
    for mod, nm in [(sqltypes, n) for n in names] + [(sqlite_base, n) for n in ("DATETIME", "DATE", "TIME", "JSON")]:
        cls = getattr(mod, nm, None)
        if cls is None:
            continue
        try:
            cls()
        except Exception:
            continue
        args = sorted(a for a in util.get_cls_kwargs(cls) if not a.startswith("_"))
        if args:
            out.append((cls, args))
    _S["types"] = out
    return out


def build_type(p):
    """the type instance of a 'types' recipe: class tcls with its argument number arg set to the domain value
    va (None = not given); -> instance or None when out of range / the constructor rejects the value"""
    cat = type_catalogue()
    if p.get("tcls", 0) >= len(cat) or p.get("arg", 0) >= len(cat[p.get("tcls", 0)][1]):
        return None
    cls, args = cat[p.get("tcls", 0)]
    a = args[p.get("arg", 0)]
    val = _TYPE_DOMAIN[p.get("va", 0)]
    try:
        return cls() if val is None else cls(**{a: val})
    except Exception:
        return None


def build_types(p):
    from sqlalchemy import String, bindparam, cast, literal_column, select, type_coerce

    S = _schema()
    t = S["t"]
    ty = build_type(p)
    if ty is None:
        ty = String()
    import datetime

    v = INTS[p.get("v", 0)]
    try:
        pt = ty.python_type
    except Exception:
        pt = int
    v = {datetime.datetime: datetime.datetime(2020, 1, v, 3, 4, 5), datetime.date: datetime.date(2020, 1, v),
         datetime.time: datetime.time(3, 4, v), str: "s%d" % v}.get(pt, v)
    return select(t.c.id, cast(t.c.x, ty).label("c"), type_coerce(literal_column("12.75"), ty).label("tc"),
                  type_coerce(t.c.y, ty).label("ty")).where(t.c.x != bindparam(None, v, type_=ty)).order_by(t.c.id), None


def build_sib(p):
    """two sibling subqueries that each carry a statement-level parameter set for the same name"""
    from sqlalchemy import bindparam, select

    S = _schema()
    t = S["t"]
    a = select(t.c.id).where(t.c.x == bindparam("v")).params(v=INTS[p.get("va", 0)]).subquery("a")
    b = select(t.c.id).where(t.c.x == bindparam("v")).params(v=INTS[p.get("vb", 0)]).subquery("b")
    return select(a.c.id, b.c.id).order_by(a.c.id, b.c.id), None


def build_nest(p):
    """the same parameter name given with .params() at two NESTING levels (parent / child): the enclosing
    statement's value must win whether the values travel with the cache key or are collected by the compiler"""
    from sqlalchemy import bindparam, select, union

    S = _schema()
    t = S["t"]
    va, vb = INTS[p.get("va", 0)], INTS[p.get("vb", 0)]
    form = p.get("form", 0)
    inner = select(t.c.id, t.c.x).where(t.c.x == bindparam("p")).params(p=va)
    if form == 0:
        sq = inner.subquery("n")
        return select(sq.c.id, sq.c.x).order_by(sq.c.id).params(p=vb), None
    if form == 1:
        return union(inner, select(t.c.id, t.c.y).where(t.c.id < 0)).params(p=vb), None
    c = inner.cte("nc")
    return select(c.c.id).where(c.c.x.is_not(None)).order_by(c.c.id).params(p=vb), None


def build(fam, p):
    """-> (statement, execution parameters or None)"""
    if fam == "nest":
        return build_nest(p)
    if fam == "types":
        return build_types(p)
    if fam == "sib":
        return build_sib(p)
    if fam == "select":
        return build_select(p)
    if fam == "dml":
        return build_dml(p)
    if fam == "orm":
        return build_orm(p), None
    raise ValueError(fam)


# =====================================================================================================
# generic encoder: the implementation's object graph -> the model's statement trees
# =====================================================================================================
class Unsupported(Exception):
    pass


class Interner:
    def __init__(self):
        self.tab = {}

    def atom(self, v):
        """[aid, truthy]; None is [0, 0]"""
        if v is None:
            return [0, 0]
        try:
            from sqlalchemy.sql.elements import ClauseElement

            if isinstance(v, ClauseElement):
                raise TypeError
            k = ("v", v)
            hash(k)
            truthy = 1 if v else 0
        except Exception:
            k = ("id", id(v))
            truthy = 1
            self.tab.setdefault(("keepalive", id(v)), v)
        if isinstance(v, (list, dict, set)):
            truthy = 1 if v else 0
        if k not in self.tab:
            self.tab[k] = len(self.tab) + 1
        return [self.tab[k], truthy]


_ANON = re.compile(r"%\(([^ )]+) ([^)]*)\)s")


class Encoder:
    """encodes ONE statement; labels come from the anon_map of a real _gen_cache_key run"""

    def __init__(self, interner):
        f = facts()
        self.f = f
        self.aid = f["attr_id"]
        self.by_qual = {e["qual"]: e for e in f["classes"]}
        self.it = interner
        self.fresh = 1000000
        self.size = 0
        self.memo = {}
        self.open = set()

    def encode(self, stmt):
        from sqlalchemy.sql.visitors import anon_map

        self.am = anon_map()
        self.real_binds = []
        self.real_key = stmt._gen_cache_key(self.am, self.real_binds)
        from sqlalchemy.sql.cache_key import NO_CACHE

        self.cacheable = NO_CACHE not in self.am
        return self.node(stmt)

    def label(self, obj):
        v = dict.get(self.am, id(obj))
        if v is None:
            self.fresh += 1
            return self.fresh
        return v

    def _fresh(self):
        self.fresh += 1
        return self.fresh + 1000000

    def tup(self, items):
        """pseudo object for a tuple / dict entry; items: ('a', value) or ('k', element-or-None)"""
        atoms, kids = [], []
        if len(items) > TUPLE_W:
            raise Unsupported("tuple wider than %d" % TUPLE_W)
        for i, (kind, val) in enumerate(items):
            if kind == "a":
                a = self.it.atom(val)
                atoms.append([TUPLE_ATOM0 + i] + a)
            elif val is not None:
                kids.append([TUPLE_KID0 + i, [self.elem(val)]])
        self.size += 1
        return [self._fresh(), 0, atoms, kids]

    def elem(self, obj):
        """an element in a structural slot"""
        q = type(obj).__module__ + "." + type(obj).__name__
        e = self.by_qual.get(q)
        if isinstance(obj, type) or e is None or e["kind"] == "opaque":
            return self.opaque(obj)
        return self.node(obj)

    def opaque(self, obj):
        """objects outside the model (ORM entities, compile options classes, lambdas): their real key as one atom"""
        from sqlalchemy.sql.cache_key import NO_CACHE
        from sqlalchemy.sql.visitors import anon_map

        if hasattr(obj, "_gen_cache_key"):
            am = anon_map()
            k = obj._gen_cache_key(am, [])
            if NO_CACHE in am:
                raise Unsupported("uncacheable opaque object %r" % type(obj))
            return self.tup([("a", ("opaque", k))])
        return self.tup([("a", obj)])

    def resolve_anon(self, s):
        from sqlalchemy.sql.elements import _anonymous_label

        if not isinstance(s, _anonymous_label):
            return s
        am = self.am

        def rep(m):
            k = "%s %s" % (m.group(1), m.group(2))
            idx = dict.get(am, k)
            return "<anon %s>" % idx if idx is not None else m.group(0)

        return "\0anon:" + _ANON.sub(rep, str(s))

    def kids_of(self, obj, sym, val):
        from sqlalchemy import inspect as sa_inspect

        if val is None:
            return []
        if sym in ("dp_clauseelement", "dp_has_cache_key"):
            return [self.elem(val)]
        if sym == "dp_inspectable":
            return [self.elem(sa_inspect(val))]
        if sym in ("dp_clauseelement_list", "dp_clauseelement_tuple", "dp_has_cache_key_list", "dp_memoized_select_entities", "dp_fromclause_ordered_set"):
            return [self.elem(x) for x in val]
        if sym == "dp_clauseelement_unordered_set":
            return sorted((self.elem(x) for x in val), key=lambda n: n[0])
        if sym == "dp_executable_options":
            return [self.elem(x) for x in val if x._is_has_cache_key]
        if sym == "dp_inspectable_list":
            return [self.elem(sa_inspect(x)) for x in val]
        if sym == "dp_fromclause_canonical_column_collection":
            return [self.elem(col) for k, col, _ in val._collection]
        if sym in ("dp_clauseelement_tuples", "dp_has_cache_key_tuples"):
            return [self.tup([("k", x) for x in tp]) for tp in val]
        if sym == "dp_prefix_sequence":
            return [self.tup([("k", cl), ("a", sv)]) for cl, sv in val]
        if sym == "dp_setup_join_tuple":
            return [self.tup([("k", tg), ("k", on), ("k", fr), ("a", tuple((k, fl[k]) for k in sorted(fl)))]) for tg, on, fr, fl in val]
        if sym == "dp_table_hint_list":
            return [self.tup([("k", cl), ("a", dn), ("a", tx)]) for (cl, dn), tx in val.items()]
        if sym == "dp_dml_values":
            return [self.tup([("k", k) if hasattr(k, "__clause_element__") else ("a", k), ("k", val[k])]) for k in val]
        if sym == "dp_dml_ordered_values":
            return [self.tup([("k", k) if hasattr(k, "__clause_element__") else ("a", k), ("k", x)]) for k, x in val]
        if sym == "dp_string_clauseelement_dict":
            return [self.tup([("a", k), ("k", val[k])]) for k in sorted(val)]
        if sym == "dp_string_multi_dict":
            return [self.tup([("a", k), ("k", val[k]) if hasattr(val[k], "_gen_cache_key") else ("a", val[k])]) for k in sorted(val)]
        if sym == "dp_multi":
            return [self.elem(val)] if hasattr(val, "_gen_cache_key") else [self.tup([("a", val)])]
        if sym == "dp_multi_list":
            return [self.elem(x) if hasattr(x, "_gen_cache_key") else self.tup([("a", x)]) for x in val]
        raise Unsupported("no structural encoding for %s" % sym)

    def atom_of(self, obj, sym, val):
        from sqlalchemy.sql.cache_key import NO_CACHE

        if val is None:
            return [0, 0]
        if sym == "dp_type":
            k = val._static_cache_key
            if k is NO_CACHE:
                raise Unsupported("type without a static cache key")
            return self.it.atom(("type", k))
        if sym == "dp_anon_name":
            return self.it.atom(self.resolve_anon(val))
        if sym == "dp_plain_dict":
            return self.it.atom(tuple((k, val[k]) for k in sorted(val))) if val else self.it.atom(())
        if sym == "dp_dialect_options":
            return self.it.atom(tuple((dn, tuple((k, val[dn][k]) for k in sorted(val[dn]))) for dn in sorted(val))) if val else self.it.atom(())
        if sym in ("dp_string_list", "dp_statement_hint_list"):
            return self.it.atom(tuple(val))
        if sym == "dp_compile_state_funcs":
            return self.it.atom(tuple((fn.__code__, ck) for fn, ck in val))
        if sym == "dp_named_ddl_element":
            return self.it.atom(val.name)
        if sym == "dp_annotations_key":
            return self.it.atom(("ann", obj._annotations_cache_key)) if val else self.it.atom(())
        if sym == "dp_propagate_attrs":
            if not val:
                return self.it.atom(())
            ps = val.get("plugin_subject")
            return self.it.atom(("pa", val.get("compile_state_plugin"), id(ps) if ps is not None else None))
        if sym in ("dp_dml_multi_values", "dp_unknown_structure"):
            return [self.it.atom(("id", id(val)))[0], 1 if val else 0]
        return self.it.atom(val)

    def node(self, obj):
        # one object, one encoding (the same object met again is written out again, identically)
        if id(obj) in self.memo:
            self.size += self.memo[id(obj)][1]
            if self.size > 300:
                raise Unsupported("statement too large for the model runner")
            return self.memo[id(obj)][0]
        if id(obj) in self.open:
            raise Unsupported("cyclic object graph (%s)" % type(obj).__name__)
        self.open.add(id(obj))
        before = self.size
        self.size += 1
        n = self._node(obj)
        self.open.discard(id(obj))
        self.memo[id(obj)] = (n, self.size - before)
        if self.size > 300:
            raise Unsupported("statement too large for the model runner")
        return n

    def _node(self, obj):
        q = type(obj).__module__ + "." + type(obj).__name__
        e = self.by_qual.get(q)
        if e is None:
            raise Unsupported("class %s is not in the table" % q)
        if e["kind"] == "identity":
            return [self.label(obj), e["id"], [[0] + self.it.atom(("obj", id(obj)))], []]
        if e["kind"] == "nocache":
            return [self.label(obj), e["id"], [], []]
        atoms, kids = [], []
        done = set()
        for a, shape, sym in e["fields"]:
            done.add(a)
            if shape == H_SKIP:
                continue
            val = getattr(obj, a, None)
            if e["bind"] and a == "key" and obj._anon_map_key is not None:
                idx = dict.get(self.am, obj._anon_map_key)
                val = "\0anonkey:%s" % idx if idx is not None else obj._anon_map_key
                atoms.append([self.aid[a]] + self.it.atom(val))
                continue
            if shape == H_KIDS:
                ks = self.kids_of(obj, sym, val)
                if ks:
                    kids.append([self.aid[a], ks])
            else:
                atoms.append([self.aid[a]] + self.atom_of(obj, sym, val))
        for a in e["V"]:
            if a in done:
                continue
            # a compiler-read attribute that the key does not record: encode by the value's shape
            val = getattr(obj, a, None)
            gap = (e["visit"], a)
            if gap == ("label", "type") and val is not None and val._static_cache_key == obj._element.type._static_cache_key:
                val = None  # the default: the element's own type
            elif gap in GAP_DEFAULT:
                val = None if val == GAP_DEFAULT[gap] else ("non-default", val)
            self.auto(a, val, atoms, kids)
        if e["bind"]:
            atoms.append([1] + self.it.atom(_canon_val(obj.value)))
            atoms.append([2] + ([0, 0] if obj.callable is None else self.it.atom(("id", id(obj.callable)))))
            atoms.append([3] + self.it.atom(_canon_val(obj.effective_value)))
        return [self.label(obj), e["id"], atoms, kids]

    def auto(self, a, val, atoms, kids):
        from sqlalchemy.sql.type_api import TypeEngine

        if hasattr(val, "_gen_cache_key") and not isinstance(val, (type, TypeEngine)):
            kids.append([self.aid[a], [self.elem(val)]])
        elif isinstance(val, (list, tuple)) and val and all(hasattr(x, "_gen_cache_key") and not isinstance(x, type) for x in val):
            kids.append([self.aid[a], [self.elem(x) for x in val]])
        elif isinstance(val, TypeEngine):
            atoms.append([self.aid[a]] + self.it.atom(("type", val._static_cache_key)))
        else:
            atoms.append([self.aid[a]] + self.it.atom(val))


# =====================================================================================================
# implementation side
# =====================================================================================================
RELEVANT = {  # coordinate -> other coordinates that make it matter
    "lab": {"cols": 9}, "ltype": {"cols": 10}, "bexp": {"where": 14, "bcall": 0, "pm": 0, "breq": 0}, "bcall": {"where": 14, "bexp": 0, "pm": 0, "breq": 0},
    "over": {"cols": 6}, "fname": {"cols": 2}, "casttype": {"cols": 3}, "lit": {"where": 1}, "v": {"where": 1},
    "v2": {"where": 4}, "vs": {"where": 5}, "offset": {"limit": 1},
    "onc": {"kind": 0, "vals": 0}, "inline": {"kind": 0}, "dwhere": {"kind": 1}, "vals": {}, "pk": {"kind": 0, "vals": 0},
    "opt": {"ent": 0}, "join": {"ent": 0}, "corr": {"where": 19}, "pm": {"where": 14, "bexp": 0, "bcall": 0, "breq": 0},
    "breq": {"where": 14, "bexp": 0, "bcall": 0, "pm": 0},
    "neg": {"cols": 0}, "incdef": {"kind": 0, "vals": 4}, "col2": {"cols": 0, "group": 0}, "aname": {"frm": 4},
}
GAPCOORD = {  # bexp / corr / incdef are repaired: a hit on them is an ordinary violation again
    "ltype": "C02-label-type-not-in-key",
    "bcall": "C02-construct-params-callable-from-cached-bind",
    "breq": "C02-bindparam-required-not-in-key",
}


def canon_recipe(fam, p):
    """zero the coordinates that do not influence the statement built from p"""
    q = {k: p.get(k, 0) for k in FAMS[fam]}
    if fam == "select":
        if q["group"]:
            q["cols"] = 0
            if q["order"] == 5:
                q["order"] = 0
        c, w = q["cols"], q["where"]
        if c != 9:
            q["lab"] = 0
        if c != 10:
            q["ltype"] = 0
        if c != 6:
            q["over"] = 0
        if c != 2:
            q["fname"] = 0
        if c not in (3, 7):
            q["casttype"] = 0
        if w != 14:
            q["bexp"] = q["bcall"] = q["pm"] = q["breq"] = 0
        if q["bcall"]:
            q["bexp"] = 0
        if q["bcall"] or q["bexp"]:
            q["pm"] = q["breq"] = 0
        if q["breq"]:
            q["pm"] = 0
        if w != 19:
            q["corr"] = 0
        if c != 0:
            q["neg"] = q["col2"] = 0
        if q["frm"] not in (4, 6, 7):
            q["aname"] = 0
        if not q["limit"] and not q["offset"]:
            pass
    elif fam == "dml":
        k = q["kind"]
        if k != 0:
            q["onc"] = q["inline"] = q["pk"] = q["incdef"] = 0
        if k == 0 and q["vals"] != 4:
            q["incdef"] = 0
        if k == 0:
            q["dwhere"] = 0
            q["prefix"] = 0
        if k == 2:
            q["vals"] = 0
        if q["vals"] in (4, 5) and k == 0:
            q["many"] = 0
    elif fam == "orm":
        if q["ent"] not in (0, 2):
            q["opt"] = 0
        if q["ent"] >= 2 and q["join"] == 0:
            q["join"] = 1
    return q


def recipe_diff(fam, a, b):
    ca, cb = canon_recipe(fam, a), canon_recipe(fam, b)
    return sorted(k for k in ca if ca[k] != cb[k])


_ENG = {}


def impl_setup():
    import warnings

    warnings.simplefilter("ignore")
    facts()


def _engine(size):
    if size in _ENG:
        return _ENG[size]
    import datetime

    from sqlalchemy import create_engine, event

    S = _schema()
    e = create_engine("sqlite://", query_cache_size=size)
    S["m"].create_all(e)
    with e.begin() as c:
        c.execute(S["t"].insert(), [
            dict(id=i, x=(None if i % 5 == 0 else i % 4 + 1), y=(i * 3) % 7, s=["s1", "s%x", "a", "ab", None][i % 5], b=bool(i % 2),
                 d=datetime.datetime(2020, 1, 1 + i % 9)) for i in range(1, 13)])
        c.execute(S["u"].insert(), [dict(id=i, tid=(i * 5) % 13 or None, v=i % 6, name="n%d" % i) for i in range(1, 10)])
        c.execute(S["A"].__table__.insert(), [dict(id=i, x=i % 4 + 1, s="s%d" % i) for i in range(1, 7)])
        c.execute(S["B"].__table__.insert(), [dict(id=i, a_id=i % 4 + 1, v=i % 5) for i in range(1, 11)])
    log = []

    @event.listens_for(e, "before_cursor_execute")
    def _bce(conn, cursor, statement, parameters, context, executemany):
        log.append((statement, parameters, context))

    _ENG[size] = (e, log)
    return _ENG[size]


def _canon_val(v):
    if isinstance(v, (list, tuple)):
        return ("list",) + tuple(_canon_val(x) if isinstance(x, (list, tuple)) else x for x in v)
    return v


def _rows(res, orm):
    if orm:
        out = []
        for row in res.unique().all():
            r = []
            for x in row:
                if hasattr(x, "__table__"):
                    d = x.__dict__
                    r.append(repr((type(x).__name__, tuple(sorted((k, (tuple((b.id, b.v) for b in v) if isinstance(v, list) else v)) for k, v in d.items() if not k.startswith("_"))))))
                else:
                    r.append(repr(x))
            out.append(r)
        return out
    if res.returns_rows:
        return [[repr(x) for x in row] for row in res.all()]
    return [["rowcount", res.rowcount]]


def _execute(size, stmt, params, nocache, orm):
    """-> (rows | exception marker, [(text, params, context)])"""
    e, log = _engine(size)
    del log[:]
    try:
        if orm:
            from sqlalchemy.orm import Session

            with Session(e) as s:
                res = s.execute(stmt, params or {}, execution_options={"compiled_cache": None} if nocache else {})
                rows = _rows(res, True)
                s.rollback()
        else:
            with e.connect() as c:
                cc = c.execution_options(compiled_cache=None) if nocache else c
                res = cc.execute(stmt, params) if params else cc.execute(stmt)
                rows = _rows(res, False)
                if getattr(stmt, "is_dml", False):  # the effect on the table, before it is rolled back
                    logged = list(log)
                    rows = rows + [["table"] + [repr(tuple(r)) for r in c.exec_driver_sql("select id, x, y, s from t order by id").fetchall()]]
                    del log[:]
                    log.extend(logged)
                c.rollback()
    except Exception as ex:  # the same exception must come with and without the cache
        rows = ["EXC", type(ex).__name__]
        try:
            with e.connect() as c:
                c.rollback()
        except Exception:
            pass
    return rows, list(log)


def _seen(log):
    return [[st, repr(pa)] for st, pa, _ in log]


def _compare_exec(size, stmt, params, orm, ordered):
    """execute through the cache, then with compiled_cache=None; -> (violation or None, cached log)"""
    r1, l1 = _execute(size, stmt, params, False, orm)
    r2, l2 = _execute(size, stmt, params, True, orm)
    k1, k2 = (r1, r2) if ordered or not isinstance(r1, list) else (sorted(map(repr, r1)), sorted(map(repr, r2)))
    if orm:
        s1, s2 = _seen(l1[:1]), _seen(l2[:1])
    else:
        s1, s2 = _seen(l1), _seen(l2)
    if s1 != s2:
        return "cursor saw %r through the cache but %r with compiled_cache=None" % (s1, s2), l1
    if k1 != k2:
        return "rows through the cache %r differ from rows with compiled_cache=None %r (statement %r)" % (str(r1)[:300], str(r2)[:300], s1[:1]), l1
    return None, l1


def _is_ordered(fam, p):
    return fam != "select" or canon_recipe(fam, p)["order"] != 0


def _bind_obs(enc, it):
    out = []
    for bp in enc.real_binds:
        lbl = dict.get(enc.am, id(bp))
        out.append([lbl, it.atom(_canon_val(bp.value))[0], 0 if bp.callable is None else 1, it.atom(_canon_val(bp.effective_value))[0]])
    return out


def _pack(n):
    """wire format of a node: plain attributes as one integer each, None-valued ones left out"""
    return [n[0], n[1], [a[0] + 1000 * (2 * a[1] + a[2]) for a in n[2] if a[1] or a[2]], [[k[0], [_pack(x) for x in k[1]]] for k in n[3]]]


def _sqlite_dialect():
    if "d" not in _S:
        from sqlalchemy.dialects import sqlite

        _S["d"] = sqlite.dialect()
    return _S["d"]


def _psets(params):
    """the parameter sets of an execution: [] (none), one, or several (executemany)"""
    if not params:
        return []
    return list(params) if isinstance(params, list) else [params]


def _pkeys(params):
    ps = _psets(params)
    return (tuple(sorted(ps[0])) if ps else (), len(ps) > 1)


def _ckw(params):
    ps = _psets(params)
    kw = {"column_keys": sorted(ps[0])} if ps else {}
    if len(ps) > 1:
        kw["for_executemany"] = True
    return kw


def _type_args(ty, it):
    """per constructor argument name of the class: [k in __dict__ (public names only), value atom]"""
    from sqlalchemy import util
    from sqlalchemy.sql.type_api import TypeEngine

    out = []
    for k in util.get_cls_kwargs(type(ty)):
        present = k in ty.__dict__ and not k.startswith("_")
        v = ty.__dict__.get(k)
        if isinstance(v, TypeEngine):
            v = ("type", v._static_cache_key)
        out.append([1 if present else 0] + it.atom(v))
    return out


def _compile_facts(stmt, params):
    d = _sqlite_dialect()
    kw = _ckw(params)
    try:
        c = stmt.compile(dialect=d, **kw)
    except Exception as ex:  # a statement that does not compile must not compile under an equal key either
        return None, "does not compile: %s" % type(ex).__name__, [], []
    names = list(c.positiontup or [])
    types = [c.binds[n].type._static_cache_key for n in names]
    return c, str(c), names, types


def impl_pair(c):
    fam = c["fam"]
    it = Interner()
    (s1, p1), (s2, p2) = build(fam, c["a"]), build(fam, c["b"])
    orm = fam == "orm"
    diff = recipe_diff(fam, c["a"], c["b"])
    tag = " [diff: %s]" % ",".join(diff)
    obs = {"viol": None, "model_in": [9], "model_out": [-999], "modelled": 0, "diff": diff}
    e1, e2 = Encoder(it), Encoder(it)
    try:
        if fam == "types":
            t1, t2 = build_type(c["a"]), build_type(c["b"])
            if t1 is None or t2 is None:
                obs["unsupported"] = "no such type / argument value rejected by the constructor"
                return obs
            k1, k2 = t1._static_cache_key, t2._static_cache_key
            cls_, args_ = type_catalogue()[c["a"]["tcls"]]
            tag += " [type-arg: %s.%s]" % (cls_.__name__, args_[c["a"]["arg"]])
            obs["model_in"] = [2, _type_args(t1, it), _type_args(t2, it)]
            obs["model_out"] = 1 if k1 == k2 else 0
            obs["modelled"] = 1
            raise Unsupported("")
        if not c.get("model", True):
            raise Unsupported("oracle only")
        n1, n2 = e1.encode(s1), e2.encode(s2)
        eq = 1 if (e1.cacheable and e2.cacheable and e1.real_key == e2.real_key) else 0
        if not orm:
            one = lambda e: [1, 1, 1, _bind_obs(e, it)] if e.cacheable else [0, 1, 1, []]
            obs["model_in"] = [0, _pack(n1), _pack(n2)]
            obs["model_out"] = [one(e1), one(e2), eq]
            obs["modelled"] = 1
            obs["same_tree"] = 1 if n1 == n2 else 0
    except Unsupported as ex:
        if str(ex):
            obs["unsupported"] = str(ex)
        k1, k2 = s1._generate_cache_key(), s2._generate_cache_key()
        eq = 1 if (k1 is not None and k2 is not None and k1.key == k2.key) else 0
    obs["eq"] = eq
    # ---- the property, directly ----
    if eq and _pkeys(p1) == _pkeys(p2):  # same column_keys / executemany flag: same compiled-cache key
        c1, t1, nm1, ty1 = _compile_facts(s1, p1)
        c2, t2, nm2, ty2 = _compile_facts(s2, p2)
        if t1 != t2:
            obs["viol"] = "equal cache keys but different SQL: %r vs %r%s" % (t1, t2, tag)
            return obs
        if ty1 != ty2:
            obs["viol"] = "equal cache keys but different parameter types: %r vs %r (%s)%s" % (ty1, ty2, t1, tag)
            return obs
        if c1 is not None:
            d = _sqlite_dialect()
            for (sa, pa, sb, pb) in ((s1, p1, s2, p2), (s2, p2, s1, p1)):
                ka, kb = sa._generate_cache_key(), sb._generate_cache_key()
                kw = _ckw(pa)
                ca = sa.compile(dialect=d, cache_key=ka, **kw)
                cb = sb.compile(dialect=d, **kw)
                gv, wv = [], []
                for m in _psets(pb) or [None]:  # every parameter set of the execution
                    try:
                        got = ca.construct_params(m, extracted_parameters=kb.bindparams, _collected_params=kb.params)
                        gv.append([repr(got.get(n)) for n in (ca.positiontup or [])])
                    except Exception as ex:
                        gv.append("raises %s" % type(ex).__name__)
                    try:
                        want = cb.construct_params(m)
                        wv.append([repr(want.get(n)) for n in (cb.positiontup or [])])
                    except Exception as ex:
                        wv.append("raises %s" % type(ex).__name__)
                if gv != wv:
                    obs["viol"] = "a compilation cached for one statement, given the extracted parameters of the other, yields %r; the other's own values are %r (%s)%s" % (gv, wv, t1, tag)
                    return obs
    # warm with one, execute the other: same text, parameters and rows as without the cache
    for (sa, pa, ra, sb, pb, rb) in ((s1, p1, c["a"], s2, p2, c["b"]), (s2, p2, c["b"], s1, p1, c["a"])):
        e, _ = _engine(500)
        e.clear_compiled_cache()
        v, _ = _compare_exec(500, sa, pa, orm, _is_ordered(fam, ra))  # cold cache
        if v:
            obs["viol"] = "on a cold cache: " + v + tag
            return obs
        v, _ = _compare_exec(500, sb, pb, orm, _is_ordered(fam, rb))  # warm: the sibling's compilation may be reused
        if v:
            obs["viol"] = "after executing a sibling statement: " + v + tag
            return obs
    return obs


def _hole_labels(enc, compiled):
    """positiontup of a compilation as labels of the statement's bind parameter objects"""
    names = list(compiled.positiontup or [])
    byname = {}
    for bp, nm in compiled.bind_names.items():
        byname.setdefault(nm, []).append(bp)
    out = []
    for nm in names:
        lbl = None
        for bp in byname.get(nm, []):
            for b in [bp] + list(bp._cloned_set):
                lbl = dict.get(enc.am, id(b))
                if lbl is not None:
                    break
            if lbl is not None:
                break
        out.append(lbl)  # None: a bind parameter the compiler made up itself (LIMIT -1 / OFFSET 0 ...)
    return out


def impl_hist(c):
    from sqlalchemy.engine.default import CacheStats

    size = c["cap"]
    e, _ = _engine(size)
    e.clear_compiled_cache()
    it = Interner()
    obs = {"viol": None, "model_in": [9], "model_out": [-999], "modelled": 0, "hits": 0}
    stmts, steps, outs = [], [], []
    modelled = c.get("try_model", True)
    keys = []  # per step: (statement cache key, execution parameter names)
    populated = {}  # id(compiled) -> step index that compiled it
    populated_holes = {}  # id(compiled) -> hole labels (None: compiler-made bind), in the numbering of the compiled statement
    populated_names = {}  # id(compiled) -> {bind key: label} of the statement's own bind parameters
    keep = []
    for i, st in enumerate(c["steps"]):
        fam, p, enabled = st["fam"], st["p"], st["on"]
        stmt, params = build(fam, p)
        orm = fam == "orm"
        keep.append(stmt)
        # through the cache (or with the cache disabled for this step), then the reference
        rows, log = _execute(size, stmt, params, not enabled, orm)
        rref, lref = _execute(size, stmt, params, True, orm)
        ordered = _is_ordered(fam, p)
        ka, kb = (rows, rref) if ordered or not isinstance(rows, list) else (sorted(map(repr, rows)), sorted(map(repr, rref)))
        sa, sb = (_seen(log[:1]), _seen(lref[:1])) if orm else (_seen(log), _seen(lref))
        ctx = log[0][2] if log else None
        comp = ctx.compiled if ctx is not None else None
        src = populated.get(id(comp)) if comp is not None else None
        if comp is not None and src is None:
            populated[id(comp)] = i
            keep.append(comp)
        try:
            ck = stmt._generate_cache_key()
            keys.append((ck.key if ck is not None else None, _pkeys(params)))
        except Exception:
            keys.append((None, ()))
        if obs["viol"] is None and (sa != sb or ka != kb):
            tag = ""
            if src is None and keys[i][0] is not None:
                # the cursor was not reached (the cached compilation failed earlier): the compilation in use
                # came from an earlier step with an equal key; name the most recent structurally different one
                for j in range(i - 1, -1, -1):
                    if keys[j] == keys[i] and c["steps"][j]["fam"] == fam and set(recipe_diff(fam, p, c["steps"][j]["p"])) - LITERAL_COORDS:
                        src = j
                        break
            if src is not None:
                sf, sp = c["steps"][src]["fam"], c["steps"][src]["p"]
                tag = " [diff: %s]" % ",".join(recipe_diff(fam, p, sp)) if sf == fam else " [diff: family]"
                tag += " (step %d served by the compilation of step %d)" % (i, src)
            if sa != sb:
                obs["viol"] = "step %d: cursor saw %r through the cache but %r with compiled_cache=None%s" % (i, sa, sb, tag)
            else:
                obs["viol"] = "step %d: rows through the cache %r differ from rows with compiled_cache=None %r (%r)%s" % (i, str(rows)[:300], str(rref)[:300], sa[:1], tag)
        if ctx is not None and ctx.cache_hit is CacheStats.CACHE_HIT and src is not None and recipe_diff(fam, p, c["steps"][src]["p"]):
            obs["hits"] += 1
        if not modelled or orm:
            modelled = False
            continue
        try:
            if fam == "select" and canon_recipe(fam, p)["pm"] == 2:
                raise Unsupported("statement-level parameter sets (.params()) are not in the model")
            enc = Encoder(it)
            n = enc.encode(stmt)
            if ctx is None:
                raise Unsupported("no cursor execution")
            hit = {CacheStats.CACHE_HIT: 1, CacheStats.CACHE_MISS: 0}.get(ctx.cache_hit, 2)
            hl = _hole_labels(enc, comp) if hit != 1 else populated_holes[id(comp)]
            populated_holes.setdefault(id(comp), hl)
            if hit != 1:
                nm2l = {}
                for bp, nm in comp.bind_names.items():
                    for b in [bp] + list(bp._cloned_set):
                        lbl = dict.get(enc.am, id(b))
                        if lbl is not None:
                            nm2l[bp.key] = lbl
                            break
                populated_names.setdefault(id(comp), nm2l)
            names = populated_names.get(id(comp), {})
            holes = [] if hit == 1 else [h for h in hl if h is not None]
            # what DefaultExecutionContext._init_compiled got from construct_params for every parameter set
            # (recomputed only where IN-list expansion has already replaced it)
            psets = _psets(params) or [{}]
            got = list(ctx.compiled_parameters)
            if len(got) != len(psets):
                raise Unsupported("parameter sets were regrouped")
            vals, sets = [], []
            for m, cp in zip(psets, got):
                if any(nm not in cp for nm in (comp.positiontup or [])):
                    cp = comp.construct_params(m or None, extracted_parameters=ctx.extracted_parameters, escape_names=False, _no_postcompile=True)
                if any(nm not in cp for nm in (comp.positiontup or [])):
                    raise Unsupported("escaped parameter names")
                vals.append([it.atom(_canon_val(cp.get(nm)))[0] for nm, h in zip(comp.positiontup or [], hl) if h is not None])
                sets.append(sorted([names[k], it.atom(_canon_val(m[k]))[0]] for k in m if k in names))
            ctxa = it.atom(("ctx",) + _pkeys(params))[0]
            pn = _pack(n)
            if pn not in stmts:
                stmts.append(pn)
            steps.append([ctxa, stmts.index(pn), 1 if enabled else 0, holes, sets])
            outs.append([hit, vals])
        except Unsupported as ex:
            obs["unsupported"] = str(ex)
            modelled = False
    if modelled:
        obs["model_in"] = [1, size, stmts, steps]
        obs["model_out"] = outs
        obs["modelled"] = 1
    return obs


_COUNT = {}


def impl(c):
    o = impl_hist(c) if c.get("mode") == "hist" else impl_pair(c)
    k = ("history" if c.get("mode") == "hist" else "pair") + ("_modelled" if o.get("modelled") else "_oracle_only")
    _COUNT[k] = _COUNT.get(k, 0) + 1
    if o.get("unsupported"):
        r = "not_modelled: " + re.sub(r"[0-9_]+", "", o["unsupported"])[:60]
        _COUNT[r] = _COUNT.get(r, 0) + 1
    if c.get("mode") == "hist":
        _COUNT["history_hits_on_different_literals"] = _COUNT.get("history_hits_on_different_literals", 0) + o.get("hits", 0)
    return o


def model_pair(c, obs):
    return obs["model_in"], obs["model_out"]


def oracle(c, obs):
    return obs.get("viol")


def match_finding(c, what):
    if re.search(r"\[type-arg: (DATETIME|DATE|TIME)\.(storage_format|regexp)\]", what or ""):
        return "C02-sqlite-datetime-storage-format-not-in-type-key"
    if c.get("fam") == "sib" or (c.get("mode") == "hist" and c.get("steps") and c["steps"][0]["fam"] == "sib"):
        return "C02-sibling-params-same-name"
    m = re.search(r"\[diff: ([a-z0-9_,]*)\]", what or "")
    if not m:
        return None
    structural = [k for k in m.group(1).split(",") if k and k not in LITERAL_COORDS]
    if structural and all(k in GAPCOORD for k in structural):
        return GAPCOORD[structural[0]]
    return None


def nontrivial(c):
    if c.get("mode") == "hist":
        ps = [(s["fam"], tuple(sorted(canon_recipe(s["fam"], s["p"]).items()))) for s in c["steps"]]
        return len(set(ps)) >= 3
    return bool(recipe_diff(c["fam"], c["a"], c["b"]))


# =====================================================================================================
# case generation
# =====================================================================================================
def _rand_recipe(rng, fam, plain=0.55):
    sp = FAMS[fam]
    p = {}
    for k, n in sp.items():
        p[k] = rng.randrange(n) if rng.random() > plain else 0
    if fam == "select":
        if p["group"]:
            p["setop"] = 0
        if p["setop"]:
            p["order"] = 0 if p["order"] != 5 else 5
            p["limit"] = p["offset"] = 0
            p["fu"] = 0
        if p["frm"] in (4, 5, 6, 7) and p["where"] in (9, 10, 12):
            pass
    return p


def _rtree(fam, p):
    return [sorted(FAMS).index(fam)] + [p.get(k, 0) for k in sorted(FAMS[fam])]


def _pairs_for(rng, fam, k, kmodel):
    """for every coordinate, k random bases (the first kmodel of them also go through the Coq model;
    the direct oracle runs on all)"""
    out = []
    sp = FAMS[fam]
    for coord, n in sp.items():
        for j in range(k):
            base = _rand_recipe(rng, fam)
            for kk, vv in RELEVANT.get(coord, {}).items():
                base[kk] = vv
            if fam == "dml" and coord in ("v", "v2", "vs"):
                # a literal in the statement: alternately a plain execution and an executemany
                base["many"] = 1 - j % 2
                base["kind"] = {"v": 0, "v2": 1 + j % 2, "vs": 0}[coord]
                base["vals"] = {"v": 0, "v2": 0, "vs": 1}[coord]
            if fam == "select" and coord in ("limit", "offset", "order", "fu") and base["setop"]:
                base["setop"] = 0
            if fam == "select" and coord not in ("group",) and coord in ("cols", "lab", "ltype", "over", "fname", "casttype", "order"):
                base["group"] = 0
            for alt in range(n):
                if alt == base[coord]:
                    continue
                b = dict(base)
                b[coord] = alt
                if fam == "select" and coord == "setop" and alt:
                    b["limit"] = b["offset"] = b["fu"] = 0
                    base2 = dict(base, limit=0, offset=0, fu=0)
                else:
                    base2 = base
                out.append({"in": [_rtree(fam, base2), _rtree(fam, b)], "mode": "pair", "fam": fam, "a": base2, "b": b, "kind": "pair-%s:%s" % (fam, coord), "model": fam != "orm" and j < kmodel})
    return out


def _history(rng, fam_mix):
    cap = rng.choice([500, 500, 2, 2, 1])
    fam = rng.choice(fam_mix)
    bases = [_rand_recipe(rng, fam, 0.45) for _ in range(rng.randint(1, 3))]
    if fam == "select" and rng.random() < 0.5:
        bases[0]["where"] = rng.choice([1, 2, 4, 7, 14])
    steps = []
    for _ in range(rng.randint(6, 14)):
        p = dict(rng.choice(bases))
        for k in sorted(LITERAL_COORDS):
            if k in p and k != "pm":
                p[k] = rng.randrange(FAMS[fam][k])
        if rng.random() < 0.25:
            k = rng.choice(sorted(FAMS[fam]))
            p[k] = rng.randrange(FAMS[fam][k])
            if fam == "select" and p.get("setop"):
                p["limit"] = p["offset"] = p["fu"] = 0
                p["group"] = 0
        steps.append({"fam": fam, "p": p, "on": rng.random() < 0.85})
    return {"in": [cap] + [_rtree(st["fam"], st["p"]) + [int(st["on"])] for st in steps], "mode": "hist", "cap": cap, "steps": steps, "kind": "history-%s-cap%d" % (fam, cap), "model": True, "try_model": fam in ("select", "dml")}


def gen_cases(rng, tier):
    """quick: every coordinate x every alternative from 4 (select) / 3 (dml) / 2 (orm) random bases, the first base
    of each also through the Coq model; thorough: 20 / 12 / 8 bases, 6 / 4 modelled"""
    thorough = tier == "thorough"
    cases = []
    cases += _pairs_for(rng, "select", 20 if thorough else 4, 6 if thorough else 1)
    cases += _pairs_for(rng, "dml", 12 if thorough else 3, 4 if thorough else 1)
    cases += _pairs_for(rng, "orm", 8 if thorough else 2, 0)
    for tc in range(TYPES["tcls"]):  # every type class x constructor argument x pairs of {None, 0, False, '', 2, True}
        for ar in range(TYPES["arg"]):
            for i, j in (_TYPE_PAIRS_ALL if thorough else _TYPE_PAIRS_QUICK):
                a = {"tcls": tc, "arg": ar, "va": i, "v": 0}
                b = dict(a, va=j)
                cases.append({"in": [_rtree("types", a), _rtree("types", b)], "mode": "pair", "fam": "types", "a": a, "b": b, "kind": "pair-types:va", "model": True})
    for i in range(3):
        a = {"va": i, "vb": (i + 1) % 4}
        b = {"va": (i + 2) % 4, "vb": i}
        cases.append({"in": [_rtree("sib", a), _rtree("sib", b)], "mode": "pair", "fam": "sib", "a": a, "b": b, "kind": "pair-sib:values", "model": False})
    for form in range(NEST["form"]):
        for i in range(4 if thorough else 2):
            a = {"form": form, "va": i, "vb": (i + 1) % 4}
            b = {"form": form, "va": (i + 2) % 4, "vb": (i + 3) % 4}
            cases.append({"in": [_rtree("nest", a), _rtree("nest", b)], "mode": "pair", "fam": "nest", "a": a, "b": b, "kind": "pair-nest:values", "model": False})
    nr = 400 if thorough else 40
    for j in range(nr):
        fam = rng.choice(["select", "select", "dml"])
        a, b = _rand_recipe(rng, fam, 0.4), _rand_recipe(rng, fam, 0.4)
        cases.append({"in": [_rtree(fam, a), _rtree(fam, b)], "mode": "pair", "fam": fam, "a": a, "b": b, "kind": "pair-%s:random" % fam, "model": j % (4 if thorough else 2) == 0})
    nh = 1000 if thorough else 70
    for j in range(nh):
        h = _history(rng, ["select", "select", "select", "dml", "orm"])
        if j % (4 if thorough else 2):
            h["try_model"] = False
        cases.append(h)
    return cases
