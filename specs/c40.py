"""C40 - loader strategies change how data is loaded, never what is loaded."""
import itertools
import re

ID = "C40"
LEVEL = "proof"
PROPS = "props/C40.v"
RUNNER = ("SAV.orm.LoadersRun", "run_case")
STATIC_MODULES = ["SAV.orm.LoadersRun"]
RULE = (
    "a case = (walk of 1-3 relationships through the schema M<-P<-C<-G, P<-D, T<-C with many-to-one and "
    "one-to-many steps mixed, generated rows with NULL foreign keys / empty collections / duplicate values, "
    "a root query: filter | duplicating JOIN | EXISTS, DISTINCT | GROUP BY, one of 4 total orders, LIMIT, "
    "OFFSET) x ALL 5^n assignments of lazy/joined/subquery/selectin(chunk 1..3 or default)/immediate for "
    "n<=2 (a sample of 30 of the 125 for n=3); per assignment the object-graph snapshot and the set of "
    "emitted SELECTs abstracted to plan shapes (FROM/JOIN structure, subquery wrapping, IN keys, ORDER BY "
    "and LIMIT placement) are compared with the model; non-trivial = at least one loaded collection has "
    ">= 2 members or the root query has LIMIT/OFFSET/DISTINCT.  Extra families: the input class of the "
    "subquery DISTINCT/OFFSET defect; 501 parents (default chunk size 500 splits); and, ORACLE ONLY (the model "
    "has no columns), column-loader options defer / load_only / undefer / with_expression / untriggered "
    "raiseload at every level of the walk combined with all strategy assignments.  Composite primary keys "
    "(2 and 3 columns) whose join condition lists the columns in another order than the primary key, with "
    "mirrored key values and NULL components, both directions, every strategy (model: key-tuple extraction of "
    "selectin).  Histories: tables of the walk pre-loaded into the Session (plainly, or with every other "
    "relationship loaded) before the query, incl. a unidirectional chain x->y->z whose middle objects have "
    "nothing unloaded but the walk's collection (graph compared with model and meaning; plan not compared).  "
    "Polymorphic many-to-one: a joined-table hierarchy with an instantiable base, relationships targeting the "
    "base / a subclass / a sub-subclass through one foreign key, referenced rows of any class, some already in "
    "the Session (model: the identity-map shortcut of lazy/immediate loading)"
)
TRUSTED = [
    "hand-written Gallina transcription of the statement construction and row processing of "
    "orm/strategies.py (_LazyLoader, _JoinedLoader, _SubqueryLoader, _SelectInLoader, _ImmediateLoader), "
    "orm/context.py (_should_nest_selectable, _compound_eager_statement, _simple_statement) and "
    "orm/loading.py (_PostLoad merging), pinned to the normalised source and compared behaviourally "
    "(results and plan shapes) on every run",
    "relational semantics of SELECT / JOIN / LEFT OUTER JOIN / DISTINCT / ORDER BY on a total key / LIMIT "
    "as list programs (validated against SQLite through the implementation on every run)",
    "the SQL-text-to-plan-shape abstraction in specs/c40.py",
]
ASSUMPTIONS = [
    "primary keys are unique; the root query and every collection are ordered by a total order (ending "
    "in the primary key) - otherwise the database chooses the order and 'identical order' is not defined",
    "SQLite only; single-column integer keys; no inheritance, no yield_per, fresh Session per load",
]
ANCHORS = [
    ("lib/sqlalchemy/orm/context.py", "_ORMSelectCompileState._should_nest_selectable"),
    ("lib/sqlalchemy/orm/context.py", "_ORMSelectCompileState._compound_eager_statement"),
    ("lib/sqlalchemy/orm/context.py", "_ORMSelectCompileState._simple_statement"),
    ("lib/sqlalchemy/orm/strategies.py", "_SelectInLoader._set_chunksize"),
    ("lib/sqlalchemy/orm/strategies.py", "_SelectInLoader._load_via_parent"),
    ("lib/sqlalchemy/orm/strategies.py", "_SelectInLoader._load_via_child"),
    ("lib/sqlalchemy/orm/strategies.py", "_SubqueryLoader._generate_from_original_query"),
    ("lib/sqlalchemy/orm/strategies.py", "_SubqueryLoader._SubqCollections._load"),
    ("lib/sqlalchemy/orm/strategies.py", "_SubqueryLoader._create_collection_loader"),
    ("lib/sqlalchemy/orm/strategies.py", "_SubqueryLoader._create_scalar_loader"),
    ("lib/sqlalchemy/orm/strategies.py", "_SubqueryLoader._setup_options"),
    ("lib/sqlalchemy/orm/strategies.py", "_SubqueryLoader._setup_outermost_orderby"),
    ("lib/sqlalchemy/orm/strategies.py", "_SubqueryLoader._apply_joins"),
    ("lib/sqlalchemy/orm/strategies.py", "_SelectInLoader._load_for_path"),
    ("lib/sqlalchemy/orm/strategies.py", "_SelectInLoader._init_for_omit_join"),
    ("lib/sqlalchemy/orm/strategies.py", "_SelectInLoader._init_for_omit_join_m2o"),
    ("lib/sqlalchemy/orm/strategies.py", "_LazyLoader._emit_lazyload"),
    ("lib/sqlalchemy/orm/strategies.py", "_JoinedLoader.setup_query"),
    ("lib/sqlalchemy/orm/strategies.py", "_JoinedLoader._create_eager_join"),
    ("lib/sqlalchemy/orm/strategies.py", "_JoinedLoader._create_collection_loader"),
    ("lib/sqlalchemy/orm/strategies.py", "_JoinedLoader._create_scalar_loader"),
    ("lib/sqlalchemy/orm/strategies.py", "_ImmediateLoader._load_for_path"),
    ("lib/sqlalchemy/orm/loading.py", "_PostLoad.invoke"),
    ("lib/sqlalchemy/orm/loading.py", "get_from_identity"),
    ("lib/sqlalchemy/orm/strategies.py", "_LazyLoader._load_for_state"),
]

# ------------------------------------------------------------------------------------------------
# schema: tables, and for each relationship (owner, attribute) -> (target, kind, order code, fk column)
# kind 0 = Down (one-to-many collection, fk on the target), 1 = Up (many-to-one scalar, fk on the owner)
# order codes: 0 id, 1 id desc, 2 (v, id), 3 (v desc, id), 4 none
TABLES = ["m", "p", "c", "g", "d", "t", "x", "y", "z"]
RELS = {
    ("m", "ps"): ("p", 0, 0, "mid"),
    ("p", "m"): ("m", 1, 4, "mid"),
    ("p", "cs"): ("c", 0, 2, "pid"),
    ("c", "p"): ("p", 1, 4, "pid"),
    ("p", "ds"): ("d", 0, 3, "pid"),
    ("d", "p"): ("p", 1, 4, "pid"),
    ("c", "gs"): ("g", 0, 1, "cid"),
    ("g", "c"): ("c", 1, 4, "cid"),
    ("t", "cs"): ("c", 0, 0, "tid"),
    ("c", "t"): ("t", 1, 4, "tid"),
    # unidirectional chain x -> y -> z (no reverse relationships: a y object has nothing but y.zs to load)
    ("x", "ys"): ("y", 0, 0, "xid"),
    ("y", "zs"): ("z", 0, 2, "yid"),
}
FKS = {"m": [], "p": ["mid"], "c": ["pid", "tid"], "g": ["cid"], "d": ["pid"], "t": [], "x": [], "y": ["xid"], "z": ["yid"]}
FK_TARGET = {("p", "mid"): "m", ("c", "pid"): "p", ("c", "tid"): "t", ("g", "cid"): "c", ("d", "pid"): "p",
             ("y", "xid"): "x", ("z", "yid"): "y"}
REL_IDS = sorted(RELS)  # a relationship is named in a case by its index here

LAZY, JOINED, SUBQ, IMM, SEL_DEFAULT = 0, 1, 2, 3, 4  # selectin with chunksize k>=1: 10 + k
SIDE_LVL = 50  # plan-shape code of the table a root query joins to when it is not the first walk table


# composite-key family (c["in"][0] == 77): relationship -> (parent table, child table, number of key columns,
# (parent column index, child column index) pairs in the order of relationship.local_remote_pairs, which is the
# order of the child's columns / of an explicit primaryjoin - not the primary key's)
KEYRELS = [
    ("kp", "kab", "kids_ab", 2, [[0, 1], [1, 2]]),  # FOREIGN KEY (pa, pb) REFERENCES kp (a, b)
    ("kp", "kba", "kids_ba", 2, [[1, 2], [0, 1]]),  # FOREIGN KEY (pb, pa) REFERENCES kp (b, a)
    ("kq", "kcab", "kids", 3, [[2, 3], [0, 1], [1, 2]]),  # FOREIGN KEY (pc, pa, pb) REFERENCES kq (c, a, b)
]


# polymorphic family (c["in"][0] == 78): joined-table hierarchy pb (instantiable base) <- pc1, pc2 <- pg; table
# po with one foreign key to pb and a many-to-one relationship per target class
POLY_PARENT = [None, 0, 0, 2]  # class -> parent class (0 PB, 1 PC1, 2 PC2, 3 PG)
POLY_RELS = ["parent", "child1", "child2", "gchild"]  # po.<rel> targets class i


def _gen_poly_case(rng):
    n = rng.randint(1, 6)
    rows = [[i, rng.choice([0, 0, 1, 2, 2, 3])] for i in range(1, n + 1)]
    others = [[i, rng.choice([None] + list(range(1, n + 2)))] for i in range(1, rng.randint(2, 6) + 1)]
    target = rng.choice([0, 1, 2, 2, 3])
    pre = rng.choice([[], [r[0] for r in rows], [r[0] for r in rows if rng.random() < 0.5]])
    codes = [LAZY, JOINED, SUBQ, IMM, rng.choice([SEL_DEFAULT, 11, 12])]
    return {"in": [78, POLY_PARENT, rows, others, target, pre, codes, 0], "kind": "poly"}


def _gen_keys_case(rng):
    ri = rng.randrange(len(KEYRELS))
    n = KEYRELS[ri][3]
    vals = [1, 2] if n == 3 else [1, 2, 3]
    allkeys = list(itertools.product(vals, repeat=n))
    parents = sorted(rng.sample(allkeys, rng.randint(1, min(6, len(allkeys)))))
    # mirrored keys: for some parents also the reversed tuple
    for k in list(parents):
        if rng.random() < 0.5 and tuple(reversed(k)) not in parents:
            parents.append(tuple(reversed(k)))
    parents = sorted(set(parents))
    prow = [list(k) + [rng.randint(0, 2)] for k in parents]
    crow = []
    for i in range(1, rng.randint(2, 7) + 1):
        fk = list(rng.choice(parents)) if rng.random() < 0.6 else [rng.choice(vals) for _ in range(n)]
        if rng.random() < 0.2:
            fk[rng.randrange(n)] = None
        crow.append([i] + fk + [rng.randint(0, 2)])
    direction = rng.choice([0, 0, 1])
    codes = [LAZY, JOINED, SUBQ, IMM, rng.choice([SEL_DEFAULT, 11, 12])]
    pairs = KEYRELS[ri][4]
    return {"in": [77, pairs, list(range(n)), prow, crow, direction, codes, ri], "kind": "compkey"}


def root_subq(asg):
    """does the assignment issue a subquery load that re-issues the root statement?"""
    for a in asg:
        if a == SUBQ:
            return True
        if a != JOINED:
            return False
    return False


def side_rels(root, first):
    """one-to-many relationships of the root other than the first relationship of the walk"""
    return [r for r in REL_IDS if r[0] == root and RELS[r][1] == 0 and r != first]


def walks(maxlen):
    out = []

    def go(tbl, seen, acc):
        if acc:
            out.append(list(acc))
        if len(acc) == maxlen:
            return
        for (o, a), (tgt, _, _, _) in sorted(RELS.items()):
            if o == tbl and tgt not in seen:
                go(tgt, seen | {tgt}, acc + [(o, a)])

    for r in TABLES:
        go(r, {r}, [])
    return out


# ------------------------------------------------------------------------------------------------
# case encoding: c["in"] = [rows0, steps, uquery, assignments, [cmp_plan], walk]
#   uquery = [pred, k, distinct, group, order, limit, offset, jstep]: pred 0 none, 1 root.v >= k,
#   2 JOIN rel WHERE target.v >= k, 3 rel.any/has(target.v == k); jstep = [] (rel = first relationship of
#   the walk) or a one-to-many "side" step [0, order, 50, rows] + walk[-1] naming it (see SIDE below)
#   row = [id, up, dn, v]: up = foreign key to the previous table of the walk (when that step is
#   one-to-many), dn = foreign key to the next table (when that step is many-to-one), [] = NULL;
#   step = [kind, order, level, rows]; walk = indices into REL_IDS (ignored by the model: it names the
#   mapped relationships for the implementation).  The implementation's tables are rebuilt from the rows.
def _gen_data(rng, rels, big=False):
    kinds = [RELS[r][1] for r in rels]
    npos = len(rels) + 1
    n = [rng.choice([1, 2, 3, 3, 4, 5]) for _ in range(npos)]
    tables = []
    for pos in range(npos):
        rows = []
        for i in range(1, n[pos] + 1):
            up = dn = None
            if pos > 0 and kinds[pos - 1] == 0 and rng.random() >= 0.2:
                m = n[pos - 1]
                up = min(m, rng.choice([1, 1, 2, m, rng.randint(1, m)]))
            if pos < len(rels) and kinds[pos] == 1 and rng.random() >= 0.2:
                m = n[pos + 1]
                dn = min(m, rng.choice([1, 1, 2, m, rng.randint(1, m)]))
            rows.append([i, up, dn, rng.randint(0, 2)])
        if rng.random() < 0.5:
            rng.shuffle(rows)  # insertion order differs from id order
        tables.append(rows)
    return tables


def model_input(walk, tables, uq, asgs, cmp_plan, side=None, preload=()):
    """side = (relationship index, rows of the side table) when the root query joins a side relationship;
    preload = [[level, maxid or None, mode]...]: tables of the walk SELECTed (ids <= maxid; mode 0 plainly, mode 1
    with selectinload of every relationship other than the walk's next one) into the Session
    before the query, so that the loaders meet objects that are already present with the relationship unloaded"""
    rels = [REL_IDS[i] for i in walk]
    steps = [[RELS[r][1], RELS[r][2], i + 1, tables[i + 1]] for i, r in enumerate(rels)]
    uq = list(uq[:7])
    if side is None:
        uq.append([])
        extra = []
    else:
        sid, srows = side
        uq.append([0, RELS[REL_IDS[sid]][2], SIDE_LVL, srows])
        extra = [sid]
    return [tables[0], steps, uq, asgs, [1 if cmp_plan else 0], [list(walk), extra, [list(x) for x in preload]]]


def _gen_side(rng, rels, tables):
    """a side relationship + its rows for the root query's JOIN / EXISTS, or None"""
    cands = side_rels(rels[0][0], rels[0])
    if not cands or rng.random() < 0.4:
        return None
    r = rng.choice(cands)
    n0 = len(tables[0])
    rows = []
    for i in range(1, rng.choice([1, 2, 3, 4, 5]) + 1):
        up = None if rng.random() < 0.15 else min(n0, rng.choice([1, 1, 2, n0, rng.randint(1, n0)]))
        rows.append([i, up, None, rng.randint(0, 2)])
    return (REL_IDS.index(r), rows)


def _gen_uq(rng, first_down):
    pk = rng.choice([0, 0, 1, 2, 2, 3])
    k = rng.randint(0, 2)
    distinct = group = 0
    r = rng.random()
    if r < 0.25:
        distinct = 1
    elif r < 0.35:
        group = 1
    order = rng.choice([0, 1, 2, 3])
    lim = rng.choice([None, None, 0, 1, 2, 2, 3, 4])
    off = rng.choice([None, None, None, 0, 1, 2])
    return [pk, k, distinct, group, order, lim, off]


def in_defect_class(steps_kind0, uq, side):
    """input class of the known subquery DISTINCT/OFFSET defect (see findings/C40.json)"""
    pk, k, distinct, group, order, lim, off = uq[:7]
    return steps_kind0 == 1 and pk == 2 and side is not None and off not in (None, [], 0) and not distinct and not group


def _plan_comparable(walk, asg, uq=None, side=None):
    """The set of emitted statements depends on the session's identity map when a many-to-one target is
    shared by parents that were loaded by different statements and something is loaded beneath it.  The
    functional model does not track that, so the plan is compared only when no such sharing can occur.
    In the known-defect class a subquery load leaves loaded entities unattached, which the snapshot never
    reaches (so their lazy loads are never triggered): not compared either."""
    kinds = [RELS[REL_IDS[i]][1] for i in walk]
    if uq is not None and in_defect_class(kinds[0], uq, side) and root_subq(asg):
        return False
    for j in range(1, len(walk)):
        if kinds[j] == 1 and j + 1 < len(walk):
            if any(a in (LAZY, IMM) or a >= SEL_DEFAULT for a in asg[:j]):
                return False
    return True


def gen_cases(rng, tier):
    cases = []
    w1, w2, w3 = ([w for w in walks(3) if len(w) == n] for n in (1, 2, 3))
    nq = {"quick": (25, 90, 25), "thorough": (300, 1500, 500)}[tier]
    for ws, count in zip((w1, w2, w3), nq):
        for _ in range(count):
            w = rng.choice(ws)
            walk = [REL_IDS.index(r) for r in w]
            data = _gen_data(rng, w)
            uq = _gen_uq(rng, RELS[w[0]][1] == 0)
            side = _gen_side(rng, w, data) if uq[0] in (2, 3) else None
            sel = [rng.choice([SEL_DEFAULT, 11, 11, 12, 13]) for _ in w]
            # a small chunk needs a deterministic parent order: none after a many-to-one level whose rows
            # come back in an order chosen by the database
            for j in range(len(w)):
                if any(RELS[w[i]][1] == 1 for i in range(j)):
                    sel[j] = SEL_DEFAULT
            choices = [[LAZY, JOINED, SUBQ, IMM, sel[j]] for j in range(len(w))]
            asgs = [list(a) for a in itertools.product(*choices)]
            if len(w) == 3:
                asgs = rng.sample(asgs, 30)
            # one plan flag per case: compared only if comparable for every assignment in it
            groups = {}
            for a in asgs:
                groups.setdefault(_plan_comparable(walk, a, uq, side), []).append(a)
            for cmp_plan, al in groups.items():
                cases.append(
                    {
                        "in": model_input(walk, data, uq, al, cmp_plan, side),
                        "kind": "walk%d" % len(w),
                    }
                )
    # composite primary keys whose foreign key constraint lists the columns in another order, mirrored key
    # values (1,2)/(2,1), NULL components: every strategy, both directions
    for _ in range({"quick": 40, "thorough": 600}[tier]):
        cases.append(_gen_keys_case(rng))
    # a many-to-one whose target is a subclass (or the instantiable base) of a joined-table hierarchy, the
    # referenced rows being of any class, with some of them already in the Session as what they are
    for _ in range({"quick": 40, "thorough": 500}[tier]):
        cases.append(_gen_poly_case(rng))
    # histories: some tables of the walk are already in the Session (plain SELECT, relationships unloaded)
    # when the query runs; what is loaded must not depend on that.  The plan does (identity map): not compared
    for _ in range({"quick": 30, "thorough": 500}[tier]):
        w = rng.choice(w2 + w2 + w3 + [[("x", "ys"), ("y", "zs")]] * (len(w2) // 2))
        walk = [REL_IDS.index(r) for r in w]
        data = _gen_data(rng, w)
        uq = _gen_uq(rng, RELS[w[0]][1] == 0)
        side = _gen_side(rng, w, data) if uq[0] in (2, 3) else None
        asgs = [list(a) for a in itertools.product(*[[LAZY, JOINED, SUBQ, IMM, rng.choice([SEL_DEFAULT, 11, 12])]] * len(w))]
        if len(w) == 3:
            asgs = rng.sample(asgs, 25)
        # (a pre-loaded ROOT keeps the options of its first load, so the root level is taken less often)
        levels = [lv for lv in range(len(w) + 1) if rng.random() < (0.2 if lv == 0 else 0.6)] or [rng.randrange(1, len(w) + 1)]
        # mode 1: the pre-loaded objects have every OTHER relationship loaded, so that the relationship of the
        # walk is the only thing a later row can still populate
        preload = [[lv, rng.choice([None, None, None, 2, 3]), rng.choice([0, 0, 1])] for lv in levels]
        cases.append({"in": model_input(walk, data, uq, asgs, False, side, preload), "kind": "history"})
    # ... in particular: the middle objects of x -> y -> z already present (nothing unloaded but y.zs), then every
    # assignment (a lazy / immediate load of x.ys then carries the strategy for y.zs to existing objects)
    for _ in range({"quick": 8, "thorough": 80}[tier]):
        w = [("x", "ys"), ("y", "zs")]
        walk = [REL_IDS.index(r) for r in w]
        data = _gen_data(rng, w)
        uq = _gen_uq(rng, True)
        uq[0] = 0
        if rng.random() < 0.7:
            uq[5] = uq[6] = None
        # some y with a parent gets at least two z rows
        ys = [r for r in data[1] if r[1] is not None]
        if ys and len(data[2]) >= 2:
            for r in rng.sample(data[2], 2):
                r[1] = ys[0][0]
        asgs = [list(a) for a in itertools.product(*[[LAZY, JOINED, SUBQ, IMM, rng.choice([SEL_DEFAULT, 11, 12])]] * 2)]
        cases.append({"in": model_input(walk, data, uq, asgs, False, None, [[1, None, 0]]), "kind": "history"})
    # column-loader options (defer / load_only / undefer / with_expression / untriggered raiseload) at every
    # level, combined with every relationship-strategy assignment: oracle only (the model has no columns)
    for _ in range({"quick": 24, "thorough": 400}[tier]):
        w = rng.choice(w1 + w2 + w2)
        walk = [REL_IDS.index(r) for r in w]
        data = _gen_data(rng, w)
        uq = _gen_uq(rng, RELS[w[0]][1] == 0)
        side = _gen_side(rng, w, data) if uq[0] in (2, 3) else None
        asgs = [list(a) for a in itertools.product(*[[LAZY, JOINED, SUBQ, IMM, rng.choice([SEL_DEFAULT, 11, 12])]] * len(w))]
        asgs = [a for a in asgs if not (in_defect_class(RELS[w[0]][1], uq, side) and root_subq(a))]
        colopts = [rng.choice([0, 1, 2, 3, 4, 5, 6]) for _ in range(len(w) + 1)]
        if not any(colopts):
            colopts[rng.randrange(len(colopts))] = rng.choice([1, 2, 4])
        cases.append(
            {"in": model_input(walk, data, uq, asgs, False, side) + [colopts], "kind": "colopts", "model": False}
        )
    # the region of the known subquery defect: many-to-one first step, duplicating side JOIN, OFFSET
    for _ in range({"quick": 6, "thorough": 60}[tier]):
        w = rng.choice([w for w in w1 + w2 if RELS[w[0]][1] == 1 and side_rels(w[0][0], w[0])])
        walk = [REL_IDS.index(r) for r in w]
        data = _gen_data(rng, w)
        n0 = len(data[0])
        sr = rng.choice(side_rels(w[0][0], w[0]))
        srows = [[i, min(n0, rng.choice([1, 1, 2, rng.randint(1, n0)])), None, rng.randint(0, 2)] for i in range(1, 6)]
        uq = [2, 0, 0, 0, rng.choice([0, 1, 2, 3]), rng.choice([1, 2, 3]), rng.choice([1, 1, 2])]
        asgs = [list(a) for a in itertools.product(*[[LAZY, JOINED, SUBQ, IMM, SEL_DEFAULT]] * len(w))]
        side = (REL_IDS.index(sr), srows)
        for cmp_plan in (True, False):
            al = [a for a in asgs if _plan_comparable(walk, a, uq, side) == cmp_plan]
            cases.append({"in": model_input(walk, data, uq, al, cmp_plan, side), "kind": "m2o-subq-offset"})
    # the default chunk size really splits: 501 parents, selectin (default and 250) vs joined
    for first in (("p", "cs"), ("m", "ps")):
        walk = [REL_IDS.index(first)]
        parents = [[i, None, None, i % 3] for i in range(1, 502)]
        kids = [[i, par, None, i % 2] for i, par in enumerate([1, 500, 501, 501, 250], 1)]
        uq = [0, 0, 0, 0, 0, None, None]
        cases.append(  # noqa

            {"in": model_input(walk, [parents, kids], uq, [[SEL_DEFAULT], [JOINED], [10 + 250]], True), "kind": "chunk500"}
        )
    return cases


def nontrivial(c):
    if c["in"][0] == 77:
        return len(c["in"][3]) >= 2 and len(c["in"][4]) >= 2
    if c["in"][0] == 78:
        return bool(c["in"][5]) and any(o[1] != [] for o in c["in"][3])
    r0, steps, uq, asgs = c["in"][:4]
    if uq[2] or uq[3] or uq[5] != [] or uq[6] != []:
        return True
    cnt = {}
    for kind, _, _, rows in steps:
        if kind == 0:
            for r in rows:
                if r[1] != []:
                    cnt[r[1]] = cnt.get(r[1], 0) + 1
    return any(v >= 2 for v in cnt.values())


# ------------------------------------------------------------------------------------------------
# hashing shared by the implementation observation and (re-implemented in Gallina) by the model
def _flatten(t, out):
    if isinstance(t, list):
        out.append(1)
        for x in t:
            _flatten(x, out)
        out.append(2)
    else:
        out.append(int(t) + 10)


def hash_tree(t):
    out = []
    _flatten(t, out)
    h = 7
    for x in out:
        h = (h * 1009 + x) % 1000003
    return h


def hash_list(l):
    h = 7
    for x in l:
        h = (h * 1009 + x) % 1000003
    return h


def plan_hash(shapes):
    return hash_list(sorted({hash_tree(s) for s in shapes}))


# ------------------------------------------------------------------------------------------------
# implementation side
_ENV = {}


def _setup():
    if _ENV:
        return _ENV
    import warnings

    from sqlalchemy import Column, ForeignKey, Integer, String, create_engine, event
    from sqlalchemy.orm import declarative_base, declared_attr, deferred, query_expression, relationship
    from sqlalchemy.pool import StaticPool

    warnings.simplefilter("ignore")

    class Cols:
        # payload columns for the column-loader options: big = 10*id + v, big2 = 100*id + v (mapped deferred),
        # e = query-time expression (None unless with_expression is given)
        big = Column(Integer)

        @declared_attr
        def big2(cls):
            return deferred(Column(Integer))

        @declared_attr
        def e(cls):
            return query_expression()

    from sqlalchemy import ForeignKeyConstraint

    def build(Base, with_poly=False):

        class M(Base):
            __tablename__ = "m"
            id = Column(Integer, primary_key=True)
            v = Column(Integer)
            ps = relationship("P", order_by="P.id", back_populates="m")

        class P(Base):
            __tablename__ = "p"
            id = Column(Integer, primary_key=True)
            v = Column(Integer)
            mid = Column(ForeignKey("m.id"))
            m = relationship("M", back_populates="ps")
            cs = relationship("C", order_by="(C.v, C.id)", back_populates="p")
            ds = relationship("D", order_by="(D.v.desc(), D.id)", back_populates="p")

        class C(Base):
            __tablename__ = "c"
            id = Column(Integer, primary_key=True)
            v = Column(Integer)
            pid = Column(ForeignKey("p.id"))
            tid = Column(ForeignKey("t.id"))
            p = relationship("P", back_populates="cs")
            t = relationship("T", back_populates="cs")
            gs = relationship("G", order_by="G.id.desc()", back_populates="c")

        class G(Base):
            __tablename__ = "g"
            id = Column(Integer, primary_key=True)
            v = Column(Integer)
            cid = Column(ForeignKey("c.id"))
            c = relationship("C", back_populates="gs")

        class D(Base):
            __tablename__ = "d"
            id = Column(Integer, primary_key=True)
            v = Column(Integer)
            pid = Column(ForeignKey("p.id"))
            p = relationship("P", back_populates="ds")

        class T(Base):
            __tablename__ = "t"
            id = Column(Integer, primary_key=True)
            v = Column(Integer)
            cs = relationship("C", order_by="C.id", back_populates="t")


        class X(Base):
            __tablename__ = "x"
            id = Column(Integer, primary_key=True)
            v = Column(Integer)
            ys = relationship("Y", order_by="Y.id")

        class Y(Base):
            __tablename__ = "y"
            id = Column(Integer, primary_key=True)
            v = Column(Integer)
            xid = Column(ForeignKey("x.id"))
            zs = relationship("Z", order_by="(Z.v, Z.id)")

        class Z(Base):
            __tablename__ = "z"
            id = Column(Integer, primary_key=True)
            v = Column(Integer)
            yid = Column(ForeignKey("y.id"))

        class KP(Base):
            __tablename__ = "kp"
            a = Column(Integer, primary_key=True)
            b = Column(Integer, primary_key=True)
            v = Column(Integer)
            kids_ab = relationship("KAB", order_by="KAB.id", back_populates="parent")
            kids_ba = relationship("KBA", order_by="KBA.id", back_populates="parent")

        class KAB(Base):
            __tablename__ = "kab"
            id = Column(Integer, primary_key=True)
            pa = Column(Integer)
            pb = Column(Integer)
            v = Column(Integer)
            parent = relationship("KP", back_populates="kids_ab")
            __table_args__ = (ForeignKeyConstraint(["pa", "pb"], ["kp.a", "kp.b"]),)

        class KBA(Base):
            __tablename__ = "kba"
            id = Column(Integer, primary_key=True)
            pb = Column(Integer)  # the join condition lists the pairs in the child's column order: (b, pb), (a, pa)
            pa = Column(Integer)
            v = Column(Integer)
            parent = relationship("KP", back_populates="kids_ba")
            __table_args__ = (ForeignKeyConstraint(["pb", "pa"], ["kp.b", "kp.a"]),)

        class KQ(Base):
            __tablename__ = "kq"
            a = Column(Integer, primary_key=True)
            b = Column(Integer, primary_key=True)
            c = Column(Integer, primary_key=True)
            v = Column(Integer)
            kids = relationship("KCAB", order_by="KCAB.id", back_populates="parent")

        class KCAB(Base):
            __tablename__ = "kcab"
            id = Column(Integer, primary_key=True)
            pc = Column(Integer)
            pa = Column(Integer)
            pb = Column(Integer)
            v = Column(Integer)
            parent = relationship("KQ", back_populates="kids")
            __table_args__ = (ForeignKeyConstraint(["pc", "pa", "pb"], ["kq.c", "kq.a", "kq.b"]),)

        poly = {}
        if with_poly:
            from sqlalchemy import String

            class PB(Base):
                __tablename__ = "pb"
                id = Column(Integer, primary_key=True)
                type = Column(String(10), nullable=False)
                __mapper_args__ = {"polymorphic_on": type, "polymorphic_identity": "c0"}

            class PC1(PB):
                __tablename__ = "pc1"
                id = Column(Integer, ForeignKey("pb.id"), primary_key=True)
                __mapper_args__ = {"polymorphic_identity": "c1"}

            class PC2(PB):
                __tablename__ = "pc2"
                id = Column(Integer, ForeignKey("pb.id"), primary_key=True)
                __mapper_args__ = {"polymorphic_identity": "c2"}

            class PG(PC2):
                __tablename__ = "pg"
                id = Column(Integer, ForeignKey("pc2.id"), primary_key=True)
                __mapper_args__ = {"polymorphic_identity": "c3"}

            class PO(Base):
                __tablename__ = "po"
                id = Column(Integer, primary_key=True)
                fk = Column(Integer, ForeignKey("pb.id"))
                parent = relationship(PB)
                child1 = relationship(PC1, viewonly=True, primaryjoin="PO.fk == PC1.id", foreign_keys="PO.fk")
                child2 = relationship(PC2, viewonly=True, primaryjoin="PO.fk == PC2.id", foreign_keys="PO.fk")
                gchild = relationship(PG, viewonly=True, primaryjoin="PO.fk == PG.id", foreign_keys="PO.fk")

            poly = {"pb": PB, "pc1": PC1, "pc2": PC2, "pg": PG, "po": PO}

        return {**poly, "m": M, "p": P, "c": C, "g": G, "d": D, "t": T, "x": X, "y": Y, "z": Z, "kp": KP, "kab": KAB, "kba": KBA, "kq": KQ, "kcab": KCAB}

    # two mappings of the same tables: the plain one (no deferred column: an object already in the Session has
    # NOTHING unloaded but its relationships) and, for the column-option family, one with the payload columns
    BaseCols = declarative_base(cls=Cols)
    classes_cols = build(BaseCols)
    BasePlain = declarative_base()
    classes = build(BasePlain, with_poly=True)
    eng = create_engine("sqlite://", poolclass=StaticPool, connect_args={"check_same_thread": False})
    BaseCols.metadata.create_all(eng)
    for t in ("pb", "pc1", "pc2", "pg", "po"):
        BasePlain.metadata.tables[t].create(eng)
    log = []

    @event.listens_for(eng, "before_cursor_execute")
    def _rec(conn, cursor, statement, parameters, context, executemany):
        if _ENV.get("recording"):
            log.append((statement, parameters))

    _ENV.update(
        eng=eng,
        classes=classes,
        classes_plain=classes,
        classes_cols=classes_cols,
        log=log, recording=False, loaded=None
    )
    return _ENV


def _load_data(env, rels, tables, side=None, side_rows=()):
    from sqlalchemy import delete, insert

    key = repr((rels, tables, side, side_rows))
    if env["loaded"] == key:
        return
    tabs = [rels[0][0]] + [RELS[r][0] for r in rels]
    full = env["classes_cols"]
    with env["eng"].begin() as conn:
        for t in ("z", "y", "x", "g", "d", "c", "p", "m", "t"):
            conn.execute(delete(full[t].__table__))
        todo = {}
        for pos, t in enumerate(tabs):
            up_col = RELS[rels[pos - 1]][3] if pos > 0 and RELS[rels[pos - 1]][1] == 0 else None
            dn_col = RELS[rels[pos]][3] if pos < len(rels) and RELS[rels[pos]][1] == 1 else None
            rows = []
            for i, up, dn, v in tables[pos]:
                d = {"id": i, "v": v, "big": 10 * i + v, "big2": 100 * i + v}
                for col in FKS[t]:
                    d[col] = None
                if up_col:
                    d[up_col] = None if up == [] else up
                if dn_col:
                    d[dn_col] = None if dn == [] else dn
                rows.append(d)
            todo[t] = rows
        if side is not None:
            t = RELS[side][0]
            rows = []
            for i, up, _, v in side_rows:
                d = {"id": i, "v": v, "big": 10 * i + v, "big2": 100 * i + v}
                for col in FKS[t]:
                    d[col] = None
                d[RELS[side][3]] = None if up == [] else up
                rows.append(d)
            todo[t] = rows
        for t in ("m", "t", "p", "c", "g", "d", "x", "y", "z"):
            if todo.get(t):
                conn.execute(insert(full[t].__table__), todo[t])
    env["loaded"] = key


_ORDERS = {
    0: lambda R: [R.id],
    1: lambda R: [R.id.desc()],
    2: lambda R: [R.v, R.id],
    3: lambda R: [R.v.desc(), R.id],
}


def _statement(env, rels, uq, side):
    from sqlalchemy import select

    cls = env["classes"]
    R = cls[rels[0][0]]
    jrel = side if side is not None else rels[0]
    attr = getattr(R, jrel[1])
    Tgt = cls[RELS[jrel][0]]
    pk, k, distinct, group, order, lim, off = uq[:7]
    st = select(R)
    if pk == 1:
        st = st.where(R.v >= k)
    elif pk == 2:
        st = st.join(attr).where(Tgt.v >= k)
    elif pk == 3:
        st = st.where((attr.any if RELS[jrel][1] == 0 else attr.has)(Tgt.v == k))
    if distinct:
        st = st.distinct()
    if group:
        st = st.group_by(R.id)
    st = st.order_by(*_ORDERS[order](R))
    if lim != []:
        st = st.limit(lim)
    if off != []:
        st = st.offset(off)
    return st


def _col_options(env, table, code, next_rel):
    from sqlalchemy.orm import defer, load_only, raiseload, undefer, with_expression

    K = env["classes"][table]
    if code == 1:
        return [defer(K.big)]
    if code == 2:
        return [load_only(K.id, K.v)]
    if code == 3:
        return [undefer(K.big2)]
    if code == 4:
        return [with_expression(K.e, K.v + 1)]
    if code == 5:
        return [undefer(K.big2), with_expression(K.e, K.v + 1)]
    if code == 6:
        others = [r for r in REL_IDS if r[0] == table and r != next_rel]
        return [raiseload(getattr(K, others[0][1]))] if others else []
    return []


def _options_with_cols(env, rels, asg, colopts):
    """[options] for the statement: column options of the root + the relationship option of the first
    relationship with, nested through .options(), the column options of every deeper level"""
    from sqlalchemy.orm import immediateload, joinedload, lazyload, selectinload, subqueryload

    fns = {LAZY: lazyload, JOINED: joinedload, SUBQ: subqueryload, IMM: immediateload}
    tabs = [rels[0][0]] + [RELS[r][0] for r in rels]

    def rel_opt(i):
        attr = getattr(env["classes"][rels[i][0]], rels[i][1])
        a = asg[i]
        o = fns[a](attr) if a in fns else selectinload(attr, **({} if a == SEL_DEFAULT else {"chunksize": a - 10}))
        subs = _col_options(env, tabs[i + 1], colopts[i + 1], rels[i + 1] if i + 1 < len(rels) else None)
        if i + 1 < len(rels):
            subs.append(rel_opt(i + 1))
        return o.options(*subs) if subs else o

    return _col_options(env, tabs[0], colopts[0], rels[0]) + [rel_opt(0)]


def _options(env, rels, asg):
    from sqlalchemy.orm import immediateload, joinedload, lazyload, selectinload, subqueryload

    names = {LAZY: "lazyload", JOINED: "joinedload", SUBQ: "subqueryload", IMM: "immediateload"}
    fns = {LAZY: lazyload, JOINED: joinedload, SUBQ: subqueryload, IMM: immediateload}
    opt = None
    for r, a in zip(rels, asg):
        attr = getattr(env["classes"][r[0]], r[1])
        if a in names:
            opt = fns[a](attr) if opt is None else getattr(opt, names[a])(attr)
        else:
            kw = {} if a == SEL_DEFAULT else {"chunksize": a - 10}
            opt = selectinload(attr, **kw) if opt is None else opt.selectinload(attr, **kw)
    return opt


# ---- compiled SQL -> plan shape
_CLAUSES = [" FROM ", " WHERE ", " GROUP BY ", " ORDER BY ", " LIMIT "]


def _top_split(s, seps):
    """split [s] at the given separators occurring at parenthesis depth 0 -> [(sep, text)], first sep ''"""
    out = []
    depth = 0
    i = 0
    start = 0
    cur = ""
    n = len(s)
    while i < n:
        ch = s[i]
        if ch == "(":
            depth += 1
        elif ch == ")":
            depth -= 1
        elif depth == 0 and ch == " ":
            for sep in seps:
                if s.startswith(sep, i):
                    out.append((cur, s[start:i]))
                    cur = sep
                    i += len(sep)
                    start = i
                    break
            else:
                i += 1
            continue
        i += 1
    out.append((cur, s[start:]))
    return out


class ShapeError(Exception):
    pass


EXC_NAMES = ["?", "NoSuchColumnError", "InvalidRequestError", "ArgumentError", "CompileError", "OperationalError"]


def _tbl_code(alias, lvl_of):
    if alias.startswith("anon_"):
        return 100
    name = re.sub(r"_\d+$", "", alias)
    if name not in lvl_of:
        raise ShapeError("unknown table %r" % alias)
    return lvl_of[name]


def _shape(sql, params, lvl_of):
    parts = dict()
    for sep, text in _top_split(sql, _CLAUSES):
        if sep in parts:
            raise ShapeError("clause twice: %s" % sep)
        parts[sep] = text.strip()
    head = parts[""]
    if not head.startswith("SELECT "):
        raise ShapeError("not a SELECT: %s" % sql[:60])
    distinct = 1 if head.startswith("SELECT DISTINCT ") else 0
    # FROM
    items = _top_split(parts[" FROM "], [" LEFT OUTER JOIN ", " JOIN "])
    first = items[0][1].strip()
    if first.startswith("("):
        m = re.match(r"^\((.*)\) AS (anon_\d+)$", first, re.S)
        if not m:
            raise ShapeError("FROM element %r" % first[:50])
        frm = [1, _shape(m.group(1), params, lvl_of)]
    else:
        frm = [0, _tbl_code(first.split(" ")[0], lvl_of)]
    joins = []
    for sep, text in items[1:]:
        tname = text.strip().split(" ")[0]
        if tname.startswith("("):
            raise ShapeError("subquery on the right of a join")
        joins.append([1 if "OUTER" in sep else 0, _tbl_code(tname, lvl_of)])
    # WHERE
    w = parts.get(" WHERE ")
    if w is None:
        where = [0]
    else:
        m1 = re.match(r"^\?(\d+) = \w+\.\w+$", w) or re.match(r"^\w+\.\w+ = \?(\d+)$", w)
        m2 = re.match(r"^\w+\.\w+ IN \(((?:\?\d+)(?:, \?\d+)*)\)$", w)
        if m1:
            where = [2, params[int(m1.group(1))]]
        elif m2:
            where = [3] + sorted(params[int(x[1:])] for x in m2.group(1).split(", "))
        else:
            where = [1]
    order = []
    if " ORDER BY " in parts:
        for it in parts[" ORDER BY "].split(", "):
            m = re.match(r"^(\w+)\.(\w+)( DESC)?$", it.strip())
            if not m or m.group(2) not in ("id", "v"):
                raise ShapeError("ORDER BY item %r" % it)
            order.append([_tbl_code(m.group(1), lvl_of), 0 if m.group(2) == "id" else 1, 1 if m.group(3) else 0])
    return [distinct, 1 if " GROUP BY " in parts else 0, frm, joins, where, order, 1 if " LIMIT " in parts else 0]


def sql_shape(statement, parameters, lvl_of):
    s = " ".join(statement.split())
    cnt = itertools.count()
    s = re.sub(r"\?", lambda m: "?%d" % next(cnt), s)
    return _shape(s, list(parameters), lvl_of)


def _snapshot(objs, rels, keep, cols=False):
    out = []
    for o in objs:
        keep.append(o)
        node = [o.id, o.v]
        if cols:
            node += [o.big, o.big2, -1 if o.e is None else o.e]
        if rels:
            v = getattr(o, rels[0][1])
            kids = [] if v is None else (list(v) if isinstance(v, list) else [v])
            node.append(_snapshot(kids, rels[1:], keep, cols))
        else:
            node.append([])
        out.append(node)
    return out


def _run_assignment(env, rels, uq, asg, lvl_of, cmp_plan, side=None, colopts=None, preload=()):
    from sqlalchemy import select
    from sqlalchemy.orm import Session

    if colopts is None:
        st = _statement(env, rels, uq, side).options(_options(env, rels, asg))
    else:
        st = _statement(env, rels, uq, side).options(*_options_with_cols(env, rels, asg, colopts))
    del env["log"][:]
    env["recording"] = True
    try:
        with Session(env["eng"]) as s:
            keep = []
            tabs = [rels[0][0]] + [RELS[r][0] for r in rels]
            for lv, maxid, mode in preload:
                K = env["classes"][tabs[lv]]
                pre = select(K).order_by(K.id)
                if maxid != []:
                    pre = pre.where(K.id <= maxid)
                if mode:
                    from sqlalchemy.orm import selectinload

                    nxt = rels[lv] if lv < len(rels) else None
                    for r in REL_IDS:
                        if r[0] == tabs[lv] and r != nxt:
                            pre = pre.options(selectinload(getattr(K, r[1])))
                keep.extend(s.scalars(pre).all())
            objs = s.scalars(st).unique().all()
            snap = _snapshot(objs, rels, keep, colopts is not None)
    finally:
        env["recording"] = False
    ph = 0
    if cmp_plan:
        ph = plan_hash([sql_shape(q, p, lvl_of) for q, p in env["log"]])
    return snap, ph


def _decode(c):
    walk, extra = c["in"][5][:2]
    rels = [REL_IDS[i] for i in walk]
    tabs = [rels[0][0]] + [RELS[r][0] for r in rels]
    lvl_of = {t: i for i, t in enumerate(tabs)}
    side = REL_IDS[extra[0]] if extra else None
    if side is not None:
        lvl_of[RELS[side][0]] = SIDE_LVL
    return rels, lvl_of, side


def _impl_keys(env, c):
    env["classes"] = env["classes_plain"]
    from sqlalchemy import delete, insert, select
    from sqlalchemy.orm import Session, immediateload, joinedload, lazyload, selectinload, subqueryload

    _, pairs, pk, prow, crow, direction, codes, ri = c["in"]
    ptab, ctab, relname, n, _ = KEYRELS[ri]
    PK, CH = env["classes"][ptab], env["classes"][ctab]
    pcols = ["a", "b", "c"][:n]
    ccols = ["pa", "pb", "pc"][:n]
    env["loaded"] = None
    with env["eng"].begin() as conn:
        for t in ("kab", "kba", "kcab", "kp", "kq"):
            conn.execute(delete(env["classes"][t].__table__))
        conn.execute(insert(PK.__table__), [dict(zip(pcols + ["v"], r)) for r in prow])
        conn.execute(
            insert(CH.__table__), [dict(zip(["id"] + ccols + ["v"], [None if x == [] else x for x in r])) for r in crow]
        )
    fns = {LAZY: lazyload, JOINED: joinedload, SUBQ: subqueryload, IMM: immediateload}
    res = []
    first = None
    for code in codes:
        attr = getattr(PK, relname) if direction == 0 else CH.parent
        opt = fns[code](attr) if code in fns else selectinload(attr, **({} if code == SEL_DEFAULT else {"chunksize": code - 10}))
        try:
            with Session(env["eng"]) as s:
                if direction == 0:
                    objs = s.scalars(select(PK).order_by(*[getattr(PK, x) for x in pcols]).options(opt)).unique().all()
                    snap = [[getattr(o, x) for x in pcols] + [[k.id for k in getattr(o, relname)]] for o in objs]
                else:
                    objs = s.scalars(select(CH).order_by(CH.id).options(opt)).unique().all()
                    snap = [[o.id, [] if o.parent is None else [[getattr(o.parent, x) for x in pcols]]] for o in objs]
        except Exception as ex:
            res.append([0, 1 + EXC_NAMES.index(type(ex).__name__) if type(ex).__name__ in EXC_NAMES else 1])
            continue
        if first is None:
            first = snap
        res.append([hash_tree(snap), 0])
    if first is None or first == _meaning(c):
        first = []
    return [res, first]


def _impl_poly(env, c):
    env["classes"] = K = env["classes_plain"]
    from sqlalchemy import delete, insert, select
    from sqlalchemy.orm import Session, immediateload, joinedload, lazyload, selectinload, subqueryload

    _, parents, rows, others, target, pre, codes, _ = c["in"]
    env["loaded"] = None
    tabs = ["pb", "pc1", "pc2", "pg"]

    def lineage(cl):
        out = []
        while cl != []:
            out.append(cl)
            cl = parents[cl]
        return out

    with env["eng"].begin() as conn:
        for t in ("po", "pg", "pc2", "pc1", "pb"):
            conn.execute(delete(K[t].__table__))
        for i, cl in rows:
            conn.execute(insert(K["pb"].__table__), {"id": i, "type": "c%d" % cl})
            for a in reversed(lineage(cl)):
                if a != 0:
                    conn.execute(insert(K[tabs[a]].__table__), {"id": i})
        conn.execute(insert(K["po"].__table__), [{"id": i, "fk": None if fk == [] else fk} for i, fk in others])
    PB, PO = K["pb"], K["po"]
    cls_code = {K[t]: i for i, t in enumerate(tabs)}
    attr = getattr(PO, POLY_RELS[target])
    fns = {LAZY: lazyload, JOINED: joinedload, SUBQ: subqueryload, IMM: immediateload}
    res = []
    first = None
    for code in codes:
        opt = fns[code](attr) if code in fns else selectinload(attr, **({} if code == SEL_DEFAULT else {"chunksize": code - 10}))
        try:
            with Session(env["eng"]) as s:
                keep = s.scalars(select(PB).where(PB.id.in_(pre)).order_by(PB.id)).all() if pre else []
                objs = s.scalars(select(PO).order_by(PO.id).options(opt)).unique().all()
                snap = []
                for o in objs:
                    v = getattr(o, POLY_RELS[target])
                    snap.append([o.id, [] if v is None else [cls_code[type(v)], v.id]])
        except Exception as ex:
            res.append([0, 1 + EXC_NAMES.index(type(ex).__name__) if type(ex).__name__ in EXC_NAMES else 1])
            continue
        if first is None:
            first = snap
        res.append([hash_tree(snap), 0])
    if first is None or first == _meaning(c):
        first = []
    return [res, first]


def _meaning_poly(c):
    _, parents, rows, others, target, pre, codes, _ = c["in"]

    def isa(cl, tg):
        while cl != []:
            if cl == tg:
                return True
            cl = parents[cl]
        return False

    by_id = {i: cl for i, cl in rows}
    return [[i, [by_id[fk], fk] if fk != [] and fk in by_id and isa(by_id[fk], target) else []] for i, fk in others]


def _meaning_keys(c):
    _, pairs, pk, prow, crow, direction, codes, ri = c["in"]

    def joined(p, ch):
        return all(p[a] != [] and ch[f] != [] and p[a] == ch[f] for a, f in pairs)

    if direction == 0:
        return [[p[i] for i in pk] + [[ch[0] for ch in crow if joined(p, ch)]] for p in prow]
    return [[ch[0], [[p[i] for i in pk] for p in prow if joined(p, ch)]] for ch in crow]


def impl(c):
    env = _setup()
    if c["in"][0] == 77:
        return _impl_keys(env, c)
    if c["in"][0] == 78:
        return _impl_poly(env, c)
    rels, lvl_of, side = _decode(c)
    r0, steps, uq, asgs, (cmp_plan,), _ = c["in"][:6]
    colopts = c["in"][6] if len(c["in"]) > 6 else None
    preload = c["in"][5][2] if len(c["in"][5]) > 2 else []
    env["classes"] = env["classes_cols"] if colopts is not None else env["classes_plain"]
    _load_data(env, rels, [r0] + [st[3] for st in steps], side, uq[7][3] if side is not None else ())
    res = []
    first = None
    for asg in asgs:
        try:
            snap, ph = _run_assignment(env, rels, uq, asg, lvl_of, cmp_plan, side, colopts, preload)
        except ShapeError:
            raise
        except Exception as ex:  # a load that raises: graph hash 0, the second number names the exception
            res.append([0, 1 + EXC_NAMES.index(type(ex).__name__) if type(ex).__name__ in EXC_NAMES else 1])
            continue
        if first is None:
            first = snap
        res.append([hash_tree(snap), ph])
    # the graph loaded by the first assignment is reported in full only when it is not the query's meaning
    if first is None or first == _meaning(c):
        first = []
    return [res, first]


# ------------------------------------------------------------------------------------------------
# the property itself, computed relationally in Python on the case data (independent of the model)
def _meaning(c):
    if c["in"][0] == 77:
        return _meaning_keys(c)
    if c["in"][0] == 78:
        return _meaning_poly(c)
    r0, steps, uq = c["in"][:3]
    colopts = c["in"][6] if len(c["in"]) > 6 else None
    pk, k, distinct, group, order, lim, off, js = uq
    jstep = js if js != [] else steps[0]

    def key_of(o):
        return {
            0: lambda r: (r[0],),
            1: lambda r: (-r[0],),
            2: lambda r: (r[3], r[0]),
            3: lambda r: (-r[3], r[0]),
        }[o]

    def linked(kind, p, ch):
        a = p[0] if kind == 0 else p[2]
        b = ch[1] if kind == 0 else ch[0]
        return a != [] and b != [] and a == b

    def related(step, p):
        kind, o, _, rows = step
        rs = [r for r in rows if linked(kind, p, r)]
        return sorted(rs, key=key_of(o)) if o != 4 else rs

    def graph(r, ss, lvl=0):
        node = [r[0], r[3]]
        if colopts is not None:
            node += [10 * r[0] + r[3], 100 * r[0] + r[3], r[3] + 1 if colopts[lvl] in (4, 5) else -1]
        node.append([graph(x, ss[1:], lvl + 1) for x in related(ss[0], r)] if ss else [])
        return node

    base = list(r0)
    if pk == 1:
        base = [r for r in base if r[3] >= k]
    elif pk == 2:
        base = [r for r in r0 for ch in jstep[3] if linked(jstep[0], r, ch) and ch[3] >= k]
    elif pk == 3:
        base = [r for r in r0 if any(linked(jstep[0], r, ch) and ch[3] == k for ch in jstep[3])]
    if distinct or group:
        seen = set()
        base = [r for r in base if not (r[0] in seen or seen.add(r[0]))]
    base.sort(key=key_of(order))
    if off != []:
        base = base[off:]
    if lim != []:
        base = base[:lim]
    seen = set()
    base = [r for r in base if not (r[0] in seen or seen.add(r[0]))]
    return [graph(r, steps) for r in base]


def effective(asg):
    """the strategies actually applied: beneath a subquery load that does not re-issue the root statement the
    remaining loader options are lost and everything is loaded lazily (see findings: nested-subquery-options)"""
    out = []
    rooted = True
    degraded = False
    for a in asg:
        if degraded:
            out.append(LAZY)
            continue
        out.append(a)
        if a == SUBQ and not rooted:
            degraded = True
        if a not in (JOINED, SUBQ):
            rooted = False
    return out


def classify(c, asg, raised):
    """known-defect class of one failing assignment, or None"""
    if c["in"][0] in (77, 78):
        return None
    r0, steps, uq = c["in"][:3]
    colopts = c["in"][6] if len(c["in"]) > 6 else None
    side = uq[7] if uq[7] != [] else None
    eff = effective(asg)
    if raised:
        # subqueryload of a many-to-one whose foreign key column is not loaded (load_only) -> NoSuchColumnError
        if colopts and any(steps[j][0] == 1 and colopts[j] == 2 and eff[j] == SUBQ for j in range(len(steps))):
            return "subq-m2o-deferred-fk"
        return None
    if in_defect_class(steps[0][0], uq, side) and root_subq(asg):
        return "subq-m2o-distinct-offset"
    if colopts:
        for j in range(1, len(asg)):
            if eff[j] == SUBQ and any(a not in (JOINED, SUBQ) for a in eff[:j]):
                if any(colopts[k] in (4, 5) for k in range(j + 1, len(colopts))):
                    return "nested-subq-options"
    return None


def oracle(c, obs):
    """C40 on the implementation's observation: every strategy assignment yields the same object graph,
    and that graph is the relational meaning of the query (and no assignment raises)"""
    want = _meaning(c)
    hw = hash_tree(want)
    res, first = obs
    asgs = c["in"][3] if c["in"][0] not in (77, 78) else [[x] for x in c["in"][6]]
    groups = {}
    for a, (gh, x) in zip(asgs, res):
        if gh != hw:
            groups.setdefault(classify(c, a, gh == 0), []).append((a, gh, x))
    if not groups:
        return None
    cls = None if None in groups else sorted(groups)[0]
    bad = groups[cls]
    raised = [(a, EXC_NAMES[x - 1] if 0 < x <= len(EXC_NAMES) else "?") for a, gh, x in bad if gh == 0]
    same = len({gh for gh, _ in res}) == 1
    msg = "[class=%s] " % cls if cls else ""
    if raised:
        msg += "loader strategies %s raise %s instead of loading; " % ([a for a, _ in raised][:4], sorted({n for _, n in raised}))
    diff = [a for a, gh, x in bad if gh != 0]
    if diff:
        msg += "loader strategies %s load a different object graph than the query means (%s); " % (
            diff[:4],
            "all assignments agree with each other" if same else "assignments disagree",
        )
    return msg + "the first assignment of the case loaded %s ([] = the meaning), the meaning is %s" % (first, want)


def match_finding(c, what):
    m = re.match(r"^\[class=([\w-]+)\] ", what)
    return "C40-" + m.group(1) if m else None


class T2Error(Exception):
    pass


def _t2_expr(e):
    """Python boolean expression of _should_nest_selectable -> Gallina term over the model's flag names"""
    import ast

    if isinstance(e, ast.BoolOp):
        op = "&&" if isinstance(e.op, ast.And) else "||"
        return "(" + (" %s " % op).join(_t2_expr(v) for v in e.values) + ")"
    if isinstance(e, ast.UnaryOp) and isinstance(e.op, ast.Not):
        return "(negb %s)" % _t2_expr(e.operand)
    if isinstance(e, ast.Constant) and e.value in (True, False):
        return "true" if e.value else "false"
    if isinstance(e, ast.Attribute) and isinstance(e.value, ast.Name) and e.value.id == "self":
        names = {"eager_adding_joins": "eager_adding_joins", "multi_row_eager_loaders": "multi_row"}
        if e.attr in names:
            return names[e.attr]
    get = _t2_kwget(e)
    if get is not None:
        key, default = get
        flags = {"distinct": ("distinct", False), "distinct_on": ("distinct_on", ()), "group_by": ("group_by", False)}
        if key in flags and flags[key][1] == default:
            return flags[key][0]
    if isinstance(e, ast.Compare) and len(e.ops) == 1 and isinstance(e.comparators[0], ast.Constant) and e.comparators[0].value is None:
        get = _t2_kwget(e.left)
        if get is not None and get[1] is None and get[0] in ("limit_clause", "offset_clause"):
            name = "has_limit" if get[0] == "limit_clause" else "has_offset"
            if isinstance(e.ops[0], ast.IsNot):
                return name
            if isinstance(e.ops[0], ast.Is):
                return "(negb %s)" % name
    raise T2Error("expression outside the translated vocabulary: %s" % ast.unparse(e))


def _t2_kwget(e):
    """kwargs.get("name"[, default]) -> (name, default) (default None when absent)"""
    import ast

    if (
        isinstance(e, ast.Call)
        and isinstance(e.func, ast.Attribute)
        and e.func.attr == "get"
        and isinstance(e.func.value, ast.Name)
        and e.func.value.id == "kwargs"
        and 1 <= len(e.args) <= 2
        and not e.keywords
        and isinstance(e.args[0], ast.Constant)
    ):
        if len(e.args) == 1:
            return e.args[0].value, None
        try:
            return e.args[0].value, ast.literal_eval(e.args[1])
        except Exception:
            return None
    return None


def _t2_should_nest(fn):
    import ast

    body = list(fn.body)
    if body and isinstance(body[0], ast.Expr) and isinstance(body[0].value, ast.Constant):
        body = body[1:]
    if not (
        body
        and isinstance(body[0], ast.Assign)
        and ast.unparse(body[0]) == "kwargs = self._select_args"
    ):
        raise T2Error("_should_nest_selectable: expected `kwargs = self._select_args` first")
    out = []
    for st in body[1:-1]:
        if not (isinstance(st, ast.If) and not st.orelse and len(st.body) == 1 and isinstance(st.body[0], ast.Return)):
            raise T2Error("_should_nest_selectable: unexpected statement %s" % ast.unparse(st)[:80])
        out.append((_t2_expr(st.test), _t2_expr(st.body[0].value)))
    if not isinstance(body[-1], ast.Return):
        raise T2Error("_should_nest_selectable: last statement is not a return")
    term = _t2_expr(body[-1].value)
    for c, r in reversed(out):
        term = "(if %s then %s else %s)" % (c, r, term)
    return term


def pin_check(repo):
    """normalised-source pin of the transcribed functions (checked separately so that the T2 terms are still
    regenerated from a changed source)"""
    from translate import fingerprint

    fingerprint.check(repo, ANCHORS, "C40")


def translate(repo, outdir):
    """T2: the boolean expression of _should_nest_selectable, the compound/simple statement choice and the
    default selectin chunk size are read from the source by `ast` and compared with the model's"""
    import ast
    import os

    with open(os.path.join(repo, "lib/sqlalchemy/orm/context.py")) as f:
        ctx = ast.parse(f.read())
    with open(os.path.join(repo, "lib/sqlalchemy/orm/strategies.py")) as f:
        strat = ast.parse(f.read())
    cls = next(n for n in ctx.body if isinstance(n, ast.ClassDef) and n.name == "_ORMSelectCompileState")
    fn = next(n for n in cls.body if isinstance(n, ast.FunctionDef) and n.name == "_should_nest_selectable")
    term = _t2_should_nest(fn)
    # the statement choice
    choice = None
    for node in ast.walk(cls):
        if isinstance(node, ast.If) and ast.unparse(node.test) == "self._should_nest_selectable":
            a, b = ast.unparse(node.body), ast.unparse(node.orelse)
            if "_compound_eager_statement()" in a and "_simple_statement()" in b and "statement" in a:
                choice = "true"
            elif "_simple_statement()" in a and "_compound_eager_statement()" in b:
                choice = "false"
    if choice is None:
        raise T2Error("the _compound_eager_statement / _simple_statement choice was not found")
    sel = next(n for n in strat.body if isinstance(n, ast.ClassDef) and n.name == "_SelectInLoader")
    chunk = None
    for n in sel.body:
        if isinstance(n, ast.Assign) and len(n.targets) == 1 and ast.unparse(n.targets[0]) == "_chunksize":
            chunk = ast.literal_eval(n.value)
    if not isinstance(chunk, int) or chunk < 0:
        raise T2Error("_SelectInLoader._chunksize is not a literal natural number")
    path = os.path.join(outdir, "C40_gen.v")
    with open(path, "w") as f:
        f.write(
            "(* generated by specs/c40.py translate() from orm/context.py and orm/strategies.py *)\n"
            "From Coq Require Import Bool.\nFrom SAV.orm Require Import Loaders.\n"
            "Definition gen_should_nest (eager_adding_joins multi_row has_limit has_offset distinct distinct_on "
            "group_by : bool) : bool :=\n  %s.\n"
            "Lemma gen_should_nest_ok : forall a b c d e f g, gen_should_nest a b c d e f g = should_nest a b c d e f g.\n"
            "Proof. intros [] [] [] [] [] [] []; reflexivity. Qed.\n"
            "Definition gen_compound_when_nested : bool := %s.\n"
            "Lemma gen_statement_choice_ok : gen_compound_when_nested = true.\nProof. reflexivity. Qed.\n"
            "Definition gen_chunksize : nat := %d.\n"
            "Lemma gen_chunksize_ok : gen_chunksize = default_chunksize.\nProof. reflexivity. Qed.\n" % (term, choice, chunk)
        )
    return [path]


LEVEL_TEXT = (
    "Machine-checked proof (Coq) over a Gallina model of relationship loading: statements as list programs "
    "over relational operators (filter, inner/left outer join, DISTINCT, ORDER BY on lexicographic keys, "
    "LIMIT/OFFSET, IN chunks), the two statement forms with the subquery wrap, row processing with identity "
    "uniquing, and the five strategies with the post-load merging of loading._PostLoad.  Proved for ALL data "
    "sets, all path lengths and all strategy assignments along the path (induction on the path): the loaded "
    "object graph equals the relational meaning; the un-wrapped joined form is refuted; the subquery-load "
    "DISTINCT/OFFSET defect is refuted with a witness and excluded by an exact guard."
)
LEVEL_NOTE = (
    "PARTIAL with respect to the property text: covered are relationship loaders (lazy, joined, subquery, "
    "selectin with any chunk size, immediate) on one-to-many and many-to-one relationships along a path, "
    "root queries with filter / duplicating JOIN / EXISTS, DISTINCT, GROUP BY, total ORDER BY, LIMIT, OFFSET, "
    "under Result.unique().  Column loader options (defer/undefer/load_only/with_expression, untriggered "
    "raiseload) are NOT modelled: they are checked only by the direct oracle on the implementation (two of the "
    "three known findings come from there).  NOT covered at all: noload, yield_per, inheritance loaders (C42; here only a many-to-one to a polymorphic target with the lazy loader's identity-map shortcut), many-to-many/secondary, composite keys, "
    "(composite keys: only the key-tuple grouping of selectin is modelled, a single relationship), relationships or root queries without a total order, sibling relationships loaded in the same query "
    "(paths only), populate_existing, PostgreSQL/MariaDB (SQLite only; DISTINCT "
    "ON exists only as a flag of _should_nest_selectable).  Trusted: Coq kernel; the hand transcription "
    "(source pin + T2 extraction of _should_nest_selectable, the statement choice and _chunksize + behavioural "
    "correspondence of results AND emitted plan shapes over all strategy assignments); the SQL-to-shape "
    "abstraction; SQLite's SELECT semantics (exercised through the correspondence).  Pre-loaded Sessions (histories) are exercised by the correspondence and the oracle only: the model is a fresh-Session function and the theorem says the result must not depend on the history.  The plan of a walk of 3 "
    "relationships whose middle many-to-one target can be shared between separately issued statements is "
    "not compared (depends on the identity map), the results are.  No axioms."
)
TECHNIQUE = (
    "Coq proof by induction on the relationship path over list-program semantics of SQL; refutation witnesses "
    "by vm_compute; ast extraction of the nesting predicate; model/impl correspondence of object graphs and "
    "SQL plan shapes on SQLite across all strategy assignments"
)
