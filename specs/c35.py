"""C35 - object lifecycle states and events follow the documented state machine."""
import ast
import itertools
import os
import re

ID = "C35"
LEVEL = "proof"
PROPS = "props/C35.v"
RUNNER = ("SAV.orm.LifecycleRun", "run_case")
STATIC_MODULES = ["SAV.orm.LifecycleRun"]
RULE = (
    "histories over the ten operations add/delete/expunge/flush/commit/rollback/close/merge/make_transient/"
    "make_transient_to_detached on 1-3 generated objects of a one-column mapped class (primary keys drawn from "
    "{1,1,2} so that identities collide, 0-2 rows pre-inserted, expire_on_commit on/off) driven against a real "
    "Session on in-memory SQLite: all 1000 histories of length 3 on one object, 2-object histories of "
    "length 2 (every second quick, all 400 thorough), tours (a flushed / unflushed delete or a rolled-back add+delete, two operations, flush, "
    "commit), SAVEPOINT histories with begin_nested / release / rollback-to-savepoint (judged by the oracle only: the "
    "Coq model has no nested transactions), the defect histories, and random histories of length <= 10 (three operation weightings); "
    "thorough: all 10^4 one-object histories of length 4 and 20000 random ones.  Before every operation the "
    "harness records what the model takes as environment (rows visible on the session's connection, "
    "identity_map.check_modified(), per object expired / pk-expired / pk-loaded); after it: the five "
    "inspect() flags, membership in session.new / session.deleted / identity map, was_deleted, the error "
    "class, the merge result and every lifecycle event with the target's state at the moment it fired.  "
    "non-trivial = history of length >= 2 that contains an add or a merge"
)
TRUSTED = [
    "hand-written Gallina transcription (coq/orm/Lifecycle.v) of the lifecycle-relevant parts of orm/state.py "
    "and orm/session.py, unitofwork.finalize_flush_changes / was_already_deleted and "
    "persistence._organize_states_for_save; sets keyed by InstanceState are modelled as per-object flags; "
    "pinned to the normalised source of 49 anchors and compared with the implementation on every run",
    "the documented transition table (coq/orm/LifecycleSpec.v doc_table) is hand-committed from "
    "doc/build/orm/session_events.rst; the event names and their from/to states are re-derived on every run "
    "from the SessionEvents docstrings (generated C35_gen.v)",
    "harness observation of the environment through state.expired / expired_attributes / dict, "
    "identity_map.check_modified() and the raw DBAPI connection shared with the Session (SingletonThreadPool)",
]
ASSUMPTIONS = [
    "one Session, SAVEPOINT histories oracle-only (no model, no theorem), no relationships/cascades, objects kept alive by the caller (no weak-reference "
    "collection), single-column primary key set by the application",
    "histories are cut when an object without identity key has lost its primary-key value, when two pending "
    "objects share a primary key (outcome depends on Python set iteration order), and after a rollback() that raised",
]
ANCHORS = [
    ("lib/sqlalchemy/orm/state.py", "InstanceState.transient"),
    ("lib/sqlalchemy/orm/state.py", "InstanceState.pending"),
    ("lib/sqlalchemy/orm/state.py", "InstanceState.deleted"),
    ("lib/sqlalchemy/orm/state.py", "InstanceState.was_deleted"),
    ("lib/sqlalchemy/orm/state.py", "InstanceState.persistent"),
    ("lib/sqlalchemy/orm/state.py", "InstanceState.detached"),
    ("lib/sqlalchemy/orm/state.py", "InstanceState._attached"),
    ("lib/sqlalchemy/orm/state.py", "InstanceState._detach_states"),
    ("lib/sqlalchemy/orm/session.py", "SessionTransaction._take_snapshot"),
    ("lib/sqlalchemy/orm/session.py", "SessionTransaction._restore_snapshot"),
    ("lib/sqlalchemy/orm/session.py", "SessionTransaction._remove_snapshot"),
    ("lib/sqlalchemy/orm/session.py", "SessionTransaction._prepare_impl"),
    ("lib/sqlalchemy/orm/session.py", "SessionTransaction.commit"),
    ("lib/sqlalchemy/orm/session.py", "SessionTransaction.rollback"),
    ("lib/sqlalchemy/orm/session.py", "SessionTransaction.close"),
    ("lib/sqlalchemy/orm/session.py", "Session._autobegin_t"),
    ("lib/sqlalchemy/orm/session.py", "Session.rollback"),
    ("lib/sqlalchemy/orm/session.py", "Session.commit"),
    ("lib/sqlalchemy/orm/session.py", "Session._close_impl"),
    ("lib/sqlalchemy/orm/session.py", "Session.expunge_all"),
    ("lib/sqlalchemy/orm/session.py", "Session.expunge"),
    ("lib/sqlalchemy/orm/session.py", "Session._expunge_states"),
    ("lib/sqlalchemy/orm/session.py", "Session._register_persistent"),
    ("lib/sqlalchemy/orm/session.py", "Session._register_altered"),
    ("lib/sqlalchemy/orm/session.py", "Session._remove_newly_deleted"),
    ("lib/sqlalchemy/orm/session.py", "Session.add"),
    ("lib/sqlalchemy/orm/session.py", "Session._save_or_update_state"),
    ("lib/sqlalchemy/orm/session.py", "Session.delete"),
    ("lib/sqlalchemy/orm/session.py", "Session._delete_impl"),
    ("lib/sqlalchemy/orm/session.py", "Session.merge"),
    ("lib/sqlalchemy/orm/session.py", "Session._merge"),
    ("lib/sqlalchemy/orm/session.py", "Session._save_impl"),
    ("lib/sqlalchemy/orm/session.py", "Session._update_impl"),
    ("lib/sqlalchemy/orm/session.py", "Session._save_or_update_impl"),
    ("lib/sqlalchemy/orm/session.py", "Session._before_attach"),
    ("lib/sqlalchemy/orm/session.py", "Session._after_attach"),
    ("lib/sqlalchemy/orm/session.py", "Session.flush"),
    ("lib/sqlalchemy/orm/session.py", "Session._is_clean"),
    ("lib/sqlalchemy/orm/session.py", "Session._flush"),
    ("lib/sqlalchemy/orm/session.py", "make_transient"),
    ("lib/sqlalchemy/orm/session.py", "make_transient_to_detached"),
    ("lib/sqlalchemy/orm/unitofwork.py", "UOWTransaction.finalize_flush_changes"),
    ("lib/sqlalchemy/orm/unitofwork.py", "UOWTransaction.was_already_deleted"),
    ("lib/sqlalchemy/orm/unitofwork.py", "UOWTransaction.remove_state_actions"),
    ("lib/sqlalchemy/orm/persistence.py", "_organize_states_for_save"),
    ("lib/sqlalchemy/orm/identity.py", "_WeakInstanceDict.add"),
    ("lib/sqlalchemy/orm/identity.py", "_WeakInstanceDict.replace"),
    ("lib/sqlalchemy/orm/identity.py", "_WeakInstanceDict.safe_discard"),
    ("lib/sqlalchemy/orm/identity.py", "_WeakInstanceDict.contains_state"),
]

EVN = [
    "transient_to_pending", "pending_to_persistent", "pending_to_transient", "loaded_as_persistent",
    "persistent_to_transient", "persistent_to_deleted", "deleted_to_detached", "persistent_to_detached",
    "detached_to_persistent", "deleted_to_persistent",
]
EVC = ["T2P", "P2S", "P2T", "LAP", "S2T", "S2D", "D2X", "S2X", "X2S", "D2S"]
OPN = ["add", "delete", "expunge", "flush", "commit", "rollback", "close", "merge", "make_transient",
       "make_transient_to_detached", "begin_nested", "nested_rollback", "nested_commit"]
NO_TARGET = (3, 4, 5, 6, 10, 11, 12)
SN = {0: "absent", 1: "transient", 2: "pending", 4: "persistent", 8: "deleted", 16: "detached"}
LCC = {"transient": "Transient", "pending": "Pending", "persistent": "Persistent", "deleted": "Deleted",
       "detached": "Detached"}
# documented (from, to) of each event, as state codes; 0 = the object did not exist in the session's view
FROM_TO = {0: (1, 2), 1: (2, 4), 2: (2, 1), 3: (0, 4), 4: (4, 1), 5: (4, 8), 6: (8, 16), 7: (4, 16), 8: (16, 4), 9: (8, 4)}


# ------------------------------------------------------------------------------------------------
# T1/T2: pins + regenerated tables
class _Fail(Exception):
    pass


def _pred_expr(node):
    """boolean expression of an InstanceState lifecycle property -> Gallina over key_none/attached/deleted"""
    if isinstance(node, ast.BoolOp) and isinstance(node.op, ast.And):
        return "(" + " && ".join(_pred_expr(v) for v in node.values) + ")"
    if isinstance(node, ast.UnaryOp) and isinstance(node.op, ast.Not):
        return "negb " + _pred_expr(node.operand)
    if isinstance(node, ast.Compare) and len(node.ops) == 1 and isinstance(node.comparators[0], ast.Constant) \
            and node.comparators[0].value is None and ast.unparse(node.left) == "self.key":
        if isinstance(node.ops[0], ast.Is):
            return "key_none"
        if isinstance(node.ops[0], ast.IsNot):
            return "negb key_none"
    if isinstance(node, ast.Attribute) and ast.unparse(node) == "self._attached":
        return "attached"
    if isinstance(node, ast.Attribute) and ast.unparse(node) == "self._deleted":
        return "deleted"
    raise _Fail("lifecycle predicate uses an expression outside the vocabulary: %s" % ast.unparse(node))


def translate(repo, outdir):
    from translate import fingerprint

    fingerprint.check(repo, ANCHORS, "C35")
    # (1) the five predicates of InstanceState
    with open(os.path.join(repo, "lib/sqlalchemy/orm/state.py")) as f:
        tree = ast.parse(f.read())
    cls = next(n for n in tree.body if isinstance(n, ast.ClassDef) and n.name == "InstanceState")
    preds = {}
    for n in cls.body:
        if isinstance(n, ast.FunctionDef) and n.name in LCC:
            body = [s for s in n.body if not (isinstance(s, ast.Expr) and isinstance(s.value, ast.Constant))]
            if len(body) != 1 or not isinstance(body[0], ast.Return):
                raise _Fail("InstanceState.%s is no longer a single return expression" % n.name)
            preds[n.name] = _pred_expr(body[0].value)
    if set(preds) != set(LCC):
        raise _Fail("lifecycle predicates found: %s" % sorted(preds))
    # (2) the lifecycle events of SessionEvents with the transition their docstring names
    with open(os.path.join(repo, "lib/sqlalchemy/orm/events.py")) as f:
        tree = ast.parse(f.read())
    cls = next(n for n in tree.body if isinstance(n, ast.ClassDef) and n.name == "SessionEvents")
    rows = []
    for n in cls.body:
        if not isinstance(n, ast.FunctionDef):
            continue
        m = re.fullmatch(r"(transient|pending|persistent|deleted|detached)_to_(transient|pending|persistent|deleted|detached)", n.name)
        if m or n.name == "loaded_as_persistent":
            doc = " ".join((ast.get_docstring(n) or "").split())
            if n.name not in EVN:
                raise _Fail("unknown lifecycle event %s" % n.name)
            if m:
                d = re.search(r'"(\w+) to (\w+)"+ transition', doc)
                if not d or (d.group(1), d.group(2)) != (m.group(1), m.group(2)):
                    raise _Fail("docstring of %s does not name its transition" % n.name)
                rows.append((LCC[m.group(1)], LCC[m.group(2)], EVC[EVN.index(n.name)]))
            else:
                if '"loaded as persistent" transition' not in doc:
                    raise _Fail("docstring of loaded_as_persistent changed")
                rows.append(("Absent", "Persistent", "LAP"))
        elif re.search(r"_to_|_as_", n.name) and re.search(r"transient|pending|persistent|detached", n.name):
            raise _Fail("unrecognised lifecycle-like event %s" % n.name)
    out = os.path.join(outdir, "C35_gen.v")
    with open(out, "w") as f:
        f.write("(* generated by specs/c35.py from orm/state.py and orm/events.py - do not edit *)\n")
        f.write("From Coq Require Import List Bool.\nImport ListNotations.\n")
        f.write("From SAV.orm Require Import Lifecycle LifecycleSpec.\n")
        for name in ("transient", "pending", "persistent", "deleted", "detached"):
            f.write("Definition gen_%s (key_none attached deleted : bool) : bool := %s.\n" % (name, preds[name]))
        f.write(
            "Lemma gen_predicates_ok : forall k a d,\n"
            "  gen_transient k a d = st_transient k a d /\\ gen_pending k a d = st_pending k a d /\\\n"
            "  gen_persistent k a d = st_persistent k a d /\\ gen_deleted k a d = st_deleted k a d /\\\n"
            "  gen_detached k a d = st_detached k a d.\n"
            "Proof. intros [] [] []; repeat split; reflexivity. Qed.\n"
        )
        f.write("Definition gen_events : list (lc * lc * evt) := [%s].\n" % "; ".join("(%s, %s, %s)" % r for r in rows))
        f.write(
            "Lemma gen_events_ok :\n"
            "  forallb (fun r => let '(f, t, e) := r in documented f t (Some e)) gen_events &&\n"
            "  forallb (fun e => existsb (fun r => let '(_, _, e') := r in evt_eqb e e') gen_events) doc_events &&\n"
            "  Nat.eqb (length gen_events) (length doc_events) = true.\n"
            "Proof. vm_compute. reflexivity. Qed.\n"
        )
    return [out]


# ------------------------------------------------------------------------------------------------
# cases: {"in": [eoc, pks, rows, ops]} with ops = [[code, idx], ...]
def gen_cases(rng, tier):
    cases = []
    n1 = 4 if tier == "thorough" else 3
    for k, seq in enumerate(itertools.product(range(10), repeat=n1)):
        cases.append({"in": [k & 1, [1], [1] if k % 3 == 0 else [], [[c, 0] for c in seq]], "kind": "one-object-%d" % n1})
    for k, (a, b, i, j) in enumerate(itertools.product(range(10), range(10), range(2), range(2))):
        if tier != "thorough" and (k // 2) % 2:
            continue
        cases.append({"in": [1 - (k & 1), [1, 1], [], [[0, 0], [3, 0], [a, i], [b, j], [5, 0]]], "kind": "two-objects"})
    # tours: a flushed / an unflushed delete, two operations, then flush and commit
    tour_ops = (0, 1, 2, 3, 5, 6, 8, 9) if tier != "thorough" else tuple(range(10))
    for pre in ([[0, 0], [4, 0], [1, 0], [3, 0]], [[0, 0], [4, 0], [1, 0]], [[0, 0], [3, 0], [1, 0], [3, 0], [5, 0]]):
        for k, (x, y) in enumerate(itertools.product(tour_ops, repeat=2)):
            cases.append({"in": [k & 1, [1], [], pre + [[x, 0], [y, 0], [3, 0], [4, 0]]], "kind": "tour"})
    # SAVEPOINT histories (begin_nested / rollback or release of the savepoint): the Coq model has no nested
    # transactions, these cases are checked by the oracle only
    sp_ops = (0, 1, 2, 3, 5, 10, 11, 12)
    for k, seq in enumerate(itertools.product(sp_ops, repeat=3)):
        if 10 not in seq:
            continue
        for pre in ([[0, 0], [4, 0], [1, 0], [3, 0]], [[0, 0], [3, 0]]):
            cases.append({"in": [1, [1], [], pre + [[c, 0] for c in seq] + [[5, 0]]], "kind": "savepoint", "model": False})
    for _ in range(3000 if tier == "thorough" else 150):
        ops = [[rng.choice((0, 1, 2, 3, 4, 5, 8, 10, 10, 11, 12)), rng.randint(0, 3)] for _ in range(rng.randint(3, 9))]
        cases.append({"in": [rng.randint(0, 1), [1, 2], [], [[0, 0], [0, 1], [rng.choice((3, 4)), 0]] + ops],
                      "kind": "savepoint-random", "model": False})
    nrand = 20000 if tier == "thorough" else 500
    weights = [[3, 2, 2, 3, 3, 2, 1, 1, 2, 1], [3, 3, 1, 4, 2, 3, 0, 3, 3, 3], [2] * 10]
    for _ in range(nrand):
        n = rng.randint(1, 3)
        pks = [rng.choice([1, 1, 2]) for _ in range(n)]
        rows = [r for r in (1, 2) if rng.random() < 0.3]
        w = rng.choice(weights)
        ops = [[rng.choices(range(10), w)[0], rng.randint(0, 5)] for _ in range(rng.randint(2, 10))]
        cases.append({"in": [rng.randint(0, 1), pks, rows, ops], "kind": "random"})
    return cases


def nontrivial(c):
    t = c["in"]
    # after model_pair the input is [eoc, pks, model ops]; before it is [eoc, pks, rows, ops]
    ops = t[-1]
    return any((o[0] & 15) in (0, 7) for o in ops) and len(ops) >= 2 and c.get("model", True)


# ------------------------------------------------------------------------------------------------
# implementation side
_env = {}


def _setup():
    if _env:
        return _env
    import warnings

    warnings.simplefilter("ignore")
    from sqlalchemy import Column, Integer, create_engine, event, inspect, text
    from sqlalchemy import exc as sa_exc
    from sqlalchemy.orm import Session, declarative_base, make_transient, make_transient_to_detached
    from sqlalchemy.orm import exc as orm_exc

    Base = declarative_base()

    class A(Base):
        __tablename__ = "a"
        id = Column(Integer, primary_key=True, autoincrement=False)

    e = create_engine("sqlite://", connect_args={"autocommit": False})
    Base.metadata.create_all(e)
    _env.update(locals())
    return _env


def _exc_code(ex, E):
    sa_exc, orm_exc = E["sa_exc"], E["orm_exc"]
    if isinstance(ex, sa_exc.PendingRollbackError):
        return 3
    if isinstance(ex, orm_exc.ObjectDeletedError):
        return 5
    if isinstance(ex, orm_exc.StaleDataError):
        return 4
    if isinstance(ex, orm_exc.FlushError):
        return 6
    if isinstance(ex, sa_exc.IntegrityError):
        return 2
    if isinstance(ex, sa_exc.InvalidRequestError):
        return 1
    return 9


def impl(case):
    """-> [model_input, observation]; model_input = [eoc, pks, [[w, fw]...]] (packed as described in
    coq/orm/LifecycleRun.v), observation = [[err + 16*(merge_result+1), packed state words, event words...] ...]
    (or [99] where the history is cut)"""
    E = _setup()
    eoc, pks, rows, ops = case["in"]
    A, e, Session, inspect, event, text = E["A"], E["e"], E["Session"], E["inspect"], E["event"], E["text"]
    with e.begin() as c:
        c.execute(text("delete from a"))
        for r in rows:
            c.execute(text("insert into a values (%d)" % r))
    s = Session(e, expire_on_commit=bool(eoc))

    def scode(st):
        return sum(int(b) << k for k, b in enumerate([st.transient, st.pending, st.persistent, st.deleted, st.detached]))

    log = []
    for n, name in enumerate(EVN):
        event.listen(s, name, lambda sess, o, n=n: log.append((n, o, scode(inspect(o)))))
    objs = [A(id=p) for p in pks]
    raw = e.raw_connection()
    out = []
    mops = []

    def idx(o):
        for i, x in enumerate(objs):
            if x is o:
                return i
        objs.append(o)
        return len(objs) - 1

    try:
        for code, i in ops:
            o = objs[i % len(objs)]
            del log[:]
            cur = raw.cursor()
            cur.execute("select id from a order by id")
            vis = [r[0] for r in cur.fetchall()]
            cur.close()
            fl = []
            for x in objs:
                st = inspect(x)
                fl.append(int(st.expired) | int("id" in st.expired_attributes) << 1 | int("id" in st.dict) << 2)
            mops.append([code + 16 * i + 128 * int(bool(s.identity_map.check_modified())) + 256 * sum(1 << (r - 1) for r in vis),
                         sum(f << (3 * j) for j, f in enumerate(fl))])
            npk = [inspect(x).dict.get("id") for x in s.new]
            if any(inspect(x).key is None and "id" not in inspect(x).dict for x in objs) or len(set(npk)) != len(npk):
                out.append([99])
                break
            err = 0
            res = -1
            try:
                if code == 0:
                    s.add(o)
                elif code == 1:
                    s.delete(o)
                elif code == 2:
                    s.expunge(o)
                elif code == 3:
                    s.flush()
                elif code == 4:
                    s.commit()
                elif code == 5:
                    s.rollback()
                elif code == 6:
                    s.close()
                elif code == 7:
                    res = idx(s.merge(o))
                elif code == 8:
                    E["make_transient"](o)
                elif code == 9:
                    E["make_transient_to_detached"](o)
                elif code == 10:
                    s.begin_nested()
                elif code == 11:
                    t = s.get_nested_transaction()
                    if t is not None:
                        t.rollback()
                elif code == 12:
                    t = s.get_nested_transaction()
                    if t is not None:
                        t.commit()
            except Exception as ex:
                err = _exc_code(ex, E)
            evs = [(idx(x), n, sc) for n, x, sc in log]
            sts = []
            for x in objs:
                st = inspect(x)
                fl_ = int(x in s.new) | int(x in s.deleted) << 1 | int(s.identity_map.contains_state(st)) << 2 | int(st.was_deleted) << 3
                sts.append(scode(st) + 32 * fl_)
            evl = [j * 1024 + n * 32 + sc for j in range(len(objs)) for (k, n, sc) in evs if k == j]
            out.append([err + 16 * (res + 1), sum(w << (9 * j) for j, w in enumerate(sts))] + evl)
            if code == 5 and err != 0:  # a rollback() that raised leaves the transaction half restored: cut
                out.append([99])
                break
    finally:
        s.close()
        raw.close()
    return [[eoc, pks, mops], out]


def model_pair(case, obs):
    return obs[0], obs[1]


# ------------------------------------------------------------------------------------------------
# the property, stated on the observation
def _violations(case, obs):
    """every (step, object) at which the observed flags / events leave the documented machine"""
    mi, out = obs
    ops = mi[2]
    prev = [1] * len(mi[1])
    viol = []
    for k, (mop, o) in enumerate(zip(ops, out)):
        if o == [99]:
            break
        code, idx = mop[0] & 15, (mop[0] >> 4) & 7
        err, evl = o[0] & 15, o[2:]
        sts = []
        w = o[1]
        while w:
            sts.append(w & 511)
            w >>= 9
        tgt = idx % len(prev)
        for j, w in enumerate(sts):
            sc = w & 31
            if sc not in (1, 2, 4, 8, 16):
                viol.append((k, j, "not-exactly-one-state", code, None, (), sc))
                continue
            evs = [((v >> 5) & 31, v & 31) for v in evl if v >> 10 == j]
            b = prev[j] if j < len(prev) else (0 if evs and evs[0][0] == 3 else 1)
            cur = b
            ok = True
            for ev, c in evs:
                f, t = FROM_TO[ev]
                if f != cur or c != t:  # the event is not the one documented for a transition cur -> c
                    ok = False
                cur = c
            if code == 8 and j == tgt:  # make_transient: a last, event-less hop detached/transient -> transient
                if not (cur in (16, 1) and sc == 1):
                    ok = False
            elif code == 9 and j == tgt and err == 0:  # make_transient_to_detached: transient -> detached, no event
                if not (cur == 1 and sc == 16 and not evs):
                    ok = False
            elif cur != sc:  # a state change that no event announced
                ok = False
            if not ok:
                viol.append((k, j, "transition", code, b, tuple(evs), sc))
            elif (code in NO_TARGET or j != tgt) and j < len(prev) and b in (1, 16) and (sc != b or evs):
                # an object outside the session that is not the operation's argument is not touched
                viol.append((k, j, "outside", code, b, tuple(evs), sc))
            elif code == 0 and j == tgt and err == 0 and (w >> 5) & 2:
                # add() leaves the object persistent / pending: it is no longer marked for deletion
                viol.append((k, j, "add-keeps-delete-mark", code, b, tuple(evs), sc))
        prev = [w & 31 for w in sts]
    return viol


def _describe(v):
    k, j, kind, code, b, evs, sc = v
    if kind == "not-exactly-one-state":
        return "step %d (%s): object %d is in %d lifecycle states at once (flag mask %d)" % (k, OPN[code], j, bin(sc).count("1"), sc)
    if kind == "outside":
        return "step %d (%s): object %d is not the operation's argument and was %s (outside the session), yet events %s fired and it is %s" % (
            k, OPN[code], j, SN.get(b, b), ["%s@%s" % (EVN[e], SN.get(c, c)) for e, c in evs], SN.get(sc, sc))
    if kind == "add-keeps-delete-mark":
        return "step %d (add): object %d is %s after add() but still in session.deleted - the next flush will delete an object that add() put back" % (k, j, SN.get(sc, sc))
    return "step %d (%s): object %d was %s, events %s, is %s - not a path of documented transitions each announced by its event" % (
        k, OPN[code], j, SN.get(b, b), ["%s@%s" % (EVN[e], SN.get(c, c)) for e, c in evs], SN.get(sc, sc))


def oracle(case, obs):
    v = _violations(case, obs)
    if not v:
        return None
    # report a violation that no known-finding signature explains, if there is one (a listed defect earlier in
    # the history must not hide a different one later)
    for x in v:
        if match_finding(case, _describe(x)) is None:
            return _describe(x)
    return _describe(v[0])


_RESTORE_OPS = (3, 4, 5, 7, 10, 11, 12)   # operations that can run _restore_snapshot (rollbacks, failing flushes)
_FLUSH_OPS = (3, 4, 7, 10, 12)            # operations that flush
_SIG = [
    # (finding id, ops it may occur in, predicate on (before, events, after))
    ("C35-rollback-unflushed-delete", _RESTORE_OPS,
     lambda b, evs, a: b == 4 and evs[:1] == ((9, 4),)),
    ("C35-restore-stale-new", _RESTORE_OPS,
     lambda b, evs, a: (b in (1, 2) and a == 1 and evs and set(evs) == {(2, 1)} and not (b == 2 and len(evs) == 1))
     or (b == 16 and a == 1 and evs in (((4, 1),), ((6, 1),)))),
    ("C35-restore-deleted-new", _RESTORE_OPS,
     lambda b, evs, a: b == 8 and a == 1 and evs == ((6, 1),)),
    ("C35-double-persistent-to-deleted", _FLUSH_OPS,
     lambda b, evs, a: (b == 8 and evs[:1] == ((5, 8),)) or evs[:2] == ((5, 8), (5, 8))),
    # later manifestations of the same acceptance of a deleted-state object by delete()
    ("C35-double-persistent-to-deleted", (4, 5, 11),
     lambda b, evs, a: (b == 8 and a == 4 and evs == ((9, 4), (9, 4))) or (b == 16 and a == 16 and evs == ((6, 16),))),
    ("C35-delete-was-deleted", (1,),
     lambda b, evs, a: b == 16 and a == 8 and evs == ((8, 8),)),
]


def match_finding(case, what):
    # re-derive the structured violation from the text: "step K (op): object J was B, events [...], is A"
    m = re.match(r"step \d+ \((\w+)\): object \d+ was (\w+), events (\[.*?\]), is (\w+) ", what)
    if not m:
        return None
    try:
        return _match(m)
    except (KeyError, ValueError):  # states / events outside the vocabulary: not a known finding
        return None


def _match(m):
    inv = {v: k for k, v in SN.items()}
    code = OPN.index(m.group(1))
    b, a = inv[m.group(2)], inv[m.group(4)]
    evs = tuple((EVN.index(x.split("@")[0]), inv[x.split("@")[1]]) for x in re.findall(r"'([^']+)'", m.group(3)))
    for fid, opset, pred in _SIG:
        if code in opset and pred(b, evs, a):
            return fid
    return None


LEVEL_TEXT = (
    "Machine-checked proof (Coq) over a Gallina transcription of the Session lifecycle machinery: the five "
    "InstanceState predicates partition every state; for every history of the ten operations (unbounded length, "
    "any number of objects, any database / attribute environment) inside an explicit guard the transition/event "
    "log is a sequence of documented transitions each immediately followed by exactly its documented event and no "
    "other event; outside the guard six concrete histories refute the property (four defect classes reproduced on "
    "the implementation and listed as known findings; the delete()+rollback() defect is repaired in /repo 93a87c1 and "
    "is now a positive example inside the guard).  Tie to the code: 49 pinned anchors, the predicates and the "
    "event table regenerated from the source on every run, and model/implementation correspondence on histories."
)
LEVEL_NOTE = (
    "partial: one Session; SAVEPOINT histories are run on the implementation and judged by the oracle only (the model "
    "and the theorems have no nested transactions); no relationships/cascades, weak-reference collection or autoflush by "
    "queries; database rows and attribute expiry are environment inputs (quantified in the theorems, observed from "
    "the implementation in the correspondence); histories are cut where an identity-less object has lost its pk "
    "value or two pending objects share a pk.  The guard is conservative in one place (Session.delete of an object "
    "in the deleted state is excluded although the defect only shows at the next flush).  Trusted: Coq kernel, the "
    "hand transcription, the harness observation.  No axioms."
)
TECHNIQUE = (
    "Coq: per-object boolean invariant + guard, preserved by every operation (case analysis by computation over the "
    "object record, induction over passes, folds and histories); refutations by vm_compute; regenerated predicate/"
    "event tables; source pins; model/implementation correspondence with environment feedback (model_pair)"
)
