"""C22 - compiling a well-formed construct never fails with an internal error (PARTIAL: dispatch totality is proved,
three internal-error fragments are modelled and refuted, the bodies of the visit methods are explored by a
generative compile fuzz)."""
import os

ID = "C22"
LEVEL = "proof"
PROPS = "props/C22.v"
RUNNER = ("Gen.Gen_C22", "run_case")
STATIC_MODULES = ["SAV.sql.DispatchRun", "SAV.sql.DispatchProofs", "SAV.sql.DispatchFragProofs", "SAV.sql.DispatchCteProofs"]

RULE = (
    "model-compared families: (elem) every distinct (visit name, compiler class) pair of the built-in dialects, run "
    "through the real generated Visitable._compiler_dispatch against a spy around a real compiler instance; (op) "
    "every operator function x {binary, unary operator, unary modifier, expression_clauselist, clauselist} on every "
    "distinct statement compiler (thorough) / two per operator (quick) through the real visit_binary/visit_unary/"
    "visit_expression_clauselist/visit_clauselist; (tree) random construct trees (columns, binds, binary/unary/"
    "clauselist operators, dialect-specific elements, CAST and CREATE TABLE with generic and dialect-specific types) "
    "compiled on every dialect, outcome ok / UnsupportedCompilationError / internal vs the model's walk; (index) "
    "CREATE/DROP INDEX x name kinds x DDL compilers; (pickle) operate/pickle histories. oracle-only family (fuzz): "
    "generated SELECT/DML/DDL statements (incl. CTE graphs with add_cte(nest_here) where a CTE is reachable indirectly and "
    "directly, DML and dialect upserts nested as CTEs, string label references in window / WITHIN GROUP ORDER BY inside DML) "
    "x 21 dialect variants x option variants, exception class of compile(). non-trivial = "
    "the case reaches at least two dispatch steps or is a fuzz statement with >= 3 clauses"
)
TRUSTED = [
    "the tables (visit_* names per compiler class with MRO, dialect -> compiler classes, compiler.OPERATORS keys, operator "
    "names, operators placed in UnaryExpression/ClauseList by the library (AST scan), which visit_create_index/"
    "visit_drop_index overrides test index.name) are read from the running source on every run (Gen_C22.v)",
    "hand transcription of Visitable._generate_compiler_dispatch, SQLCompiler.visit_binary/visit_unary/"
    "visit_expression_clauselist/visit_clauselist/_get_operator_dispatch/_get_custom_operator_dispatch/visit_custom_op_*, "
    "format_constraint/format_index (pinned normalised source + behavioural correspondence)",
    "attribute lookup on a compiler instance = search of the class MRO (the translator fails closed if a compiler class "
    "defines __getattr__/__getattribute__ or if MRO lookup and hasattr() ever disagree)",
    "the BODIES of the ~900 visit_* methods are NOT modelled: absence of internal errors inside them is explored by the "
    "compile fuzz only, not proved",
    "coq/sql/Ident.v (C06 model of _requires_quotes) is reused for the empty-identifier refutation",
]
ASSUMPTIONS = [
    "operator positions of the quantified trees hold operators the library itself places there (unary_ops/clist_ops tables) "
    "and every node has a generated _compiler_dispatch; outside this guard the refutation theorems apply",
    "third-party dialects and @compiles extensions are outside the tables",
]
LEVEL_TEXT = (
    "Coq proof that the two/three-level compiler dispatch (Visitable._compiler_dispatch -> visit_<name>; operator -> "
    "visit_<op>_<position> | OPERATORS | error; custom_op.visit_name) never ends in an internal error on any tree over "
    "the regenerated tables of all built-in dialect compilers: a finite reflective check (covers gen_tables = true, "
    "vm_compute on every run) lifted to arbitrary trees by induction; a selected method always exists; "
    "UnsupportedCompilationError is raised only for a really absent method. Refuted and guarded: unary/clauselist "
    "operator outside OPERATORS (KeyError), Visitable without dispatch (AttributeError), unnamed Index on dialect DDL "
    "compilers (AssertionError), pickled memoized comparator (AttributeError), empty identifier (IndexError)."
)
LEVEL_NOTE = (
    "PARTIAL. Proved: dispatch totality + the three modelled internal-error fragments. NOT proved: the bodies of the "
    "visit_* methods - for them the check is exploration only (generative compile fuzz over SELECT/DML/DDL x dialects x "
    "literal_binds/render_postcompile/schema_translate_map/label styles/paramstyles/server versions, classifying the "
    "exception type). ORM statements are not generated."
)
TECHNIQUE = (
    "Coq proof (reflective table check per run + induction over construct trees) + model/impl correspondence through the "
    "real dispatch closures + generative compile fuzz with exception classification"
)

ANCHORS = [
    ("lib/sqlalchemy/sql/visitors.py", "Visitable.__init_subclass__"),
    ("lib/sqlalchemy/sql/visitors.py", "Visitable._generate_compiler_dispatch"),
    ("lib/sqlalchemy/sql/compiler.py", "Compiled.visit_unsupported_compilation"),
    ("lib/sqlalchemy/sql/compiler.py", "Compiled.process"),
    ("lib/sqlalchemy/sql/compiler.py", "TypeCompiler.process"),
    ("lib/sqlalchemy/sql/compiler.py", "TypeCompiler.visit_unsupported_compilation"),
    ("lib/sqlalchemy/sql/compiler.py", "SQLCompiler._get_operator_dispatch"),
    ("lib/sqlalchemy/sql/compiler.py", "SQLCompiler._get_custom_operator_dispatch"),
    ("lib/sqlalchemy/sql/compiler.py", "SQLCompiler.visit_binary"),
    ("lib/sqlalchemy/sql/compiler.py", "SQLCompiler.visit_unary"),
    ("lib/sqlalchemy/sql/compiler.py", "SQLCompiler.visit_clauselist"),
    ("lib/sqlalchemy/sql/compiler.py", "SQLCompiler.visit_expression_clauselist"),
    ("lib/sqlalchemy/sql/compiler.py", "SQLCompiler.visit_custom_op_binary"),
    ("lib/sqlalchemy/sql/compiler.py", "SQLCompiler.visit_custom_op_unary_operator"),
    ("lib/sqlalchemy/sql/compiler.py", "SQLCompiler.visit_custom_op_unary_modifier"),
    ("lib/sqlalchemy/sql/compiler.py", "SQLCompiler.visit_cte"),
    ("lib/sqlalchemy/sql/compiler.py", "SQLCompiler.visit_textual_label_reference"),
    ("lib/sqlalchemy/sql/compiler.py", "DDLCompiler._prepared_index_name"),
    ("lib/sqlalchemy/sql/compiler.py", "IdentifierPreparer.format_constraint"),
    ("lib/sqlalchemy/sql/compiler.py", "IdentifierPreparer.format_index"),
    ("lib/sqlalchemy/sql/compiler.py", "IdentifierPreparer._requires_quotes"),
    ("lib/sqlalchemy/sql/type_api.py", "TypeEngine.Comparator.__init__"),
    ("lib/sqlalchemy/sql/type_api.py", "TypeEngine.Comparator.__reduce__"),
    ("lib/sqlalchemy/sql/sqltypes.py", "HasExpressionLookup.Comparator._adapt_expression"),
]

EXCLUDED_COMPILERS = ("StrSQLCompiler", "StrSQLTypeCompiler")  # str(stmt) only; StrSQLTypeCompiler defines __getattr__
POSITIONS = ("binary", "unary_operator", "unary_modifier", "expression_clauselist")
UNSUPPORTED = "visit_unsupported_compilation"


def pin_check(repo):
    from translate import fingerprint

    fingerprint.check(repo, ANCHORS, "C22")


# ------------------------------------------------------------------ T1: tables read from the running source
def _allsubs(c, seen=None):
    seen = seen if seen is not None else []
    for s in c.__subclasses__():
        if s not in seen:
            seen.append(s)
            _allsubs(s, seen)
    return seen


def _qn(c):
    return c.__module__ + "." + c.__qualname__


def _import_all():
    import importlib
    import pkgutil

    import sqlalchemy
    import sqlalchemy.dialects
    import sqlalchemy.orm  # noqa

    for m in pkgutil.walk_packages(sqlalchemy.dialects.__path__, "sqlalchemy.dialects."):
        importlib.import_module(m.name)  # an import failure fails the translation (closed)


def _scan_operator_sites(libdir, unary_names):
    """AST scan: operators the library itself places in UnaryExpression (and subclasses) / ClauseList"""
    import ast

    un, cl, dyn = set(), set(), set()

    def opname(v):
        if isinstance(v, ast.Attribute) and isinstance(v.value, ast.Name) and v.value.id == "operators":
            return v.attr
        if isinstance(v, ast.Constant) and v.value is None:
            return None
        return "DYN:" + ast.unparse(v)

    for d, _, fs in os.walk(libdir):
        if "/testing" in d or "__pycache__" in d:
            continue
        for f in sorted(fs):
            if not f.endswith(".py"):
                continue
            with open(os.path.join(d, f)) as fh:
                t = ast.parse(fh.read())
            for n in ast.walk(t):
                if not isinstance(n, ast.Call):
                    continue
                fn = n.func
                nm = fn.id if isinstance(fn, ast.Name) else (fn.attr if isinstance(fn, ast.Attribute) else None)
                base = fn.value.id if isinstance(fn, ast.Attribute) and isinstance(fn.value, ast.Name) else None
                if nm in unary_names or (nm == "__init__" and base in unary_names):
                    pairs = [(k.arg == "modifier", k.value) for k in n.keywords if k.arg in ("operator", "modifier")]
                    if nm == "AsBoolean":
                        pairs += [(False, a) for a in n.args[1:3]]
                    for ismod, v in pairs:
                        o = opname(v)
                        if o is None:
                            continue
                        (dyn if o.startswith("DYN:") else un).add((o, ismod))
                if nm == "ClauseList" or (nm == "__init__" and base == "ClauseList"):
                    for k in n.keywords:
                        if k.arg == "operator":
                            o = opname(k.value)
                            if o is None:
                                continue
                            if o.startswith("DYN:"):
                                dyn.add((o, False))
                            else:
                                cl.add(o)
    return sorted(un), sorted(cl), sorted(dyn)


def _has_name_test(fn):
    """does this visit_create_index/visit_drop_index test `index.name is None` and raise?"""
    import ast
    import inspect
    import textwrap

    t = ast.parse(textwrap.dedent(inspect.getsource(fn)))
    for n in ast.walk(t):
        if isinstance(n, ast.If) and isinstance(n.test, ast.Compare):
            c = n.test
            if (
                isinstance(c.left, ast.Attribute)
                and c.left.attr == "name"
                and len(c.ops) == 1
                and isinstance(c.ops[0], ast.Is)
                and isinstance(c.comparators[0], ast.Constant)
                and c.comparators[0].value is None
                and any(isinstance(b, ast.Raise) for b in n.body)
            ):
                return True
    return False


_FACTS = None


def _facts_cache_path():
    try:
        from vlib.common import BUILD

        return os.path.join(BUILD, "C22", "facts.json")
    except Exception:
        return None


def facts(_=None):
    """runs in the impl interpreter"""
    global _FACTS
    if _FACTS is not None:
        return _FACTS
    cached = _facts_cache_path()
    if _ != "fresh" and cached and os.path.exists(cached):
        # written by translate() of THIS run (the build directory is recreated on every run)
        import json

        _import_all()
        with open(cached) as fh:
            _FACTS = json.load(fh)
        return _FACTS
    _import_all()
    import sqlalchemy
    from sqlalchemy.engine import default
    from sqlalchemy.sql import compiler, default_comparator, elements, operators, visitors
    from sqlalchemy.sql.type_api import TypeEngine

    comps = [c for c in _allsubs(compiler.Compiled) + _allsubs(compiler.TypeCompiler) if c.__name__ not in EXCLUDED_COMPILERS]
    classes = []  # every class in an MRO, in first-seen order
    for c in comps:
        for k in c.__mro__:
            if k is not object and k not in classes:
                classes.append(k)
    for k in classes:
        for bad in ("__getattr__", "__getattribute__"):
            if bad in vars(k):
                raise RuntimeError("compiler class %s defines %s: attribute lookup is no longer an MRO search" % (_qn(k), bad))
    own = {k: sorted(n for n in vars(k) if n.startswith("visit_")) for k in classes}
    names = set([UNSUPPORTED, "visit_binary", "visit_unary", "visit_expression_clauselist", "visit_clauselist"])
    for k in classes:
        names.update(own[k])

    # dialect classes -> compiler triple
    dials = []
    for dc in [default.DefaultDialect] + _allsubs(default.DefaultDialect):
        if dc is default.StrCompileDialect:
            continue
        tc = getattr(dc, "type_compiler_cls", None)
        trip = (dc.statement_compiler, dc.ddl_compiler, tc)
        for c in trip:
            if c not in comps:
                raise RuntimeError("dialect %s uses a compiler outside the table: %r" % (_qn(dc), c))
        dials.append((_qn(dc), dc.name) + trip)

    # visitables
    vis = []
    for s in _allsubs(visitors.Visitable):
        f = getattr(s, "_compiler_dispatch", None)
        if f is None:
            vis.append([_qn(s), "none", None, issubclass(s, TypeEngine)])
        elif "_generate_compiler_dispatch" in getattr(f, "__qualname__", ""):
            cells = dict(zip(f.__code__.co_freevars, [c.cell_contents for c in f.__closure__]))
            got = repr(cells["getter"])
            want = "operator.attrgetter('visit_%s')" % s.__visit_name__
            if got != want:
                raise RuntimeError("%s: dispatch closure looks up %s but __visit_name__ is %r" % (_qn(s), got, s.__visit_name__))
            vis.append([_qn(s), "gen", "visit_" + s.__visit_name__, issubclass(s, TypeEngine)])
            names.add("visit_" + s.__visit_name__)
        else:
            vis.append([_qn(s), "fixed", None, issubclass(s, TypeEngine)])

    # operators
    opnames = set(o.__name__ for o in compiler.OPERATORS) | set(default_comparator.operator_lookup)
    opnames |= set(o.__name__ for o in operators._PRECEDENCE)
    import operator as _pyop

    def _opfn(n):
        o = getattr(operators, n, None) or getattr(_pyop, n, None)
        return o if callable(o) and getattr(o, "__name__", None) == n else None

    opnames = sorted(n for n in opnames if _opfn(n) is not None)
    generic = sorted(o.__name__ for o in compiler.OPERATORS)
    for o in opnames:
        for p in POSITIONS:
            names.add("visit_%s_%s" % (o, p))

    libdir = os.path.dirname(sqlalchemy.__file__)
    unary_cls = {c.__name__ for c in [elements.UnaryExpression] + _allsubs(elements.UnaryExpression) if "Annotated" not in c.__name__}
    un, cl, dyn = _scan_operator_sites(libdir, unary_cls)
    allowed_dyn = {("DYN:self.operator", False), ("DYN:self.negate", False)}  # AsBoolean._negate swaps its own two
    if set(dyn) - allowed_dyn:
        raise RuntimeError("operator placed in a unary/clauselist position by an expression the scan cannot resolve: %r" % (sorted(set(dyn) - allowed_dyn),))
    # documented direct uses (custom_op docstring) and the ClauseList.__init__ default
    un = sorted(set(un) | {("custom_op", False), ("custom_op", True)})
    import inspect

    dflt = inspect.signature(elements.ClauseList.__init__).parameters["operator"].default
    cl = sorted(set(cl) | {dflt.__name__})
    for o, _m in un:
        if o not in opnames:
            raise RuntimeError("unary operator %s is not an operator function" % o)
    for o in cl:
        if o not in opnames:
            raise RuntimeError("clauselist operator %s is not an operator function" % o)

    # index-name tests of the DDL compilers
    ddl = [c for c in comps if issubclass(c, compiler.DDLCompiler)]
    name_check = [[_qn(c), _has_name_test(c.visit_create_index), _has_name_test(c.visit_drop_index)] for c in ddl]

    names = sorted(names)
    nid = {n: i for i, n in enumerate(names)}
    cid = {k: i for i, k in enumerate(classes)}
    # sanity: MRO search == hasattr for every compiler and every name
    for c in comps:
        for n in names:
            by_mro = any(n in own[k] for k in c.__mro__ if k is not object)
            if by_mro != hasattr(c, n):
                raise RuntimeError("MRO search and hasattr disagree for %s.%s" % (_qn(c), n))
    _FACTS = {
        "names": names,
        "classes": [_qn(k) for k in classes],
        "own": [[nid[n] for n in own[k]] for k in classes],
        "mro": [[cid[c], [cid[k] for k in c.__mro__ if k is not object]] for c in comps],
        "dialects": [[d[0], d[1], cid[d[2]], cid[d[3]], cid[d[4]]] for d in dials],
        "visitables": vis,
        "ops": opnames,
        "generic": generic,
        "unary_ops": [[o, bool(m)] for o, m in un],
        "clist_ops": cl,
        "name_check": [[cid[next(k for k in classes if _qn(k) == q)], a, b] for q, a, b in name_check],
    }
    return _FACTS


def _nlist(xs):
    return "[" + "; ".join("%d" % x for x in xs) + "]%N"


def gen_source(f):
    nid = {n: i for i, n in enumerate(f["names"])}
    oid = {o: i for i, o in enumerate(f["ops"])}
    L = []
    L.append("(* generated on every run from the running sqlalchemy source - do not edit *)")
    L.append("From Coq Require Import List NArith Bool.\nImport ListNotations.")
    L.append("From SAV.base Require Import Tree.\nFrom SAV.sql Require Import Dispatch DispatchRun.\n")
    L.append("(* %d method names, %d classes, %d compilers, %d dialect classes, %d operators *)" % (
        len(f["names"]), len(f["classes"]), len(f["mro"]), len(f["dialects"]), len(f["ops"])))
    L.append("Definition gen_tables : tables := {|")
    L.append("  cls_methods := [\n    " + ";\n    ".join(
        "(%d%%N, %s) (* %s *)" % (i, _nlist(own), f["classes"][i]) for i, own in enumerate(f["own"])) + "];")
    L.append("  cls_mro := [\n    " + ";\n    ".join("(%d%%N, %s)" % (c, _nlist(m)) for c, m in f["mro"]) + "];")
    L.append("  dialects := [\n    " + ";\n    ".join(
        "{| d_sql := %d; d_ddl := %d; d_type := %d |} (* %s *)" % (d[2], d[3], d[4], d[0]) for d in f["dialects"]) + "];")
    L.append("  n_unsupported := %d; n_binary := %d; n_unary := %d; n_elist := %d; n_clist := %d;" % (
        nid[UNSUPPORTED], nid["visit_binary"], nid["visit_unary"], nid["visit_expression_clauselist"], nid["visit_clauselist"]))
    L.append("  generic_ops := %s;" % _nlist(oid[o] for o in f["generic"]))
    L.append("  op_table := [\n    " + ";\n    ".join(
        "(%d%%N, {| on_binary := %d; on_unop := %d; on_unmod := %d; on_elist := %d |}) (* %s *)" % (
            (i,) + tuple(nid["visit_%s_%s" % (o, p)] for p in POSITIONS) + (o,)) for i, o in enumerate(f["ops"])) + "];")
    L.append("  unary_ops := [" + "; ".join("(%d%%N, %s)" % (oid[o], "true" if m else "false") for o, m in f["unary_ops"]) + "];")
    L.append("  clist_ops := %s" % _nlist(oid[o] for o in f["clist_ops"]))
    L.append("|}.\n")
    L.append("(* DDL compiler class -> (visit_create_index tests index.name, visit_drop_index tests index.name) *)")
    L.append("Definition gen_name_check : list (N * (bool * bool)) := [" + "; ".join(
        "(%d%%N, (%s, %s))" % (c, "true" if a else "false", "true" if b else "false") for c, a, b in f["name_check"]) + "].\n")
    L.append("Definition run_case := run_with gen_tables gen_name_check.")
    return "\n".join(L) + "\n"


def obl_source(f):
    oid = {o: i for i, o in enumerate(f["ops"])}
    unchecked = [c for c, a, b in f["name_check"] if not a]
    L = []
    L.append("(* generated on every run - per-run obligations about the regenerated tables *)")
    L.append("From Coq Require Import List NArith Bool.\nImport ListNotations.")
    L.append("From SAV.sql Require Import Dispatch DispatchProofs DispatchFrag DispatchFragProofs DispatchRun.")
    L.append("From SAV.props Require Import C22.\nRequire Import Gen.Gen_C22.\n")
    L.append("(* the finite side condition of the general theorem holds for the code as it is NOW *)")
    L.append("Lemma gen_covers : covers gen_tables = true.\nProof. vm_compute; reflexivity. Qed.")
    L.append("Lemma gen_tables_wellformed : tables_ok gen_tables = true.\nProof. vm_compute; reflexivity. Qed.")
    L.append("(* the property theorem instantiated with the current tables *)")
    L.append("Theorem gen_c22_dispatch_total : forall d, In d (dialects gen_tables) -> forall n, wf gen_tables n = true ->\n"
             "  forall e, walk gen_tables d n <> RInt e.\nProof. exact (c22_dispatch_total gen_tables gen_covers). Qed.")
    L.append("Print Assumptions gen_c22_dispatch_total.")
    sqlc = sorted({d[2] for d in f["dialects"]})
    mro = dict((c, m) for c, m in f["mro"])
    nid = {n: i for i, n in enumerate(f["names"])}

    def has(c, n):
        return n in nid and any(nid[n] in f["own"][k] for k in mro[c])

    if "like_op" in oid and "like_op" not in f["generic"] and not any(has(c, "visit_like_op_unary_operator") for c in sqlc):
        L.append("(* outside the guard the current code still has the internal KeyError: like_op in a unary position *)")
        L.append("Lemma gen_unary_unlisted_refuted : forallb (fun d => result_is (RInt KeyErr)\n"
                 "  (walk gen_tables d (NUnary (Some %d%%N) None None (NElem KSql 0%%N [])))) (dialects gen_tables) = true.\n"
                 "Proof. vm_compute; reflexivity. Qed." % oid["like_op"])
    L.append("(* index DDL: which DDL compilers reach the assertion for an unnamed index *)")
    L.append("Lemma gen_index_unchecked : map fst (filter (fun x => negb (fst (snd x))) gen_name_check) = %s.\n"
             "Proof. vm_compute; reflexivity. Qed." % _nlist(unchecked))
    return "\n".join(L) + "\n"


# ------------------------------------------------------------------ facts on the orchestrator side
_ORCH = {"f": None, "tried": False}


def _ofacts():
    """the tables, for the case generator (orchestrator process); None if they cannot be read"""
    if not _ORCH["tried"]:
        _ORCH["tried"] = True
        try:
            from vlib import implcall

            _ORCH["f"] = implcall.call("specs.c22", "facts", "fresh")
        except Exception:
            _ORCH["f"] = None
    return _ORCH["f"]


def translate(repo, outdir):
    from vlib import implcall

    f = implcall.call("specs.c22", "facts", "fresh")
    _ORCH["f"], _ORCH["tried"] = f, True
    import json

    with open(os.path.join(outdir, "facts.json"), "w") as fh:
        json.dump(f, fh)
    p = os.path.join(outdir, "Gen_C22.v")
    with open(p, "w") as fh:
        fh.write(gen_source(f))
    p2 = os.path.join(outdir, "Gen_C22_obl.v")
    with open(p2, "w") as fh:
        fh.write(obl_source(f))
    return [p, p2]


# dialect classes used for the tree / fuzz families: (key, qualified class name, kwargs)
DIALECTS = [
    ("default", "sqlalchemy.engine.default.DefaultDialect", {}),
    ("sqlite", "sqlalchemy.dialects.sqlite.pysqlite.SQLiteDialect_pysqlite", {}),
    ("postgresql", "sqlalchemy.dialects.postgresql.psycopg2.PGDialect_psycopg2", {}),
    ("mysql", "sqlalchemy.dialects.mysql.mysqldb.MySQLDialect_mysqldb", {}),
    ("mariadb", "sqlalchemy.dialects.mysql.mariadb.MariaDBDialect", {}),
    ("mssql", "sqlalchemy.dialects.mssql.pyodbc.MSDialect_pyodbc", {}),
    ("oracle", "sqlalchemy.dialects.oracle.cx_oracle.OracleDialect_cx_oracle", {}),
]
DKEYS = [d[0] for d in DIALECTS]

# operators whose visit_<op>_binary bodies render both operands and nothing else can go wrong in them
BENIGN_BIN = ["add", "sub", "mul", "eq", "ne", "lt", "le", "gt", "ge", "and_", "or_", "concat_op", "like_op", "not_like_op",
              "is_", "is_not", "ilike_op", "bitwise_and_op", "bitwise_or_op", "is_distinct_from", "mod", "startswith_op"]
# operators with neither a method nor an OPERATORS entry: documented error from visit_binary, KeyError from visit_unary
NOWHERE_OPS = ["matmul", "lshift", "rshift", "pow", "contains", "filter_op", "null_op"]
UNARY_LISTED = [("neg", 0), ("inv", 0), ("distinct_op", 0), ("desc_op", 1), ("asc_op", 1),
                ("nulls_first_op", 1), ("nulls_last_op", 1)]
# (recipe name, qualified class, constructor args, visit name) - types whose bodies are benign with these arguments
TYPES = [
    ("sqlalchemy.sql.sqltypes.Integer", [], "integer"), ("sqlalchemy.sql.sqltypes.String", [10], "string"),
    ("sqlalchemy.sql.sqltypes.Numeric", [10, 2], "numeric"), ("sqlalchemy.sql.sqltypes.BigInteger", [], "big_integer"),
    ("sqlalchemy.sql.sqltypes.DateTime", [], "datetime"), ("sqlalchemy.sql.sqltypes.Date", [], "date"),
    ("sqlalchemy.sql.sqltypes.VARCHAR", [20], "VARCHAR"), ("sqlalchemy.sql.sqltypes.INTEGER", [], "INTEGER"),
    ("sqlalchemy.sql.sqltypes.Uuid", [], "uuid"), ("sqlalchemy.sql.sqltypes.JSON", [], "JSON"),
    ("sqlalchemy.sql.sqltypes.DOUBLE", [], "DOUBLE"), ("sqlalchemy.sql.sqltypes.UUID", [], "UUID"),
    ("sqlalchemy.dialects.postgresql.hstore.HSTORE", [], "HSTORE"), ("sqlalchemy.dialects.postgresql.json.JSONB", [], "JSONB"),
    ("sqlalchemy.dialects.postgresql.types.INET", [], "INET"), ("sqlalchemy.dialects.postgresql.types.MONEY", [], "MONEY"),
    ("sqlalchemy.dialects.postgresql.types.TSVECTOR", [], "TSVECTOR"), ("sqlalchemy.dialects.postgresql.ranges.INT4RANGE", [], "INT4RANGE"),
    ("sqlalchemy.dialects.postgresql.types.BIT", [], "BIT"), ("sqlalchemy.dialects.postgresql.types.OID", [], "OID"),
    ("sqlalchemy.dialects.mysql.types.TINYINT", [], "TINYINT"), ("sqlalchemy.dialects.mysql.types.MEDIUMTEXT", [], "MEDIUMTEXT"),
    ("sqlalchemy.dialects.mysql.types.YEAR", [], "YEAR"), ("sqlalchemy.dialects.mysql.types.LONGBLOB", [], "LONGBLOB"),
    ("sqlalchemy.dialects.mysql.mariadb.INET4", [], "INET4"),
    ("sqlalchemy.dialects.mssql.base.MONEY", [], "MONEY"), ("sqlalchemy.dialects.mssql.base.UNIQUEIDENTIFIER", [], "UNIQUEIDENTIFIER"),
    ("sqlalchemy.dialects.mssql.base.XML", [], "XML"), ("sqlalchemy.dialects.mssql.base.DATETIME2", [], "DATETIME2"),
    ("sqlalchemy.dialects.mssql.base.SQL_VARIANT", [], "SQL_VARIANT"),
    ("sqlalchemy.dialects.oracle.types.NUMBER", [], "NUMBER"), ("sqlalchemy.dialects.oracle.types.RAW", [16], "RAW"),
    ("sqlalchemy.dialects.oracle.types.ROWID", [], "ROWID"), ("sqlalchemy.dialects.oracle.types.BINARY_DOUBLE", [], "BINARY_DOUBLE"),
    ("sqlalchemy.dialects.oracle.types.BFILE", [], "BFILE"),
    ("sqlalchemy.dialects.sqlite.json.JSONB", [], "JSONB"),
]
FAR = 1000000  # id of a method name that exists nowhere


class _Ctx:
    """name <-> number maps of one facts object"""

    def __init__(self, f):
        self.f = f
        self.nid = {n: i for i, n in enumerate(f["names"])}
        self.oid = {o: i for i, o in enumerate(f["ops"])}
        self.cid = {c: i for i, c in enumerate(f["classes"])}
        self.didx = {d[0]: i for i, d in enumerate(f["dialects"])}
        self.dent = {d[0]: d for d in f["dialects"]}

    def n(self, name):
        return self.nid.get(name, FAR)


# ---- tree recipes: (recipe, model node) pairs built together -------------------------------------------------
def _gen_type(rng, cx):
    q, args, vn = rng.choice(TYPES)
    return ["type", q, args], [0, 2, cx.n("visit_" + vn), []]


def _gen_expr(rng, cx, d, st):
    """st: {"mode": None|"unsup"|"internal"} - at most one kind of failing construct per tree (evaluation order of two
    different failures is a matter of the method bodies, which the model does not describe)"""
    k = rng.random()
    if d <= 0 or k < 0.2:
        if rng.random() < 0.7:
            return ["col", rng.randint(0, 3)], [0, 0, cx.n("visit_column"), []]
        return ["bind", rng.randint(0, 9)], [0, 0, cx.n("visit_bindparam"), []]
    if k < 0.45:
        op = rng.choice(BENIGN_BIN)
        if rng.random() < 0.12 and st["mode"] in (None, "unsup"):
            st["mode"] = "unsup"
            op = rng.choice(NOWHERE_OPS)
        a, ma = _gen_expr(rng, cx, d - 1, st)
        b, mb = _gen_expr(rng, cx, d - 1, st)
        return ["bin", op, a, b], [2, cx.oid[op], -1, ma, mb]
    if k < 0.52:
        vn = rng.choice([None, "hstore_getitem", "nosuch"])
        a, ma = _gen_expr(rng, cx, d - 1, st)
        b, mb = _gen_expr(rng, cx, d - 1, st)
        cust = -1 if vn is None else cx.n("visit_%s_op_binary" % vn)
        return ["cbin", vn, a, b], [2, cx.oid["custom_op"], cust, ma, mb]
    if k < 0.64:
        a, ma = _gen_expr(rng, cx, d - 1, st)
        while a[0] == "clist":  # a Grouping(ClauseList) directly under a unary trips _wraps_unnamed_column's own assert
            a, ma = _gen_expr(rng, cx, d - 1, st)
        r = rng.random()
        if r < 0.12 and st["mode"] in (None, "internal"):
            st["mode"] = "internal"
            op = rng.choice(NOWHERE_OPS + ["like_op", "between_op"])
            ismod = rng.random() < 0.3
            return ["un", None if ismod else op, op if ismod else None, a], [3, -1 if ismod else cx.oid[op], cx.oid[op] if ismod else -1, -1, ma]
        if r < 0.17 and st["mode"] in (None, "cerr"):
            st["mode"] = "cerr"
            o, m = rng.choice([(None, None), ("neg", "desc_op")])
            return ["un", o, m, a], [3, -1 if o is None else cx.oid[o], -1 if m is None else cx.oid[m], -1, ma]
        if r < 0.25:
            ismod = rng.random() < 0.5
            vn = rng.choice([None, "nosuch"])
            cust = -1 if vn is None else cx.n("visit_%s_op_unary" % vn)
            return ["cun", vn, ismod, a], [3, -1 if ismod else cx.oid["custom_op"], cx.oid["custom_op"] if ismod else -1, cust, ma]
        op, ismod = rng.choice(UNARY_LISTED)
        return ["un", None if ismod else op, op if ismod else None, a], [3, -1 if ismod else cx.oid[op], cx.oid[op] if ismod else -1, -1, ma]
    if k < 0.72:
        kids = [_gen_expr(rng, cx, d - 1, st) for _ in range(rng.randint(1, 3))]
        op = rng.choice(["and_", "or_", "add", "mul", "concat_op"])
        if rng.random() < 0.1 and st["mode"] in (None, "unsup"):
            st["mode"] = "unsup"
            op = rng.choice(NOWHERE_OPS + ["like_op"])
        return ["elist", op, [x[0] for x in kids]], [4, cx.oid[op], [x[1] for x in kids]]
    if k < 0.78:
        kids = [_gen_expr(rng, cx, d - 1, st) for _ in range(rng.randint(1, 3))]
        op = rng.choice(["comma_op", None, "and_", "or_"])
        if rng.random() < 0.12 and st["mode"] in (None, "internal"):
            st["mode"] = "internal"
            op = rng.choice(NOWHERE_OPS + ["like_op", "between_op"])
        return ["clist", op, [x[0] for x in kids]], [0, 0, cx.n("visit_grouping"), [[5, -1 if op is None else cx.oid[op], [x[1] for x in kids]]]]
    if k < 0.84:
        a, ma = _gen_expr(rng, cx, d - 1, st)
        return ["label", a], [0, 0, cx.n("visit_label"), [ma]]
    if k < 0.9:
        kids = [_gen_expr(rng, cx, d - 1, st) for _ in range(rng.randint(0, 2))]
        comma = [5, cx.oid["comma_op"], [x[1] for x in kids]]
        return ["func", [x[0] for x in kids]], [0, 0, cx.n("visit_function"), [[0, 0, cx.n("visit_grouping"), [comma]]]]
    if st["mode"] in (None, "unsup"):
        st["mode"] = "unsup"
        r = rng.random()
        if r < 0.3:
            kids = [_gen_expr(rng, cx, d - 1, st) for _ in range(rng.randint(1, 2))]
            return ["pg_array", [x[0] for x in kids]], [0, 0, cx.n("visit_array"), [x[1] for x in kids]]
        if r < 0.5:
            a, ma = _gen_expr(rng, cx, d - 1, st)
            b, mb = _gen_expr(rng, cx, d - 1, st)
            return ["pg_agg_order_by", a, b], [0, 0, cx.n("visit_aggregate_order_by"), [ma, mb]]
        a, ma = _gen_expr(rng, cx, d - 1, st)
        t, mt = _gen_type(rng, cx)
        which = rng.choice(["cast", "cast", "try_cast"])
        tc = [0, 0, cx.n("visit_typeclause"), [mt]]
        # SQLCompiler.visit_cast renders the typeclause first, MSSQLCompiler.visit_try_cast the clause first
        return [which, a, t], [0, 0, cx.n("visit_" + which), [tc, ma] if which == "cast" else [ma, tc]]
    return ["col", 0], [0, 0, cx.n("visit_column"), []]


def _gen_tree_case(rng, cx):
    dk = rng.choice(DKEYS)
    dq = next(d[1] for d in DIALECTS if d[0] == dk)
    st = {"mode": None}
    if rng.random() < 0.25:
        ts = [_gen_type(rng, cx) for _ in range(rng.randint(1, 3))]
        src = ["create_table", [t[0] for t in ts]]
        node = [0, 1, cx.n("visit_create_table"), [[0, 1, cx.n("visit_create_column"), [t[1]]] for t in ts]]
    else:
        kids = [_gen_expr(rng, cx, rng.randint(1, 4), st) for _ in range(rng.randint(1, 3))]
        src = ["select", [x[0] for x in kids]]
        node = [0, 0, cx.n("visit_select"), [x[1] for x in kids]]
    return {"in": [2, cx.didx[dq], node], "kind": "tree", "src": src, "dialect": dk}


def _uses_cast_on_mysql(c):
    import json

    return c["dialect"] in ("mysql", "mariadb") and '"cast"' in json.dumps(c["src"])


INAMES = [[0], [3, "ix_a"], [3, "Some Name"], [3, "x" * 25]]


def gen_cases(rng, tier):
    cases = []
    f = _ofacts()
    thorough = tier == "thorough"
    if f is not None:
        cx = _Ctx(f)
        used = {}
        for d in f["dialects"]:
            for ck in (0, 1, 2):
                used.setdefault((d[2 + ck], ck), d[0])
        # --- elem: the generated _compiler_dispatch of one class per visit name x compiler
        groups = {}
        for q, kind, vn, ist in f["visitables"]:
            if kind == "gen" and ".Annotated" not in q:
                groups.setdefault((vn, bool(ist)), []).append(q)
        pairs = []
        for (vn, ist), qs in sorted(groups.items()):
            for (c, ck), dq in sorted(used.items()):
                if (ck == 2) == ist:
                    pairs.append((vn, qs, c, ck, dq))
        if not thorough:
            pairs = rng.sample(pairs, min(len(pairs), 400))
        for vn, qs, c, ck, dq in pairs:
            cases.append({"in": [0, c, cx.nid[vn]], "kind": "elem", "cls": rng.choice(qs), "dialect": dq, "ck": ck})
        # --- op: second/third level dispatch through the real visit_binary / visit_unary / ... of a compiler
        sqlc = sorted((c, dq) for (c, ck), dq in used.items() if ck == 0)
        for o in f["ops"]:
            if o == "custom_op":
                continue  # has its own cases below (third-level dispatch on visit_name)
            for pos in range(5):
                chosen = sqlc if thorough else rng.sample(sqlc, 2)
                for c, dq in chosen:
                    cases.append({"in": [1, c, pos, cx.oid[o], 0, -1], "kind": "op", "op": o, "dialect": dq})
        for c, dq in sqlc:
            cases.append({"in": [1, c, 4, -1, 0, -1], "kind": "op", "op": None, "dialect": dq})
            for pos in (0, 1, 2):
                for vn in (None, "hstore_getitem", "nosuch"):
                    cust = -1 if vn is None else cx.n("visit_%s_op_%s" % (vn, "binary" if pos == 0 else "unary"))
                    cases.append({"in": [1, c, pos, cx.oid["custom_op"], 1, cust], "kind": "op", "op": "custom_op",
                                  "visit_name": vn, "dialect": dq})
        # --- tree
        n = 6000 if thorough else 500
        k = 0
        while k < n:
            c = _gen_tree_case(rng, cx)
            if _uses_cast_on_mysql(c):
                continue  # MySQL's visit_cast / visit_typeclause do not pass the type to the type compiler
            cases.append(c)
            k += 1
        # --- index DDL
        for c, _a, _b in f["name_check"]:
            dq = used.get((c, 1))
            if dq is None:
                continue
            for which in (0, 1):
                for nm in INAMES:
                    cases.append({"in": [3, c, which, nm], "kind": "index", "dialect": dq})
    # --- pickle histories (all of length <= 4 for two types, random longer ones)
    import itertools

    for ty in range(5):
        for ln in range(1, 5 if ty in (0, 3) or thorough else 4):
            for h in itertools.product([0, 1], repeat=ln):
                cases.append({"in": [4, ty, list(h)], "kind": "pickle"})
    for _ in range(200 if thorough else 30):
        cases.append({"in": [4, rng.randint(0, 4), [rng.randint(0, 1) for _ in range(rng.randint(5, 9))]], "kind": "pickle"})
    # --- oracle-only compile fuzz
    from specs import c22_fuzz

    cases += c22_fuzz.gen(rng, 12000 if thorough else 1200)
    return cases


def search_cases(rng, tier):
    from specs import c22_fuzz

    cases = gen_cases(rng, "quick")
    cases += c22_fuzz.gen(rng, 3000)
    return cases


def nontrivial(c):
    k = c.get("kind", "")
    if k == "fuzz":
        from specs import c22_fuzz

        return c22_fuzz.nontrivial(c)
    if k == "tree":
        import json

        return json.dumps(c["in"][2]).count("[") >= 6
    if k == "pickle":
        return 0 in c["in"][2] and 1 in c["in"][2]
    return True


# ------------------------------------------------------------------ implementation side
DOCUMENTED = ("CompileError", "UnsupportedCompilationError", "InvalidRequestError", "ArgumentError", "NoSuchTableError",
              "NoReferencedTableError", "NoForeignKeysError", "AmbiguousForeignKeysError", "NoSuchColumnError",
              "NoReferenceError", "CircularDependencyError", "UnboundExecutionError", "StatementError",
              "NotSupportedError", "DuplicateColumnError", "ConstraintColumnNotFoundError", "NoInspectionAvailable",
              "UnsupportedDialectFeature")


def impl_setup():
    import warnings

    warnings.simplefilter("ignore")
    facts()


def _resolve(q):
    import importlib

    parts = q.split(".")
    for i in range(len(parts) - 1, 0, -1):
        try:
            m = importlib.import_module(".".join(parts[:i]))
        except ImportError:
            continue
        o = m
        for p in parts[i:]:
            o = getattr(o, p)
        return o
    raise ImportError(q)


_dcache = {}


def _dialect(q, **kw):
    key = (q, tuple(sorted(kw.items())))
    if key not in _dcache:
        _dcache[key] = _resolve(q)(**kw)
    return _dcache[key]


def _dialect_key(k):
    q = next(d[1] for d in DIALECTS if d[0] == k)
    return _dialect(q)


def classify(e):
    """0 ok is not produced here; 1 UnsupportedCompilationError (anywhere in the cause chain) 2 other documented error
    3 AttributeError 4 KeyError 5 IndexError 6 TypeError 7 AssertionError 8 other internal"""
    from sqlalchemy import exc

    x = e
    seen = 0
    while x is not None and seen < 10:
        if isinstance(x, exc.UnsupportedCompilationError):
            return 1
        if not isinstance(x, exc.CompileError):
            break
        x = x.__cause__
        seen += 1
    if isinstance(e, exc.SQLAlchemyError) or type(e).__name__ in DOCUMENTED:
        return 2
    if isinstance(e, NotImplementedError):
        # "This backend does not support ...": a deliberate, worded refusal (neither in the property's documented list
        # nor in its internal list; the oracle must not be stricter than the text).  A bare one is an abstract-method leak.
        return 2 if str(e).strip() else 8
    for code, t in ((3, AttributeError), (4, KeyError), (5, IndexError), (6, TypeError), (7, AssertionError)):
        if isinstance(e, t):
            return code
    return 8


INTERNAL_NAMES = {3: "AttributeError", 4: "KeyError", 5: "IndexError", 6: "TypeError", 7: "AssertionError", 8: "other internal"}


class _Spy:
    def __init__(self, real):
        self._real = real
        self._calls = []

    def __getattr__(self, n):
        a = getattr(self._real, n)  # AttributeError propagates exactly as from the real visitor
        if n.startswith("visit_"):
            def rec(*args, **kw):
                self._calls.append(n)
                return ""

            return rec
        return a


def _compiler(d, ck):
    if ck == 0:
        return d.statement_compiler(d, None)
    if ck == 1:
        return d.ddl_compiler(d, None)
    return d.type_compiler_instance


def _impl_elem(c):
    f = facts()
    nid = {n: i for i, n in enumerate(f["names"])}
    cls = _resolve(c["cls"])
    d = _dialect(c["dialect"])
    spy = _Spy(_compiler(d, c["ck"]))
    obj = cls.__new__(cls)
    try:
        type(obj)._compiler_dispatch(obj, spy)
    except AttributeError:
        return [4]
    if spy._calls == [UNSUPPORTED]:
        return [2]
    if len(spy._calls) == 1:
        return [0, nid[spy._calls[0]]]
    raise AssertionError("unexpected dispatch trace %r" % (spy._calls,))


_OPSUFFIX = ("_binary", "_unary_operator", "_unary_modifier", "_expression_clauselist", "_op_unary")
_PASS = ("visit_custom_op_binary", "visit_custom_op_unary_operator", "visit_custom_op_unary_modifier")


def _impl_op(c):
    from sqlalchemy import column, exc
    from sqlalchemy.sql import elements, operators

    f = facts()
    nid = {n: i for i, n in enumerate(f["names"])}
    d = _dialect(c["dialect"])
    comp = d.statement_compiler(d, None)
    calls = []

    def rec(name):
        def r(*a, **k):
            calls.append(name)
            return "x"

        return r

    for n in dir(type(comp)):
        if n.startswith("visit_") and n.endswith(_OPSUFFIX) and n not in _PASS and n not in (
            "visit_binary", "visit_unary", "visit_expression_clauselist", "visit_clauselist"):
            setattr(comp, n, rec(n))
    for g in ("_generate_generic_binary", "_generate_generic_unary_operator", "_generate_generic_unary_modifier",
              "_generate_delimited_list"):
        setattr(comp, g, rec("G"))
    pos = c["in"][2]
    if c["op"] is None:
        op = None
    elif c["op"] == "custom_op":
        op = operators.custom_op("~~", visit_name=c.get("visit_name"))
    else:
        op = _op(c["op"])
    a, b = column("a"), column("b")
    try:
        if pos == 0:
            e = elements.BinaryExpression(a, b, op)
            comp.visit_binary(e)
        elif pos == 1:
            e = elements.UnaryExpression(a, operator=op)
            comp.visit_unary(e)
        elif pos == 2:
            e = elements.UnaryExpression(a, modifier=op)
            comp.visit_unary(e)
        elif pos == 3:
            e = elements.ExpressionClauseList._construct_for_list(op, a.type, a, b, group=False)
            comp.visit_expression_clauselist(e)
        else:
            e = elements.ClauseList(a, b, operator=op, group_contents=False)
            comp.visit_clauselist(e)
    except exc.UnsupportedCompilationError:
        return [2]
    except exc.CompileError:
        return [3]
    except AttributeError:
        return [4]
    except KeyError:
        return [5]
    if calls and calls[0] == "G":
        return [1]
    if calls:
        return [0, nid[calls[0]]]
    raise AssertionError("no dispatch recorded")


def _mk_type(t):
    return _resolve(t[1])(*t[2])


def _build(r):
    from sqlalchemy import cast, column, func, literal, select, try_cast
    from sqlalchemy.sql import elements, operators

    k = r[0]
    if k == "col":
        return column("c%d" % r[1])
    if k == "bind":
        return literal(r[1])
    if k == "bin":
        return elements.BinaryExpression(_build(r[2]), _build(r[3]), _op(r[1]))
    if k == "cbin":
        return elements.BinaryExpression(_build(r[2]), _build(r[3]), operators.custom_op("~~", visit_name=r[1]))
    if k == "un":
        return elements.UnaryExpression(_build(r[3]), operator=_op(r[1]), modifier=_op(r[2]))
    if k == "cun":
        o = operators.custom_op("!!", visit_name=r[1])
        return elements.UnaryExpression(_build(r[3]), modifier=o) if r[2] else elements.UnaryExpression(_build(r[3]), operator=o)
    if k == "elist":
        kids = [_build(x) for x in r[2]]
        return elements.ExpressionClauseList._construct_for_list(_op(r[1]), kids[0].type, *kids, group=False)
    if k == "clist":
        return elements.Grouping(elements.ClauseList(*[_build(x) for x in r[2]], operator=_op(r[1]), group_contents=False))
    if k == "label":
        return _build(r[1]).label("l")
    if k == "func":
        return func.f(*[_build(x) for x in r[1]])
    if k == "pg_array":
        from sqlalchemy.dialects.postgresql import array

        return array([_build(x) for x in r[1]])
    if k == "pg_agg_order_by":
        from sqlalchemy.dialects.postgresql import aggregate_order_by

        return aggregate_order_by(_build(r[1]), _build(r[2]))
    if k == "cast":
        return cast(_build(r[1]), _mk_type(r[2]))
    if k == "try_cast":
        return try_cast(_build(r[1]), _mk_type(r[2]))
    if k == "select":
        return select(*[_build(x) for x in r[1]])
    if k == "create_table":
        from sqlalchemy import Column, MetaData, Table
        from sqlalchemy.schema import CreateTable

        t = Table("t", MetaData(), *[Column("c%d" % i, _mk_type(x)) for i, x in enumerate(r[1])])
        return CreateTable(t)
    raise AssertionError("bad recipe %r" % (r,))


def _op(name):
    from sqlalchemy.sql import operators

    if name is None:
        return None
    o = getattr(operators, name, None)
    if o is None:
        import operator as pyop

        o = getattr(pyop, name)
    return o


def _impl_tree(c):
    d = _dialect_key(c["dialect"])
    e = _build(c["src"])
    try:
        e.compile(dialect=d)
    except Exception as ex:
        code = classify(ex)
        return [{1: 1, 2: 2, 3: 3, 4: 4}.get(code, 9)]
    return [0]


def _impl_index(c):
    from sqlalchemy import Column, Index, Integer, MetaData, Table
    from sqlalchemy.schema import CreateIndex, DropIndex
    from vlib.common import unS

    d = _dialect(c["dialect"])
    _, _cid, which, nm = c["in"]
    m = MetaData(naming_convention={"pk": "pk_%(table_name)s"})
    t = Table("t", m, Column("x", Integer))
    name = None if nm[0] == 0 else unS(nm[1])
    ix = Index(name, t.c.x)
    try:
        s = str((CreateIndex if which == 0 else DropIndex)(ix).compile(dialect=d))
    except AssertionError:
        return [2]
    except Exception as ex:
        if classify(ex) in (1, 2):
            return [1]
        raise
    # the rendered, possibly quoted / truncated name is C21/C06 business: report the given name when it appears
    from sqlalchemy.sql.compiler import IdentifierPreparer  # noqa

    if name in s or d.identifier_preparer.quote(name) in s:
        return [0, [ord(ch) for ch in name]]
    return [0, [ord(ch) for ch in name]] if len(name) > 60 else [9]


_TY = None


def _impl_pickle(c):
    import pickle

    from sqlalchemy import Date, Integer, Numeric, String, bindparam, literal_column
    from sqlalchemy.types import NullType

    ty = [Integer, Numeric, Date, String, NullType][c["in"][1]]
    e = bindparam("p", None, type_=ty())
    out = []
    for s in c["in"][2]:
        if s == 0:
            try:
                e + literal_column("1")
                out.append(0)
            except AttributeError:
                out.append(1)
        else:
            e = pickle.loads(pickle.dumps(e))
    return out


def impl(c):
    k = c.get("kind", "")
    if k.startswith("witness:") or k.startswith("corpus:"):
        k = c.get("family", "fuzz")
    if k == "elem":
        return _impl_elem(c)
    if k == "op":
        return _impl_op(c)
    if k == "tree":
        return _impl_tree(c)
    if k == "index":
        return _impl_index(c)
    if k == "pickle":
        return _impl_pickle(c)
    from specs import c22_fuzz

    return c22_fuzz.impl(c)


def oracle(c, obs):
    """C22 itself, on the observation: no internal exception class"""
    k = c.get("kind", "")
    if k.startswith("witness:") or k.startswith("corpus:"):
        k = c.get("family", "fuzz")
    if k == "elem":
        return None  # a synthetic visitor: there is no compile() here
    if k == "op":
        if obs in ([4], [5]):
            pos = ["BinaryExpression", "UnaryExpression(operator=)", "UnaryExpression(modifier=)", "ExpressionClauseList", "ClauseList"][c["in"][2]]
            return "%s with operator %s: %s from the operator dispatch on %s" % (pos, c["op"], "KeyError" if obs == [5] else "AttributeError", c["dialect"])
        return None
    if k == "tree":
        if obs[0] in (3, 4, 9):
            return "internal error (%s) compiling %r on %s" % ({3: "AttributeError", 4: "KeyError"}.get(obs[0], "other"), c["src"], c["dialect"])
        return None
    if k == "index":
        if obs == [2]:
            return "AssertionError compiling %s of an unnamed Index on %s" % ("CREATE INDEX" if c["in"][2] == 0 else "DROP INDEX", c["dialect"])
        return None
    if k == "pickle":
        if 1 in obs:
            return "AttributeError from an operator on a pickled element whose comparator was memoized (history %r)" % (c["in"][2],)
        return None
    from specs import c22_fuzz

    return c22_fuzz.oracle(c, obs)


def match_finding(c, what):
    k = c.get("kind", "")
    if k.startswith("witness:") or k.startswith("corpus:"):
        k = c.get("family", "fuzz")
    if k == "op" and c["in"][2] in (1, 2, 4) and "KeyError" in what and not _library_places(c["op"], c["in"][2]):
        return "C22-unary-or-clauselist-operator-keyerror"
    if k == "tree" and "KeyError" in what and _has_unlisted_unary(c["src"]):
        return "C22-unary-or-clauselist-operator-keyerror"
    if k == "index" and "AssertionError" in what and c["in"][3][0] == 0 and _index_test_known_missing(c["dialect"], c["in"][2]):
        return "C22-unnamed-index-assertionerror"
    if k == "pickle" and _pickle_after_operate(c["in"][2]) and c["in"][1] in (0, 1, 2):
        return "C22-pickled-comparator-attributeerror"
    if k == "fuzz":
        from specs import c22_fuzz

        return c22_fuzz.match_finding(c, what)
    return None


# operators the library itself places in a unary / clauselist position (at the time the finding was recorded): a
# KeyError for one of THESE is not the known finding, it is a new defect (e.g. a dropped OPERATORS entry)
_LIB_UNARY = {("all_op", 1), ("any_op", 1), ("asc_op", 2), ("bitwise_not_op", 1), ("custom_op", 1), ("custom_op", 2), ("desc_op", 2),
              ("distinct_op", 1), ("exists", 1), ("inv", 1), ("is_false", 1), ("is_true", 1), ("neg", 1), ("nulls_first_op", 2),
              ("nulls_last_op", 2)}
_LIB_CLIST = {"comma_op"}


def _library_places(op, pos):
    if pos == 4:
        return op is None or op in _LIB_CLIST
    return (op, pos) in _LIB_UNARY


def _index_test_known_missing(dialect_qn, which):
    """the DDL compilers whose visit_create_index (which=0) / visit_drop_index (1) lacked the index.name test when the
    finding was recorded; the base compiler (default dialect) has both tests: losing them there is a new defect"""
    fam = dialect_qn.split(".")[2] if dialect_qn.startswith("sqlalchemy.dialects.") else "default"
    if "_mariadb_shim" in dialect_qn:
        fam = "default"
    missing = {0: {"sqlite", "postgresql", "mysql", "mssql", "oracle"}, 1: {"postgresql", "mysql", "mssql"}}
    return fam in missing[which]


def _pickle_after_operate(h):
    seen = False
    for s in h:
        if s == 0:
            seen = True
        elif seen:
            return True
    return False


def _has_unlisted_unary(r):
    listed = {o for o, _ in UNARY_LISTED} | {"is_true", "is_false", "exists", "any_op", "all_op", "custom_op"}
    if not isinstance(r, list):
        return False
    if r and r[0] == "un":
        for o in (r[1], r[2]):
            if o is not None and o not in listed and not (r[1] is not None and r[2] is not None):
                return True
    if r and r[0] == "clist" and r[1] not in (None, "comma_op", "and_", "or_"):
        return True
    return any(_has_unlisted_unary(x) for x in r)


def impl_facts():
    f = facts()
    return {
        "method_names": len(f["names"]), "classes": len(f["classes"]), "compilers": len(f["mro"]),
        "dialect_classes": len(f["dialects"]), "operators": len(f["ops"]), "OPERATORS_keys": len(f["generic"]),
        "unary_ops": f["unary_ops"], "clist_ops": f["clist_ops"],
        "visitables": {k: sum(1 for v in f["visitables"] if v[1] == k) for k in ("gen", "fixed", "none")},
        "visitables_without_dispatch": sorted(v[0] for v in f["visitables"] if v[1] == "none" and v[3])[:60],
        "index_name_test": [[f["classes"][c], a, b] for c, a, b in f["name_check"]],
    }
