"""C19 - dependency sorting is a correct topological order; cycles exactly reported."""
import itertools

ID = "C19"
LEVEL = "proof"
PROPS = "props/C19.v"
RUNNER = ("SAV.util.TopoRun", "run_case")
STATIC_MODULES = ["SAV.util.TopoRun"]
RULE = (
    "all digraphs (self-loops included) on 3 nodes x all 6 item orders for sort, one order for "
    "sort_as_subsets and find_cycles (thorough: all 65536 digraphs on 4 nodes); plus random graphs "
    "<= 10 nodes with duplicate pairs, pairs mentioning non-items and item subsets. non-trivial = "
    "graph has >= 1 edge between two distinct items (counted separately: cyclic / acyclic in "
    "distribution)"
)
TRUSTED = [
    "hand-written Gallina transcription of util/topological.py (sort_as_subsets, sort, find_cycles), "
    "pinned to the current normalised source by translate/fingerprint.py and compared behaviourally",
    "Python set iteration order is modelled as an arbitrary order (Section variables ord/starts)",
]
ASSUMPTIONS = ["items are hashable and compared by ==; modelled as N"]
ANCHORS = [
    ("lib/sqlalchemy/util/topological.py", "sort_as_subsets"),
    ("lib/sqlalchemy/util/topological.py", "sort"),
    ("lib/sqlalchemy/util/topological.py", "find_cycles"),
]


def translate(repo, outdir):
    from translate import fingerprint

    fingerprint.check(repo, ANCHORS, "C19")
    return []


def _graphs(n):
    pairs = [(a, b) for a in range(n) for b in range(n)]
    for mask in range(1 << len(pairs)):
        yield [pairs[i] for i in range(len(pairs)) if mask >> i & 1]


def gen_cases(rng, tier):
    cases = []
    if tier == "thorough":
        n = 4
        for g in _graphs(n):
            items = list(range(n))
            rng.shuffle(items)
            cases.append({"in": [0, [list(e) for e in g], items], "kind": "sort4"})
            cases.append({"in": [2, [list(e) for e in g], []], "kind": "cycles4"})
    for g in _graphs(3):
        ge = [list(e) for e in g]
        for items in itertools.permutations(range(3)):
            cases.append({"in": [0, ge, list(items)], "kind": "sort3"})
        cases.append({"in": [1, ge, [0, 1, 2]], "kind": "subsets3"})
        cases.append({"in": [2, ge, []], "kind": "cycles3"})
    nrand = 3000 if tier == "thorough" else 400
    for _ in range(nrand):
        n = rng.randint(1, 10)
        universe = list(range(n + 2))  # two extra nodes that may not be items
        dens = rng.choice([0.05, 0.1, 0.2, 0.4])
        ts = [[a, b] for a in universe for b in universe if rng.random() < dens and (a != b or rng.random() < 0.2)]
        if rng.random() < 0.5:  # prefer acyclic
            ts = [e for e in ts if e[0] < e[1]]
        ts += [rng.choice(ts) for _ in range(rng.randint(0, 3)) if ts]  # duplicates
        rng.shuffle(ts)
        items = rng.sample(universe, rng.randint(0, len(universe)))
        op = rng.choice([0, 0, 1, 2])
        cases.append({"in": [op, ts, items if op != 2 else []], "kind": "random"})
    return cases


def nontrivial(c):
    op, ts, items = c["in"]
    if op == 2:
        return any(a != b for a, b in ts)
    return any(a != b and a in items and b in items for a, b in ts)


# ---------------- implementation side ----------------
def impl(c):
    from sqlalchemy.util import topological
    from sqlalchemy.exc import CircularDependencyError

    op, ts, items = c["in"]
    tuples = [tuple(e) for e in ts]
    try:
        if op == 0:
            return [0, list(topological.sort(tuples, items))]
        if op == 1:
            return [0, [list(s) for s in topological.sort_as_subsets(tuples, items)]]
        return [0, sorted(topological.find_cycles(tuples, items))]
    except CircularDependencyError:
        return [1]
    except RecursionError:
        return [9]


def _reach(ts, nodes):
    adj = {n: set() for n in nodes}
    for a, b in ts:
        if a in adj and b in adj:
            adj[a].add(b)
    reach = {n: set(adj[n]) for n in nodes}
    changed = True
    while changed:
        changed = False
        for n in nodes:
            new = set()
            for m in reach[n]:
                new |= reach[m]
            if not new <= reach[n]:
                reach[n] |= new
                changed = True
    return reach


_SEARCHED = []


def search_cases(rng, tier):
    """search phase only: the ordinary families plus deep dependency chains (depth > the interpreter recursion
    limit), cyclic and acyclic - too slow for the Coq evaluator (the algorithm is cubic on a chain), oracle only"""
    cases = gen_cases(rng, "quick")
    if not _SEARCHED:
        # once per run of the search phase: every digraph on 4 nodes through find_cycles and sort (the thorough tier
        # compares these with the model; here the implementation is judged by the direct oracle only)
        _SEARCHED.append(1)
        for g in _graphs(4):
            ge = [list(e) for e in g]
            cases.append({"in": [2, ge, []], "kind": "cycles4-search", "model": False})
            cases.append({"in": [0, ge, [0, 1, 2, 3]], "kind": "sort4-search", "model": False})
    for _ in range(3000):
        # 5-7 node graphs, denser than the main family, with repeated pairs
        n = rng.randint(5, 7)
        dens = rng.choice([0.15, 0.25, 0.35])
        ts = [[a, b] for a in range(n) for b in range(n) if a != b and rng.random() < dens]
        ts += [rng.choice(ts) for _ in range(rng.randint(0, 3)) if ts]
        rng.shuffle(ts)
        items = list(range(n))
        rng.shuffle(items)
        op = rng.choice([0, 1, 2])
        cases.append({"in": [op, ts, items if op != 2 else []], "kind": "random-dense-search", "model": False})
    for n, cyc in ((1100, True), (1300, False), (1100, True)):
        ts = [[i, i + 1] for i in range(n - 1)] + ([[n - 1, 0]] if cyc else [])
        items = list(range(n))
        rng.shuffle(items)
        cases.append({"in": [0 if len(cases) % 2 else 2, ts, items if len(cases) % 2 else []], "kind": "deep-chain", "model": False})
        cases.append({"in": [0, ts, items], "kind": "deep-chain", "model": False})
    return cases


def oracle(c, obs):
    """direct statement of C19 on the implementation's observation"""
    op, ts, items = c["in"]
    if obs == [9]:
        return "RecursionError (internal error) instead of a sort result / CircularDependencyError on a chain of %d items" % len(ts)
    if op == 2:
        nodes = {x for e in ts for x in e}
        r = _reach(ts, nodes)
        want = sorted(n for n in nodes if n in r[n])
        if obs != [0, want]:
            return "find_cycles returned %s, nodes on cycles are %s" % (obs, want)
        return None
    r = _reach(ts, set(items))
    cyclic = any(n in r[n] for n in items)
    if obs == [1]:
        return None if cyclic else "CircularDependencyError without a cycle among the items"
    if cyclic:
        return "cycle among the items but no CircularDependencyError: %s" % (obs,)
    out = obs[1] if op == 0 else [x for s in obs[1] for x in s]
    if sorted(out) != sorted(items):
        return "output %s is not a permutation of the items %s" % (out, items)
    if len(set(items)) == len(items):
        pos = {x: i for i, x in enumerate(out)}
        if op == 1:
            pos = {x: i for i, s in enumerate(obs[1]) for x in s}
        for a, b in ts:
            if a in pos and b in pos and not pos[a] < pos[b]:
                return "dependency (%s,%s) violated in %s" % (a, b, obs[1])
    return None

LEVEL_TEXT = (
    "Machine-checked proof (Coq) over the Gallina transcription of sort_as_subsets/sort/find_cycles: "
    "permutation, dependency order (flat and per layer), dependence on the pair *set* only, "
    "Circular <-> a cycle among the items, fuel sufficiency, and find_cycles = exactly the nodes on "
    "cycles for every set-iteration order; all for unbounded graphs. The tie to the code is a pinned "
    "normalised source + exhaustive small-scope and random behavioural correspondence."
)
LEVEL_NOTE = (
    "Trusted: Coq kernel; the hand transcription (checked by source pin + correspondence on all "
    "digraphs <= 3 nodes quick / <= 4 nodes thorough); Python set semantics. No axioms "
    "(Print Assumptions: closed under the global context)."
)
TECHNIQUE = "Coq proof by induction over fuel/graph + pigeonhole; source pin; exhaustive small-scope model/impl correspondence"
