"""C11 - row lookup by column expression returns that expression's value."""
import re

ID = "C11"
LEVEL = "proof"
PROPS = "props/C11.v"
RUNNER = ("SAV.sql.ResultMapRun", "run_case")
STATIC_MODULES = ["SAV.sql.ResultMapRun"]
RULE = (
    "case = (label_length, label style, statement form, 3 tables 'a','b','a_b' whose column names/keys are "
    "drawn from a pool built to collide (same names in several tables, names equal to other columns' "
    "table-qualified labels, keys differing from names, names equal to anonymous/dedupe labels such as "
    "id_1, two 40-character names sharing a 30-character prefix), select list of 1..6 items: column / "
    "label / anonymous label / unnamed expression / labelled expression / literal_column / text()). "
    "Forms: plain select, select from subquery, select from CTE, UNION ALL, text().columns() positional, "
    "text().columns() by name (loose matching), plain text without columns (incl. dotted names), "
    "select whose cursor description is longer than its column list (name matching), each under the 3 "
    "label styles and label_length in {default, 10..24}.  Every table cell holds a distinct marker "
    "value.  Compared with the Coq model: compiled._result_columns, the four matching flags, "
    "result.keys(), row._mapping[k] for every string / object key in sight (index, ambiguous, no such "
    "column), and the lookups by the columns of a second, structurally equal statement served from the "
    "compiled cache (_adapt_to_context) - where possible a DIFFERENT statement with the same cache key that selects "
    "the same expression objects in the opposite order.  Small scope: all ordered pairs of a 10-item alphabet x 3 "
    "styles.  Oracle-only family: a column next to unary (-col) and cast wrappers of itself / of its namesakes.  "
    "LABEL_STYLE_NONE selects / unions with same-named columns embedded as subquery, alias, CTE or union-subquery "
    "(the outer row must carry each inner expression's value); a CTE attached to a compound with add_cte (its "
    "columns must not become lookup keys); history: text('select * from ts').columns(<all names>) executed, the "
    "table re-created with another physical column order, executed again through the compiled cache; the "
    "_safe_for_cache flag of every metadata object is compared with the model.  "
    "non-trivial = at least two result columns share a name, a key, a table-qualified label or a "
    "truncated label"
)
TRUSTED = [
    "hand-written Gallina transcription of SelectsRows._generate_columns_plus_names, "
    "SQLCompiler._label_select_column / visit_label / visit_column / visit_textclause (result-map part) / "
    "_add_to_result_map / visit_textual_select, CursorResultMetaData.__init__ / _merge_cursor_description / "
    "_merge_textual_cols_by_position / _merge_cols_by_name / _create_description_match_map / "
    "_merge_cols_by_none / _adapt_to_context, ResultMetaData._make_key_to_index / _key_not_found and "
    "BaseRow._get_by_key_impl, pinned to the normalised source and compared behaviourally on every run",
    "the per-column attributes the compiler reads (_tq_label, _non_anon_label, _anon_name_label, key, "
    "proxy key, hash, class) are read from the implementation's objects and given to the model; name "
    "truncation / anonymous numbering (C21) enters as the observed table compiled.truncated_names; the "
    "theorems hold for every such attribute assignment and every resolve function",
    "Python dict semantics (insertion-ordered association list), object identity = canonical small ints",
]
ASSUMPTIONS = [
    "SQLite only: cursor.description names are taken as delivered (no case folding / normalize_name); "
    "driver_column_names is off; types with column_expression() and unary/cast wrappers are not generated",
    "string keys: a key that occurs once in result.keys() must return that column or raise; a key absent "
    "from result.keys() that is the name/key/label of exactly the columns N must not return a column "
    "outside N and must raise when N has two columns with different values",
]
ANCHORS = [
    ("lib/sqlalchemy/sql/selectable.py", "SelectsRows._generate_columns_plus_names"),
    ("lib/sqlalchemy/sql/selectable.py", "Select._ensure_disambiguated_names"),
    ("lib/sqlalchemy/sql/selectable.py", "CompoundSelect._ensure_disambiguated_names"),
    ("lib/sqlalchemy/sql/compiler.py", "SQLCompiler._label_select_column"),
    ("lib/sqlalchemy/sql/compiler.py", "SQLCompiler._add_to_result_map"),
    ("lib/sqlalchemy/sql/compiler.py", "SQLCompiler.visit_label"),
    ("lib/sqlalchemy/sql/compiler.py", "SQLCompiler.visit_column"),
    ("lib/sqlalchemy/sql/compiler.py", "SQLCompiler.visit_textclause"),
    ("lib/sqlalchemy/sql/compiler.py", "SQLCompiler.visit_textual_select"),
    ("lib/sqlalchemy/sql/compiler.py", "_CompileLabel"),
    ("lib/sqlalchemy/engine/cursor.py", "CursorResultMetaData.__init__"),
    ("lib/sqlalchemy/engine/cursor.py", "CursorResultMetaData._merge_cursor_description"),
    ("lib/sqlalchemy/engine/cursor.py", "CursorResultMetaData._colnames_from_description"),
    ("lib/sqlalchemy/engine/cursor.py", "CursorResultMetaData._merge_textual_cols_by_position"),
    ("lib/sqlalchemy/engine/cursor.py", "CursorResultMetaData._merge_cols_by_name"),
    ("lib/sqlalchemy/engine/cursor.py", "CursorResultMetaData._create_description_match_map"),
    ("lib/sqlalchemy/engine/cursor.py", "CursorResultMetaData._merge_cols_by_none"),
    ("lib/sqlalchemy/engine/cursor.py", "CursorResultMetaData._adapt_to_context"),
    ("lib/sqlalchemy/engine/cursor.py", "CursorResultMetaData._key_fallback"),
    ("lib/sqlalchemy/engine/cursor.py", "CursorResultMetaData._raise_for_ambiguous_column_name"),
    ("lib/sqlalchemy/engine/result.py", "ResultMetaData._make_key_to_index"),
    ("lib/sqlalchemy/engine/result.py", "ResultMetaData._key_not_found"),
    ("lib/sqlalchemy/engine/_row_cy.py", "BaseRow._get_by_key_impl"),
    ("lib/sqlalchemy/engine/_row_cy.py", "BaseRow._get_by_key_impl_mapping"),
]


def translate(repo, outdir):
    from translate import fingerprint

    fingerprint.check(repo, ANCHORS, "C11")
    return []


# ---------------------------------------------------------------- generator
LONG1 = "a_very_long_column_name_that_goes_on_and_on"
LONG2 = "a_very_long_column_name_that_goes_on_and_too"
NAMES = [
    "id", "x", "name", "b_x", "a_id", "b_id", "a_x", "q", "z", "lbl", "anon_1", "id_1", "x_1", LONG1,
    LONG2, "b_z", "a_b_x", "id__1", "_no_label", "b_q", "y", "a_b_id", "x_2", "a_very_l_1",
]
TABLES = ["a", "b", "a_b"]
DOTTED = ["b.id", "a.x", "q.z.id"]          # aliases for plain text only (sqlite _translate_colname)
K_COL, K_LABEL, K_ANONLABEL, K_EXPR, K_LABEL_EXPR, K_LITCOL, K_TEXT, K_LITLABEL, K_UNARY, K_CAST = range(10)
UNMODELLED = (K_UNARY, K_CAST)      # oracle-only: unary / cast wrappers are outside the Coq model
F_SELECT, F_SUBQ, F_CTE, F_UNION, F_TEXTPOS, F_TEXTNAME, F_PLAINTEXT, F_MISMATCH = range(8)
F_UNIONSUBQ, F_ADDCTE, F_TEXTSTAR = 8, 9, 10


def _tables(rng):
    tabs = []
    for ti in range(3):
        n = rng.randint(2, 4)
        pool = rng.sample(range(len(NAMES)), n) if rng.random() < 0.6 else rng.sample([0, 1, 2, 3, 4, 5, 6, 8, 15], n)
        cols = []
        keys_used = set()
        for ni in pool:
            ki = ni
            if rng.random() < 0.25:
                ki = rng.choice([k for k in range(len(NAMES))])
            if ki in keys_used or (ki != ni and ki in pool):
                ki = ni
            if ki in keys_used:
                continue
            keys_used.add(ki)
            cols.append([ni, ki])
        tabs.append(cols)
    return tabs


def _item(rng, tabs, kinds):
    kind = rng.choice(kinds)
    t = rng.randrange(3)
    c = rng.randrange(len(tabs[t]))
    lbl = rng.choice([rng.randrange(len(NAMES)), tabs[rng.randrange(3)][0][0], rng.choice([0, 1, 3, 4, 9, 15])])
    return [kind, t, c, lbl, rng.randint(1, 3)]


def _case(rng, form=None, style=None, ll=None, items=None, tabs=None, kind="random"):
    if tabs is None:
        tabs = _tables(rng)
    if form is None:
        form = rng.choice([F_SELECT] * 6 + [F_SUBQ, F_SUBQ, F_CTE, F_UNION, F_UNION, F_TEXTPOS, F_TEXTPOS,
                                           F_TEXTNAME, F_TEXTNAME, F_PLAINTEXT, F_MISMATCH])
    if style is None:
        style = rng.randrange(3)
    if ll is None:
        ll = rng.choice([0, 0, 0, 10, 12, 16, 20, 24])
    if items is None:
        n = rng.randint(1, 6)
        if form in (F_SELECT, F_UNION, F_MISMATCH):
            kinds = [K_COL] * 5 + [K_LABEL] * 3 + [K_ANONLABEL, K_EXPR, K_EXPR, K_LABEL_EXPR, K_LITCOL, K_LITLABEL]
            if form == F_SELECT:
                kinds += [K_TEXT]
            if form != F_MISMATCH and rng.random() < 0.12:
                kinds += [K_UNARY] * 4 + [K_CAST] * 4
        elif form in (F_SUBQ, F_CTE):
            kinds = [K_COL] * 5 + [K_LABEL] * 3 + [K_ANONLABEL, K_EXPR, K_EXPR, K_LABEL_EXPR]
        else:
            kinds = [K_COL] * 4 + [K_LABEL, K_LITCOL]
        items = [_item(rng, tabs, kinds) for _ in range(n)]
        if rng.random() < 0.35 and len(items) > 1:      # the same expression twice
            items[rng.randrange(len(items))] = list(items[0])
    # extra: [inner style, alias name index per item (textual forms), cte/alias name choice, outer pick]
    aliases = []
    for it in items:
        r = rng.random()
        if r < 0.5:
            aliases.append(tabs[it[1]][it[2]][0])         # the column's own name
        elif r < 0.7:
            aliases.append(it[3])
        else:
            aliases.append(rng.randrange(len(NAMES)))
    dotted = [rng.choice([-1, -1, 0, 1, 2]) for _ in items]
    extra = [rng.choice([1, 2]), aliases, rng.randrange(3), dotted, rng.randrange(2)]
    case = {"in": [[ll, style, form, tabs, items, extra], []], "kind": kind}
    if any(it[0] in UNMODELLED for it in items):
        case["model"] = False
    return case


def gen_cases(rng, tier):
    cases = []
    # small scope: all ordered pairs over a 10-item alphabet on a fixed colliding schema x 3 styles
    tabs = [[[0, 0], [1, 1], [3, 3], [7, 15]], [[0, 0], [1, 1], [8, 8], [4, 4]], [[1, 1], [0, 0]]]
    alpha = [
        [K_COL, 0, 0, 0, 1], [K_COL, 1, 0, 0, 1], [K_COL, 0, 2, 0, 1], [K_COL, 1, 1, 0, 1], [K_COL, 0, 3, 0, 1],
        [K_COL, 1, 2, 0, 1], [K_LABEL, 1, 1, 3, 1], [K_LABEL, 0, 1, 0, 1], [K_EXPR, 0, 0, 0, 1], [K_COL, 2, 0, 0, 1],
    ]
    for st in range(3):
        for i in alpha:
            for j in alpha:
                cases.append(_case(rng, F_SELECT, st, 0, [list(i), list(j)], tabs, "pairs"))
    for st in range(3):
        for i in alpha[:7]:
            for j in alpha[:7]:
                if rng.random() < 0.35:
                    cases.append(_case(rng, rng.choice([F_SUBQ, F_UNION, F_TEXTPOS, F_TEXTNAME]), st, 0,
                                       [list(i), list(j)], tabs, "pairs-forms"))
    # oracle-only small scope: a column next to unary / cast wrappers of itself and of its namesakes
    walpha = [[K_COL, 0, 0, 0, 1], [K_COL, 1, 0, 0, 1], [K_UNARY, 0, 0, 0, 1], [K_UNARY, 1, 0, 0, 1],
              [K_CAST, 0, 0, 0, 1], [K_CAST, 0, 0, 0, 2], [K_CAST, 1, 1, 0, 1], [K_LABEL, 1, 1, 0, 1]]
    for st in range(3):
        for i in walpha:
            for j in walpha:
                if i[0] in UNMODELLED or j[0] in UNMODELLED:
                    cases.append(_case(rng, F_SELECT, st, 0, [list(i), list(j)], tabs, "wrappers"))
        for i in walpha[2:6]:
            cases.append(_case(rng, F_SELECT, st, 0, [walpha[0], walpha[1], list(i)], tabs, "wrappers"))
            cases.append(_case(rng, F_UNION, st, 0, [walpha[1], list(i), walpha[0]], tabs, "wrappers"))
    for st in range(3):
        for frm_ in (F_SUBQ, F_CTE):
            for its in ([walpha[5], walpha[4]], [walpha[0], walpha[4]], [walpha[4], walpha[0]], [walpha[4], walpha[6]]):
                cs = _case(rng, frm_, st, 0, [list(x) for x in its], tabs, "wrappers")
                cs["in"][0][5][0] = 2
                cs["in"][0][5][4] = 0
                cases.append(cs)
    # LABEL_STYLE_NONE members embedded as subquery / CTE / union-subquery: the embedding has to disambiguate
    for st in (0, 2):
        for i in alpha[:6]:
            for j in alpha[:6]:
                if i == j:
                    continue
                for frm_, nc in ((F_SUBQ, 0), (F_CTE, 0), (F_UNIONSUBQ, 0), (F_UNIONSUBQ, 1)):
                    if frm_ != F_UNIONSUBQ and rng.random() < 0.5:
                        continue
                    cs = _case(rng, frm_, st, 0, [list(i), list(j)], tabs, "none-embedded")
                    cs["in"][0][5][0] = 0
                    cs["in"][0][5][2] = nc
                    cs["in"][0][5][4] = 0
                    cases.append(cs)
    # a CTE attached to a compound with add_cte (oracle only: its columns must not become lookup keys)
    for st in range(3):
        for i in alpha[:4]:
            cs = _case(rng, F_ADDCTE, st, 0, [list(i), alpha[3] if i != alpha[3] else alpha[0]], tabs, "add-cte")
            cs["model"] = False
            cases.append(cs)
    # history: text("select * from ts").columns(all names), table re-created with another column order
    for perm in ([2, 0, 1], [1, 0, 2], [0, 2, 1], [2, 1, 0], [0, 1, 2]):
        for ll_ in (0, 12):
            cs = _case(rng, F_TEXTSTAR, 0, ll_, [], [[[0, 0], [1, 1], [7, 7]], [[0, 0]], [[0, 0]]], "text-star-history")
            cs["in"][0][5][1] = perm
            cs["model"] = False
            cases.append(cs)
    # the same expression objects selected in the opposite order by a second statement with the same
    # cache key (expressions that differ only in a bound value)
    for st in range(3):
        for t_, c_ in ((0, 0), (1, 1), (2, 0)):
            e1, e2 = [K_EXPR, t_, c_, 0, 1], [K_EXPR, t_, c_, 0, 2]
            cases.append(_case(rng, F_SELECT, st, 0, [e1, e2], tabs, "swap"))
            cases.append(_case(rng, F_SELECT, st, 0, [e1, [K_COL, 1, 0, 0, 1], e2], tabs, "swap"))
            cases.append(_case(rng, F_SELECT, st, 0, [e1, e2, [K_EXPR, t_, c_, 0, 3]], tabs, "swap"))
    n = 6000 if tier == "thorough" else 1100
    for _ in range(n):
        cases.append(_case(rng))
    return cases


def nontrivial(c):
    g = c["in"][0]
    tabs, items = g[3], g[4]
    seen = {}
    for it in items:
        nmi, ki = tabs[it[1]][it[2]]
        names = {NAMES[nmi], NAMES[ki], TABLES[it[1]] + "_" + NAMES[nmi]}
        if it[0] in (K_LABEL, K_LABEL_EXPR, K_LITLABEL):
            names.add(NAMES[it[3]])
        for n_ in names:
            seen.setdefault(n_, set()).add((it[0], it[1], it[2], it[3]))
    return any(len(v) > 1 for v in seen.values()) or (g[0] and any(len(k) > g[0] - 6 for k in seen))


# ---------------------------------------------------------------- implementation side
_ENG = {}
_ANON = re.compile(r"%\((\d+) ([^()]*)\)s")
_NEST = re.compile(r"(%\(.*\)s)(_?)%\((\d+) \)s")


class _Canon:
    def __init__(self):
        self.atoms = {"anon": 1, "_no_label": 2, "*": 3}
        self.hashes = {}
        self.fresh = {}
        self.objs = []
        self.others = []

    def atom(self, s):
        s = str(s)

        def sub(m):
            h, i = self.num(int(m.group(1)))
            return "%%(%d.%d %s)s" % (h, i, m.group(2))

        s = _ANON.sub(sub, s)
        if s not in self.atoms:
            self.atoms[s] = 10 + len(self.atoms)
        return self.atoms[s]

    def num(self, n):
        if n in self.hashes:
            return self.hashes[n], 0
        if (n >> 16) in self.hashes and 0 < (n & 0xFFFF) < 200:
            return self.hashes[n >> 16], n & 0xFFFF
        if n not in self.fresh:
            self.fresh[n] = 500 + len(self.fresh)
        return self.fresh[n], 0

    def nm(self, s):
        s = str(s)
        m = _ANON.fullmatch(s)
        if m:
            h, i = self.num(int(m.group(1)))
            body = m.group(2)
            if i > 0 and body.endswith("_"):
                body = body[:-1]
            elif i > 0:
                return self.atom(s)
            return [h, i, self.atom(body)]
        m = _NEST.fullmatch(s)
        if m and _ANON.fullmatch(m.group(1)):
            h, i = self.num(int(m.group(3)))
            if (i > 0) == (m.group(2) == "_"):
                return [h, i, self.nm(m.group(1))]
        return self.atom(s)

    def tname(self, s):
        from sqlalchemy.sql.elements import _truncated_label

        if s is None:
            return []
        return [self.nm(s), 1 if isinstance(s, _truncated_label) else 0]

    def obj(self, o, pos=None):
        from sqlalchemy.sql.compiler import _CompileLabel

        if isinstance(o, _CompileLabel):
            return 1000 + pos if pos is not None else 4999
        for i, x in enumerate(self.objs):
            if x is o:
                return i + 1
        for i, x in enumerate(self.others):
            if x is o:
                return 5000 + i
        self.others.append(o)
        return 5000 + len(self.others) - 1

    def key(self, k, pos=None):
        if k is None:
            return []
        if isinstance(k, str):
            return [0, self.nm(k)]
        return [1, self.obj(k, pos)]


def _engine(ll, broken=False):
    from sqlalchemy import create_engine

    if (ll, broken) not in _ENG:
        kw = {"label_length": ll} if ll else {}
        e = _ENG[(ll, broken)] = create_engine("sqlite://", **kw)
        if broken:
            # the dialect flag of SQLite < 3.10 (dotted names in cursor.description are translated)
            e.dialect._broken_dotted_colnames = True
    return _ENG[(ll, broken)]


def _marker(t, c):
    return 100 * (t + 1) + c + 1


def _build(g, tables, sa):
    """returns (statement, [expected marker value per result position] or None, sqltext or None)"""
    ll, style, form, tabs, items, extra = g
    styles = [sa.LABEL_STYLE_NONE, sa.LABEL_STYLE_TABLENAME_PLUS_COL, sa.LABEL_STYLE_DISAMBIGUATE_ONLY]
    inner_style, aliases, namechoice, dotted, pick = extra
    exprs, vals = [], []
    cache = {}
    for it in items:
        kind, t, c, lbl, k = it
        col = list(tables[t].c)[c]
        v = _marker(t, c)
        tkey = tuple(it)
        if tkey in cache and kind != K_TEXT:
            e, v = cache[tkey]          # the same object twice
        elif kind == K_COL:
            e = col
        elif kind == K_LABEL:
            e = col.label(NAMES[lbl])
        elif kind == K_ANONLABEL:
            e = col.label(None)
        elif kind == K_EXPR:
            e, v = col + 1000 * k, v + 1000 * k
        elif kind == K_LABEL_EXPR:
            e, v = (col + 1000 * k).label(NAMES[lbl]), v + 1000 * k
        elif kind == K_LITCOL:
            v = 7000 + 10 * len(exprs) + k
            e = sa.literal_column(str(v))
        elif kind == K_TEXT:
            v = 8000 + 10 * len(exprs) + k
            e = sa.text(str(v))
        elif kind == K_LITLABEL:
            v = 9000 + 10 * len(exprs) + k
            e = sa.literal_column(str(v)).label(NAMES[lbl])
        elif kind == K_UNARY:
            e, v = -col, -v
        elif k % 2:
            e, v = sa.cast(col, sa.Float), float(v)
        else:
            e, v = sa.cast(col, sa.String), str(v)
        cache[tkey] = (e, v)
        exprs.append(e)
        vals.append(v)
    frm = tables[0].join(tables[1], sa.true()).join(tables[2], sa.true())
    if form == F_SELECT:
        return sa.select(*exprs).select_from(frm).set_label_style(styles[style]), vals, None
    if form in (F_SUBQ, F_CTE):
        inner = sa.select(*exprs).select_from(frm).set_label_style(styles[inner_style])
        nm_ = [None, "q", LONG1][namechoice]
        sq = inner.subquery(nm_) if form == F_SUBQ else inner.cte(nm_ or "q")
        cols = list(sq.c)
        if len(cols) != len(vals):
            # the .c collection dropped a duplicate: positions are not comparable by marker
            return sa.select(sq).set_label_style(styles[style]), None, None
        if pick and len(cols) > 1:
            cols, vals = cols[::-1], vals[::-1]
        return sa.select(*cols).set_label_style(styles[style]), vals, None
    if form == F_UNIONSUBQ:
        # a union whose members keep LABEL_STYLE_NONE, embedded as a subquery: subquery() has to
        # disambiguate the names of the first member
        s1 = sa.select(*exprs).select_from(frm).set_label_style(styles[inner_style])
        s2 = sa.select(*exprs).select_from(frm).where(sa.false()).set_label_style(styles[inner_style])
        u = sa.union_all(s1, s2)
        sq = u.alias("u") if namechoice == 1 else u.subquery()
        cols = list(sq.c)
        if len(cols) != len(vals):
            return sa.select(sq).set_label_style(styles[style]), None, None
        return sa.select(*cols).set_label_style(styles[style]), vals, None
    if form == F_ADDCTE:
        # a CTE that is only attached to the compound, with a column named like the compound's first column
        s1 = sa.select(*exprs).select_from(frm).set_label_style(styles[style])
        s2 = sa.select(*exprs).select_from(frm).where(sa.false()).set_label_style(styles[style])
        nm0 = getattr(list(s1.selected_columns)[0], "name", "zz")
        ct = sa.select(list(tables[2].c)[0].label(str(nm0)), list(tables[2].c)[1].label("ct_other")).cte("ct")
        return sa.union_all(s1, s2).add_cte(ct), vals, None
    if form == F_UNION:
        s1 = sa.select(*exprs).select_from(frm).set_label_style(styles[style])
        s2 = sa.select(*exprs).select_from(frm).where(sa.false()).set_label_style(styles[style])
        return sa.union_all(s1, s2), vals, None
    if form == F_MISMATCH:
        v1, v2 = 6001, 6002
        extra_col = sa.literal_column("%d AS %s, %d AS %s" % (v1, NAMES[aliases[0]], v2, "zz"))
        st = sa.select(*exprs, extra_col).select_from(frm).set_label_style(styles[style])
        return st, vals + [v1, v2], None
    # textual forms: SELECT "t"."c" AS "alias", ...
    parts = []
    for i, it in enumerate(items):
        kind, t, c, lbl, k = it
        alias = NAMES[aliases[i]]
        if form == F_PLAINTEXT and dotted[i] >= 0:
            alias = DOTTED[dotted[i]]
        if kind == K_LITCOL:
            parts.append('%d AS "%s"' % (vals[i], alias))
        else:
            parts.append('"%s"."%s" AS "%s"' % (TABLES[t], NAMES[tabs[t][c][0]], alias))
    sql = "SELECT %s FROM a, b, a_b" % ", ".join(parts)
    if form == F_PLAINTEXT:
        return sa.text(sql), vals, sql
    colargs = []
    for i, it in enumerate(items):
        kind, t, c, lbl, k = it
        if kind == K_LITCOL:
            colargs.append(sa.column(NAMES[lbl]))
        else:
            colargs.append(exprs[i])
    if form == F_TEXTPOS:
        return sa.text(sql).columns(*colargs), vals, sql
    return sa.text(sql).columns(*colargs, zz=sa.Integer), vals, sql


def _cls(c, sa):
    from sqlalchemy.sql import elements

    if isinstance(c, elements.Label):
        return 0
    if isinstance(c, elements.ColumnClause):
        return 1
    if isinstance(c, elements.TextClause):
        return 2
    if not isinstance(c, elements.NamedColumn) and c._non_anon_label is None and not isinstance(
        c, (elements.UnaryExpression, elements.WrapsColumnExpression)
    ):
        return 3
    return None


def _impl_textstar(g, sa, exc):
    """history: the SAME text("select * from ts").columns(<all names>) statement is executed, the table is
    re-created with another physical column order, and the statement is executed again (compiled cache)"""
    ll, style, form, tabs, items, extra = g
    eng = _engine(ll)
    eng.clear_compiled_cache()
    names = [NAMES[n] for n, _ in tabs[0]]
    perm = extra[1][: len(names)]
    order2 = sorted(range(len(names)), key=lambda i: (perm[i] if i < len(perm) else 0, i))
    marks = {nm: 100 + i for i, nm in enumerate(names)}
    stmt = sa.text("select * from ts").columns(**{nm: sa.Integer for nm in names})
    hist = []
    with eng.connect() as conn:
        try:
            for rnd, order in enumerate((list(range(len(names))), order2)):
                conn.exec_driver_sql("DROP TABLE IF EXISTS ts")
                conn.exec_driver_sql("CREATE TABLE ts (%s)" % ", ".join('"%s" INTEGER' % names[i] for i in order))
                conn.exec_driver_sql("INSERT INTO ts VALUES (%s)" % ", ".join(str(marks[names[i]]) for i in order))
                r = conn.execute(stmt)
                keys = [str(k) for k in r.keys()]
                row = r.first()
                step = {"order": [names[i] for i in order], "keys": keys, "row": list(row._data), "looks": []}
                for nm in names:
                    for k in (nm, stmt.selected_columns[nm]):
                        try:
                            step["looks"].append([nm, 0 if isinstance(k, str) else 1, 0, row._mapping[k]])
                        except exc.NoSuchColumnError:
                            step["looks"].append([nm, 0 if isinstance(k, str) else 1, -2, None])
                        except exc.InvalidRequestError:
                            step["looks"].append([nm, 0 if isinstance(k, str) else 1, -1, None])
                hist.append(step)
        finally:
            conn.exec_driver_sql("DROP TABLE IF EXISTS ts")
            conn.commit()
    return {"skip": None, "hist": hist, "marks": marks}


def impl(case):
    import warnings

    import sqlalchemy as sa
    from sqlalchemy import exc
    from sqlalchemy.engine.default import DefaultExecutionContext  # noqa

    warnings.simplefilter("ignore")
    g = case["in"][0]
    ll, style, form, tabs, items, extra = g
    if form == F_TEXTSTAR:
        return _impl_textstar(g, sa, exc)
    broken = form == F_PLAINTEXT and extra[4] == 1
    eng = _engine(ll, broken)
    eng.clear_compiled_cache()      # every case starts with its own first execution
    md = sa.MetaData()
    tables = []
    for ti, cols in enumerate(tabs):
        tables.append(sa.Table(TABLES[ti], md, *[sa.Column(NAMES[n], sa.Integer, key=NAMES[k]) for n, k in cols]))
    out = {"skip": None}
    with eng.connect() as conn:
        md.create_all(conn)
        try:
            for ti, t in enumerate(tables):
                conn.execute(t.insert().values({c.key: _marker(ti, ci) for ci, c in enumerate(t.c)}))
            try:
                stmt, vals, sql = _build(g, tables, sa)
                stmt2, _, _ = _build(g, tables, sa)
            except (exc.ArgumentError, exc.InvalidRequestError, exc.CompileError) as e:
                return {"skip": "construct: %s" % type(e).__name__}
            cn = _Canon()
            sel = list(stmt._all_selected_columns) if form != F_PLAINTEXT else []
            for o in sel:
                if not any(o is x for x in cn.objs):
                    cn.objs.append(o)
            for o in sel:
                h = hash(o)
                if h not in cn.hashes:
                    cn.hashes[h] = len(cn.hashes) + 1
            try:
                r = conn.execute(stmt)
            except exc.InvalidRequestError as e:
                if "Duplicate column expression requested in textual SQL" in str(e):
                    r = None
                else:
                    return {"skip": "execute: %s" % str(e)[:80]}
            except (exc.CompileError, exc.OperationalError) as e:
                return {"skip": "execute: %s %s" % (type(e).__name__, str(e)[:80])}
            # ---- model input: descriptors
            first = stmt
            while hasattr(first, "selects"):
                first = first.selects[0]
            cpn = None
            if form not in (F_TEXTPOS, F_TEXTNAME, F_PLAINTEXT):
                cpn = first._generate_columns_plus_names(True)
            descs = []
            modelled = True
            for i, c in enumerate(sel):
                cls = _cls(c, sa)
                if cls is None:
                    if case.get("model", True):
                        return {"skip": "unsupported class %s" % type(c).__name__}
                    modelled = False
                    break
                descs.append([
                    cn.obj(c), cn.hashes[hash(c)], cls, 1 if getattr(c, "is_literal", False) else 0,
                    1 if getattr(c, "table", None) is not None else 0,
                    1 if c._render_label_in_columns_clause else 0,
                    cn.tname(getattr(c, "name", None)), cn.key(getattr(c, "key", None)),
                    cn.tname(getattr(c, "_tq_label", None)), cn.tname(getattr(c, "_non_anon_label", None)),
                    cn.nm(getattr(c, "_anon_name_label", "")), cn.nm(getattr(c, "_anon_tq_label", "")),
                    [] if getattr(c, "_expression_label", None) is None else [cn.nm(c._expression_label)],
                    cn.key(cpn[i][1]) if cpn is not None else [],
                ])
            mform = {F_TEXTPOS: 1, F_TEXTNAME: 2, F_PLAINTEXT: 3}.get(form, 0)
            if r is None:
                # the metadata constructor raised: recompile to observe the result columns
                comp = stmt.compile(eng)
                rcs_impl, struct = comp._result_columns, (
                    comp._ordered_columns, comp._textual_ordered_columns, comp._ad_hoc_textual,
                    comp._loose_column_name_matching)
                cur = conn.connection.dbapi_connection.cursor()
                cur.execute(comp.string, [comp.params[k] for k in (comp.positiontup or [])])
                description = [[d[0]] for d in cur.description]
                cur.close()
            else:
                comp = r.context.compiled
                rcs_impl = comp._result_columns
                struct = r.context.result_column_struct[1:5]
                description = [[d[0]] for d in r.cursor.description]
            resolve = [[cn.nm(k[1]), cn.nm(v)] for k, v in comp.truncated_names.items() if k[0] == "colident"]
            desc_in = []
            for (nme,) in description:
                if broken and "." in nme:
                    desc_in.append([cn.key(nme.split(".")[-1]), cn.key(nme)])
                else:
                    desc_in.append([cn.key(nme), []])
            rcs_out = [
                [cn.key(e.keyname), cn.key(e.name), [cn.key(o, i) for o in e.objects]] for i, e in enumerate(rcs_impl)
            ]
            flags = [1 if x else 0 for x in struct]
            if r is None:
                if modelled:
                    out["mi"] = [mform, style, descs, resolve, desc_in, 1, [], []]
                    out["mo"] = [rcs_out, flags, [1]]
                out["orc"] = None
                return out
            meta = r._metadata
            keys_out = [cn.key(k) for k in meta._keys]
            row = r.first()
            if row is None:
                return {"skip": "no row"}
            # ---- probes
            probes = []
            strs = []
            for e in rcs_impl:
                for s in (e.keyname, e.name) + tuple(e.objects):
                    if isinstance(s, str):
                        strs.append(str(s))
            for (nme,) in description:
                strs += [nme, nme.split(".")[-1]]
            for it in items:
                nmi, ki = tabs[it[1]][it[2]]
                strs += [NAMES[nmi], NAMES[ki], TABLES[it[1]] + "_" + NAMES[nmi], NAMES[it[3]]]
            seen = set()
            for s in strs:
                if s not in seen:
                    seen.add(s)
                    probes.append(s)
            oprobes = list(cn.objs)
            for c in sel:
                el = getattr(c, "element", None)
                if el is not None and not any(el is x for x in oprobes):
                    oprobes.append(el)
                for p_ in getattr(c, "_proxies", [])[:1]:
                    if not any(p_ is x for x in oprobes):
                        oprobes.append(p_)

            def look(rw, k):
                try:
                    v = rw._mapping[k]
                except exc.NoSuchColumnError:
                    return -2, None
                except exc.InvalidRequestError as e:
                    if "Ambiguous column name" in str(e):
                        return -1, None
                    raise
                idx = rw._key_to_index[k]
                if rw._data[idx] != v:
                    raise AssertionError("row._mapping[k] is not row[_key_to_index[k]]")
                return idx, v

            allp = probes + oprobes
            looks = [look(row, k) for k in allp]
            # ---- second, structurally equal statement through the cache
            news, looks2, sel2, vals2 = [], [], [], vals
            if form != F_PLAINTEXT:
                from sqlalchemy.engine.interfaces import CacheStats

                # prefer a DIFFERENT statement with the same cache key: the same expression objects in the
                # opposite order (possible when the expressions differ in bound values only)
                if form == F_SELECT and len(sel) >= 2 and all(it[0] != K_TEXT for it in items):
                    styles_ = [sa.LABEL_STYLE_NONE, sa.LABEL_STYLE_TABLENAME_PLUS_COL, sa.LABEL_STYLE_DISAMBIGUATE_ONLY]
                    frm_ = tables[0].join(tables[1], sa.true()).join(tables[2], sa.true())
                    sw = sa.select(*sel[::-1]).select_from(frm_).set_label_style(styles_[style])
                    if any(x is not y for x, y in zip(sel, sel[::-1])) and (
                        sw._generate_cache_key() == stmt._generate_cache_key()
                    ):
                        stmt2, vals2 = sw, (vals[::-1] if vals is not None else None)
                r2 = conn.execute(stmt2)

                if r2.context.cache_hit is CacheStats.CACHE_HIT:
                    sel2 = list(stmt2._all_selected_columns)
                    row2 = r2.first()
                    looks2 = [look(row2, k) for k in sel2]
                    news = [cn.key(k) for k in sel2]
                else:
                    r2.close()
            if modelled:
                out["mi"] = [mform, style, descs, resolve, desc_in, 1, [cn.key(k) for k in allp], news]
                out["mo"] = [rcs_out, flags, [0, 1 if meta._safe_for_cache else 0, keys_out,
                                              [l[0] for l in looks], [l[0] for l in looks2]]]
            # ---- oracle data: everything the property statement needs, nothing of the model
            objinfo, loose = [], []
            tq_style = style == 1 and form not in (F_TEXTPOS, F_TEXTNAME, F_PLAINTEXT)
            for i, c in enumerate(sel):
                sec = set()
                # the names the statement gives the column: <table>_<col> under
                # LABEL_STYLE_TABLENAME_PLUS_COL, else name / key; a label's name always
                attrs = ("name", "key")
                if tq_style and _cls(c, sa) == 1 and getattr(c, "table", None) is not None:
                    attrs = ("_tq_label", "_tq_key_label")
                for a_ in attrs:
                    s_ = getattr(c, a_, None)
                    if isinstance(s_, str) and not s_.startswith("%(") and "%(" not in s_:
                        sec.add(str(s_))
                objinfo.append(sorted(sec))
                tq_ = getattr(c, "_tq_label", None)
                loose.append(sorted(sec | ({str(tq_)} if isinstance(tq_, str) else set())))
            n_ctx = len(rcs_impl)
            ordered, textual_ordered, adhoc, _loose = [bool(x) for x in struct]
            dnames = [d[0] for d in description]
            if n_ctx and ordered and not textual_ordered and n_ctx == len(dnames):
                mode, lkeys = "positional", [str(e.name) for e in rcs_impl]
            elif textual_ordered or (adhoc and len(dnames) == n_ctx):
                mode, lkeys = "textual", dnames
            elif n_ctx:
                mode, lkeys = "byname", dnames
            else:
                mode, lkeys = "none", dnames
            absent = []
            if form == F_ADDCTE:
                for ct_ in getattr(stmt, "_independent_ctes", ()):
                    for col_ in ct_.element.selected_columns:
                        absent.append([str(col_.name)] + list(look(row, col_)))
            out["orc"] = {
                "form": form,
                "absent": absent,
                "mode": mode,
                # the duplicate detection of CursorResultMetaData.__init__ only runs when the number of
                # distinct primary names differs from the number of compiled columns or (since 0c26c9c)
                # from the number of merged records
                "gap": n_ctx == 0 or (len(set(lkeys)) == n_ctx and len(set(lkeys)) == len(lkeys)),
                "dnames": dnames,
                "loose": loose,
                "vals": vals,
                "rowvals": [x for x in row._data],
                "keys": [str(k) for k in meta._keys],
                # the positions an expression object addresses: where it (or an equal expression) is
                # selected, and where an unlabelled unary operator over it is selected (SQLAlchemy lets
                # -col / DISTINCT col be addressed by col)
                "same": [[j for j, y in enumerate(sel) if _addresses(x, y)] for x in sel],
                "same2": [[j for j, y in enumerate(sel2) if _addresses(x, y)] for x in sel2],
                "vals2": vals2,
                "rowvals2": [x for x in row2._data] if sel2 else [],
                # position whose rendered name was generated at compile time (anonymous / truncated label)
                "generated": [str(e.keyname) != str(e.name) for e in rcs_impl],
                "byobj": [list(looks[len(probes) + next(j for j, x in enumerate(oprobes) if x is c)]) for c in sel],
                "byobj2": [list(l) for l in looks2],
                "bystr": [[s, list(l)] for s, l in zip(probes, looks[: len(probes)])],
                "sec": objinfo,
                "sql": str(stmt)[:400],
            }
            return out
        finally:
            conn.rollback()
            md.drop_all(conn)
            conn.commit()


def _addresses(x, y):
    from sqlalchemy.sql import elements

    if y is x or hash(y) == hash(x):
        return True
    if isinstance(y, elements.UnaryExpression) and not y._wraps_unnamed_column():
        el = y.element
        while isinstance(el, (elements.UnaryExpression, elements.Grouping)):
            el = el.element
        return el is x or hash(el) == hash(x)
    return False


def model_pair(c, obs):
    if obs.get("skip") or "mi" not in obs:
        return [c["in"][0], [9]], [-998]
    return [c["in"][0], obs["mi"]], obs["mo"]


def oracle(c, obs):
    """C11 stated directly on what the implementation returned (markers are distinct per expression): every
    way of addressing a column - Column / label / expression object, string name, key - returns the value at
    the position the statement's own column list assigns to that address, or raises when the address is
    ambiguous or absent.  Nothing here looks at the keymap."""
    if obs is not None and obs.get("hist"):
        # every execution of the statement: a column addressed by its name / by the statement's column object
        # delivers the value that column has in the row the database returned for THIS execution
        for rnd, step in enumerate(obs["hist"]):
            for nm, isobj, code, v in step["looks"]:
                want = obs["marks"][nm]
                if code == 0 and v != want:
                    return "execution %d of text('select * from ts').columns(...) (table columns in the order %s): lookup by %s %r returned %r, that column holds %r" % (
                        rnd + 1, step["order"], "column object" if isobj else "name", nm, v, want)
                if code != 0:
                    return "execution %d of text('select * from ts').columns(...): lookup by %s %r raised" % (
                        rnd + 1, "column object" if isobj else "name", nm)
        return None
    if obs is None or obs.get("skip") or not obs.get("orc"):
        return None
    o = obs["orc"]
    vals, rowvals = o["vals"], o["rowvals"]
    form = o["form"]
    if (form in (F_SUBQ, F_CTE, F_UNIONSUBQ) and vals is not None and len(vals) == len(rowvals)
            and list(vals) != list(rowvals)
            and (any(it[0] == K_CAST for it in c["in"][0][4]) or c["in"][0][5][0] == 0)):
        # (only for cast wrappers: a user column literally called like a generated anonymous label, e.g.
        # "anon_1", makes the inner select ambiguous in SQL itself - not a lookup matter)
        # the column of the subquery stands for one inner expression: the outer row must carry that
        # expression's value at the column's position
        i = next(j for j in range(len(vals)) if vals[j] != rowvals[j])
        return "column %d of the select over the subquery carries %r, the inner expression it stands for has the value %r [subquery-proxy]" % (
            i, rowvals[i], vals[i])
    if vals is None or len(vals) != len(rowvals) or list(vals) != list(rowvals):
        return None        # the statement's positions are not comparable with the generator's markers
    n = len(vals)
    tag = " [mode=%s%s]" % (o["mode"], " dupes-check-skipped" if o["gap"] else "")
    gen = o.get("generated") or []
    viol = []
    second = (" (second statement, compiled cache)", o["byobj2"], o.get("vals2"), o.get("same2") or [])
    if second[2] is None or list(second[2]) != list(o.get("rowvals2") or []):
        second = None
    for part in ((("", o["byobj"], vals, o["same"])), second):
        if part is None:
            continue
        where, looks, pv, same = part
        for i, (idx, v) in enumerate(looks):
            if form == F_TEXTNAME:
                # matching by name: the object stands for the SQL column(s) carrying one of its names
                if idx >= 0:
                    allowed = [vals[j] for j in range(n) if o["dnames"][j] in o["loose"][i]]
                    if v not in allowed:
                        viol.append("lookup by the column object %d%s returned %r, the value of a column none of whose names it has%s" % (i, where, v, tag))
                continue
            if i >= len(pv) or i >= len(same):
                break
            if idx >= 0:
                if v != pv[i]:
                    viol.append("lookup by the column object at position %d%s returned %r, the value of that expression is %r%s" % (
                        i, where, v, pv[i], tag))
            elif idx == -1:
                if len(same[i]) < 2 and o["mode"] == "positional":
                    viol.append("lookup by the column object at position %d%s raised 'ambiguous' but the expression is selected once%s" % (i, where, tag))
            elif o["mode"] in ("positional", "textual") and len(same[i]) < 2:
                viol.append("lookup by the column object at position %d%s raised NoSuchColumnError%s" % (i, where, tag))
    for nm_, idx, v in o.get("absent") or []:
        if idx >= 0:
            viol.append("lookup by an expression that the statement does not select (column %r of a CTE attached with add_cte) returned %r [absent]" % (nm_, v))
    keys = o["keys"]
    for s, (idx, v) in o["bystr"]:
        pos = [i for i, k in enumerate(keys) if k == s]
        g_ = " generated-name" if any(i < len(gen) and gen[i] for i in pos) else ""
        if len(pos) == 1:
            if idx >= 0 and v != vals[pos[0]]:
                viol.append("string key %r names result column %d only, lookup returned %r instead of %r%s%s" % (s, pos[0], v, vals[pos[0]], g_, tag))
        elif len(pos) >= 2:
            if idx >= 0 and len({vals[i] for i in pos}) > 1:
                viol.append("string key %r names result columns %s, lookup returned %r instead of raising%s%s" % (s, pos, v, g_, tag))
        elif idx >= 0 and n == len(o["sec"]):
            N = [i for i in range(n) if s in o["sec"][i]]
            if N:
                if v not in [vals[i] for i in N]:
                    viol.append("string key %r is the name/key of result column(s) %s only, lookup returned %r (column %d)%s" % (s, N, v, idx, tag))
                elif len({vals[i] for i in N}) > 1:
                    viol.append("string key %r is the name/key of result columns %s, lookup returned %r instead of raising%s" % (s, N, v, tag))
    for v_ in viol:
        if match_finding(c, v_) is None:
            return v_             # a violation that no known finding explains comes first
    return viol[0] if viol else None


def _natural_name(g, it):
    """the name an item contributes to the de-duplication of _generate_columns_plus_names"""
    tabs = g[3]
    if it[0] in (K_LABEL, K_LABEL_EXPR, K_LITLABEL):
        return NAMES[it[3]]
    if it[0] in (K_COL, K_CAST):
        return NAMES[tabs[it[1]][it[2]][0]]
    return None


def match_finding(c, what):
    g = c["in"][0]
    if what.endswith("[absent]"):
        return "C11-compound-add-cte-leaks-result-columns" if g[2] == F_ADDCTE else None
    if what.endswith("[subquery-proxy]") and g[2] == F_CTE and g[5][0] == 0:
        # cte() does not call _ensure_disambiguated_names(): same-named columns of a LABEL_STYLE_NONE select
        return "C11-cte-skips-disambiguation"
    if what.endswith("[subquery-proxy]"):
        # the proxy of a wrapper (cast) that was given a dedupe label is named like the wrapped column
        items = g[4]
        names_ = [_natural_name(g, it) for it in items]
        if any(it[0] == K_CAST and names_.index(names_[j]) < j for j, it in enumerate(items)):
            return "C11-subquery-proxy-of-deduped-wrapper"
        return None
    m = re.match(r"lookup by the column object at position (\d+)(?: \(second statement, compiled cache\))? raised NoSuchColumnError", what)
    if m:
        # a cast placed after a different expression of the same natural name is taken for a repeat
        i, items, style = int(m.group(1)), g[4], g[1]
        if style == 2 and g[2] in (F_SELECT, F_UNION) and i < len(items) and items[i][0] == K_CAST:
            nm_ = _natural_name(g, items[i])
            if any(list(items[j]) != list(items[i]) and _natural_name(g, items[j]) == nm_ for j in range(i)):
                return "C11-wrapped-column-taken-for-repeat"
        return None
    if "dupes-check-skipped]" not in what:
        return None
    m = re.match(r"lookup by the column object at position (\d+)(?: \(second statement, compiled cache\))? returned (-?\d+), "
                 r"the value of that expression is (-?\d+) \[mode=positional dupes-check-skipped\]", what)
    if m:
        # the scan did not run and an unlabelled unary operator over the same column is selected as well:
        # the Column object is a key of both records, the later one wins
        i, got, own = int(m.group(1)), int(m.group(2)), int(m.group(3))
        items = g[4]
        if g[2] in (F_SELECT, F_UNION) and i < len(items) and items[i][0] == K_COL and got == -own and any(
            it[0] == K_UNARY and it[1:3] == items[i][1:3] for it in items
        ):
            return "C11-unary-shares-column-object"
        return None
    if "[mode=positional " in what:
        # with positional matching only STRING keys are affected (c11_lookup_by_object covers every object
        # that a single column carries, on either path), and a rendered name that is unique in keys() and
        # was written by the user (not generated at compile time) always wins
        if what.startswith("string key") and ("is the name/key of" in what or " generated-name" in what):
            return "C11-dupes-check-skipped-positional"
        return None
    if "[mode=none " in what:
        return "C11-plain-text-duplicate-names"
    # name matching / textual positional with pairwise distinct cursor names: the remaining part of the
    # positional finding (keys shared through secondary names only).  A repeated cursor name is detected
    # since 0c26c9c (finding C11-dupes-check-skipped-count-heuristic, fixed): such a case carries no
    # "dupes-check-skipped" tag and is reported as a violation
    return "C11-dupes-check-skipped-positional"


LEVEL_TEXT = (
    "Machine-checked proof (Coq) over the Gallina transcription of the result-map pipeline: "
    "_generate_columns_plus_names + _label_select_column + visit_label/visit_column (one result-map entry "
    "per selected column, carrying the column object unless it is a repeat of an earlier equal column), "
    "the three merge modes, the keymap/dupes construction, _key_to_index/_key_not_found and "
    "_adapt_to_context, for all column lists, attribute assignments, name collisions and every "
    "truncation function (any label_length)."
)
LEVEL_NOTE = (
    "Trusted: Coq kernel; the hand transcription (source pin + behavioural correspondence on every run); "
    "the per-column attribute values and the truncation table are read from the implementation. No axioms."
)
TECHNIQUE = "Coq proof (dict/fold invariants, induction over the column list); source pin; model/impl correspondence on SQLite with marker values"
