"""C33 - Session commit/rollback/savepoint keep the session consistent with the database."""
import itertools

ID = "C33"
LEVEL = "proof"
PROPS = "props/C33.v"
RUNNER = ("SAV.orm.SessTxnRun", "run_case")
STATIC_MODULES = ["SAV.orm.SessTxnRun"]
RULE = (
    "histories over {new(pk,v)+add, add(o), o.v=x, o.id=pk, delete(o), flush, begin_nested, Session.commit, "
    "Session.rollback, handle.commit, handle.rollback (every begin_nested handle created so far, live or "
    "not), Session.close, read o.v} with expire_on_commit on and off, on a declaratively mapped class "
    "T(id primary key, v) over a SQLite file (sqlite3 autocommit=False): all histories of length <= 2 "
    "over a 15-symbol alphabet, a seeded sample of the length-3/4 ones (thorough: all of length 3), "
    "savepoint-centred exhaustive families (prefix new+flush(+begin_nested), then all 2-3 op tails), "
    "random histories <= 14 ops (thorough <= 30) from a uniform and a savepoint/key-switch biased "
    "generator. Observed after EVERY operation: exception class; for every object lifecycle state, "
    "identity key, state.dict['id'], state.dict['v'] (read without triggering loads), modified, "
    "membership in session.deleted, expired; in_transaction/in_nested_transaction, is_active of every "
    "handle; rows visible to a second connection; rows visible on the session's own DBAPI connection. "
    "Histories leaving the modelled region (row switch, re-attaching detached objects, two flushed "
    "objects with one identity key, exception inside _restore_snapshot) are not generated. "
    "non-trivial = a savepoint is opened, a flush with work happens inside it and a commit/rollback ends it"
)
TRUSTED = [
    "hand-written Gallina transcription (coq/orm/SessTxn.v) of SessionTransaction/Session transaction "
    "control, snapshot bookkeeping, the unit-of-work statement list for one mapped class and attribute "
    "expiry/refresh, pinned to the normalised source and compared behaviourally after every operation",
    "the declare_states table is regenerated from the source on every run and must equal the table the "
    "model uses (Gen_C33.gen_states_ok)",
    "snapshot-stack database semantics: the COMMIT/ROLLBACK/SAVEPOINT/RELEASE/ROLLBACK TO steps of SessTxn.v "
    "are the exec_cmd of engine/RefDb.v over Z->option Z tables (ROLLBACK TO is followed by the forgetting of "
    "the savepoint, which the session never names again); RefDb is validated against sqlite3 by C23",
]
ASSUMPTIONS = [
    "one mapped class without relationships, integer primary key supplied by the application, one bind; "
    "COMMIT/ROLLBACK/SAVEPOINT never fail at the database; the only statement failures are primary-key "
    "collisions (IntegrityError) and UPDATEs matching no row (StaleDataError); no two-phase, no events, "
    "no garbage collection of mapped objects (the harness keeps them alive); single thread",
]
ANCHORS = [
    ("lib/sqlalchemy/orm/session.py", "SessionTransactionState"),
    ("lib/sqlalchemy/orm/session.py", "SessionTransaction.__init__"),
    ("lib/sqlalchemy/orm/session.py", "SessionTransaction._raise_for_prerequisite_state"),
    ("lib/sqlalchemy/orm/session.py", "SessionTransaction._is_transaction_boundary"),
    ("lib/sqlalchemy/orm/session.py", "SessionTransaction._begin"),
    ("lib/sqlalchemy/orm/session.py", "SessionTransaction._iterate_self_and_parents"),
    ("lib/sqlalchemy/orm/session.py", "SessionTransaction._take_snapshot"),
    ("lib/sqlalchemy/orm/session.py", "SessionTransaction._restore_snapshot"),
    ("lib/sqlalchemy/orm/session.py", "SessionTransaction._remove_snapshot"),
    ("lib/sqlalchemy/orm/session.py", "SessionTransaction._connection_for_bind"),
    ("lib/sqlalchemy/orm/session.py", "SessionTransaction._prepare_impl"),
    ("lib/sqlalchemy/orm/session.py", "SessionTransaction.commit"),
    ("lib/sqlalchemy/orm/session.py", "SessionTransaction.rollback"),
    ("lib/sqlalchemy/orm/session.py", "SessionTransaction.close"),
    ("lib/sqlalchemy/orm/session.py", "Session._autobegin_t"),
    ("lib/sqlalchemy/orm/session.py", "Session.begin"),
    ("lib/sqlalchemy/orm/session.py", "Session.begin_nested"),
    ("lib/sqlalchemy/orm/session.py", "Session.rollback"),
    ("lib/sqlalchemy/orm/session.py", "Session.commit"),
    ("lib/sqlalchemy/orm/session.py", "Session._close_impl"),
    ("lib/sqlalchemy/orm/session.py", "Session.expunge_all"),
    ("lib/sqlalchemy/orm/session.py", "Session._expunge_states"),
    ("lib/sqlalchemy/orm/session.py", "Session._register_persistent"),
    ("lib/sqlalchemy/orm/session.py", "Session._register_altered"),
    ("lib/sqlalchemy/orm/session.py", "Session._remove_newly_deleted"),
    ("lib/sqlalchemy/orm/session.py", "Session._delete_impl"),
    ("lib/sqlalchemy/orm/session.py", "Session._save_impl"),
    ("lib/sqlalchemy/orm/session.py", "Session._update_impl"),
    ("lib/sqlalchemy/orm/session.py", "Session._before_attach"),
    ("lib/sqlalchemy/orm/session.py", "Session.flush"),
    ("lib/sqlalchemy/orm/session.py", "Session._is_clean"),
    ("lib/sqlalchemy/orm/session.py", "Session._flush"),
    ("lib/sqlalchemy/orm/state_changes.py", "_StateChange.declare_states"),
    ("lib/sqlalchemy/orm/state_changes.py", "_StateChange._expect_state"),
    ("lib/sqlalchemy/orm/state.py", "InstanceState._detach_states"),
    ("lib/sqlalchemy/orm/state.py", "InstanceState._expire"),
    ("lib/sqlalchemy/orm/state.py", "InstanceState._load_expired"),
    ("lib/sqlalchemy/orm/state.py", "InstanceState._modified_event"),
    ("lib/sqlalchemy/orm/state.py", "InstanceState._commit_all_states"),
    ("lib/sqlalchemy/orm/identity.py", "_WeakInstanceDict.contains_state"),
    ("lib/sqlalchemy/orm/identity.py", "_WeakInstanceDict.replace"),
    ("lib/sqlalchemy/orm/identity.py", "_WeakInstanceDict.add"),
    ("lib/sqlalchemy/orm/identity.py", "_WeakInstanceDict.safe_discard"),
    ("lib/sqlalchemy/orm/unitofwork.py", "UOWTransaction.was_already_deleted"),
    ("lib/sqlalchemy/orm/unitofwork.py", "UOWTransaction.finalize_flush_changes"),
    ("lib/sqlalchemy/orm/persistence.py", "_save_obj"),
    ("lib/sqlalchemy/orm/persistence.py", "_delete_obj"),
    ("lib/sqlalchemy/orm/persistence.py", "_organize_states_for_save"),
    ("lib/sqlalchemy/orm/persistence.py", "_sort_states"),
    ("lib/sqlalchemy/orm/persistence.py", "_connections_for_states"),
]

# ---------------------------------------------------------------------------------------------
# T1: the declare_states table of SessionTransaction, extracted from the source by AST
_METHODS = ["connection", "_begin", "_connection_for_bind", "_prepare_impl", "commit", "rollback", "close"]
_STATE_CODES = {"ACTIVE": 1, "PREPARED": 2, "COMMITTED": 3, "DEACTIVE": 4, "CLOSED": 5, "PROVISIONING_CONNECTION": 6}


def _declared_table(repo):
    import ast
    import os
    from translate import fingerprint

    with open(os.path.join(repo, "lib/sqlalchemy/orm/session.py")) as f:
        tree = ast.parse(f.read())
    # the enum values themselves
    enum = fingerprint.find_node(tree, "SessionTransactionState")
    vals = {}
    for n in enum.body:
        if isinstance(n, ast.Assign) and len(n.targets) == 1 and isinstance(n.targets[0], ast.Name) and isinstance(n.value, ast.Constant):
            vals[n.targets[0].id] = n.value.value
    if vals != _STATE_CODES:
        raise fingerprint.TranslateError("SessionTransactionState members changed: %r" % (vals,))
    cls = fingerprint.find_node(tree, "SessionTransaction")

    def state(e):
        if isinstance(e, ast.Attribute) and isinstance(e.value, ast.Name):
            if e.value.id == "SessionTransactionState" and e.attr in _STATE_CODES:
                return _STATE_CODES[e.attr]
            if e.value.id == "_StateChangeStates" and e.attr in ("ANY", "NO_CHANGE"):
                return e.attr
        raise fingerprint.TranslateError("declare_states argument not understood: %s" % ast.unparse(e))

    rows = {}
    for n in cls.body:
        if not isinstance(n, ast.FunctionDef):
            continue
        for d in n.decorator_list:
            if isinstance(d, ast.Call) and ast.unparse(d.func) == "_StateChange.declare_states":
                if len(d.args) != 2 or d.keywords:
                    raise fingerprint.TranslateError("declare_states call shape changed on %s" % n.name)
                pre, mv = d.args
                if isinstance(pre, ast.Tuple):
                    pre_l = [state(e) for e in pre.elts]
                    if not pre_l or any(not isinstance(x, int) for x in pre_l):
                        raise fingerprint.TranslateError("prerequisite tuple not understood on %s" % n.name)
                else:
                    if state(pre) != "ANY":
                        raise fingerprint.TranslateError("prerequisite not understood on %s" % n.name)
                    pre_l = []
                mvs = state(mv)
                if mvs == "ANY":
                    raise fingerprint.TranslateError("moves_to ANY on %s" % n.name)
                if n.name in rows:
                    raise fingerprint.TranslateError("two declare_states on %s" % n.name)
                rows[n.name] = (pre_l, 0 if mvs == "NO_CHANGE" else mvs)
    if sorted(rows) != sorted(_METHODS):
        raise fingerprint.TranslateError("decorated methods changed: %r" % sorted(rows))
    return [(i, rows[m][0], rows[m][1]) for i, m in enumerate(_METHODS)]


def translate(repo, outdir):
    import os
    from translate import fingerprint

    fingerprint.check(repo, ANCHORS, "C33")
    tab = _declared_table(repo)
    body = "; ".join("(%d, [%s], %d)" % (m, "; ".join(str(x) for x in pre), mv) for m, pre, mv in tab)
    src = (
        "(* generated on every run from the declare_states decorators of orm/session.py SessionTransaction - do not edit *)\n"
        "From Coq Require Import List ZArith.\nImport ListNotations.\nOpen Scope Z_scope.\n"
        "From SAV.orm Require Import SessTxn.\n\n"
        "Definition gen_states : list smrow := [ %s ].\n\n"
        "(* per-run obligation: the table in the source is the table the model (and every theorem) uses *)\n"
        "Lemma gen_states_ok : gen_states = declared.\nProof. vm_compute; reflexivity. Qed.\n" % body
    )
    p = os.path.join(outdir, "Gen_C33.v")
    with open(p, "w") as fh:
        fh.write(src)
    return [p]


# ---------------------------------------------------------------------------------------------
# operation encoding (see coq/orm/SessTxnRun.v)
NEW, ADD, SETV, SETPK, DEL, FLUSH, NESTED, COMMIT, ROLLBACK, TCOMMIT, TROLLBACK, CLOSE, LOAD = range(13)
OPNAMES = ["new", "add", "set_v", "set_id", "delete", "flush", "begin_nested", "commit", "rollback",
           "h.commit", "h.rollback", "close", "load", "flush(fault)"]
ACTIVE, PREPARED, COMMITTED, DEACTIVE, CLOSED = 1, 2, 3, 4, 5
E_INV, E_PENDING, E_CLOSED, E_INTEG, E_OBJDEL, E_FLUSH, E_ILLEGAL, E_ASSERT, E_NOHANDLE, E_STALE, E_DETACHED = 1, 2, 3, 4, 5, 6, 7, 8, 9, 10, 11
E_FAULT, E_EVENT = 12, 13   # C32 (specs/c32.py): injected driver error / exception raised by a flush event
FLUSHF = 13                 # C32 operation [13, kind, k]: flush with a fault (coq/orm/FlushFail.v)
NOVAL = "NOVAL"


# ---------------- Python mirror of coq/orm/SessTxn.v -------------------------------------------
# Used ONLY to (a) keep the generators inside the modelled region and (b) tell which known finding an
# oracle hit belongs to (guard flags g1..g6).  It is neither the oracle nor the compared model.
class _Raise(Exception):
    def __init__(self, code):
        self.code = code


class OutOfScope(Exception):
    pass


class _Obj:
    __slots__ = ("key", "att", "delf", "did", "dv", "modf", "cid", "cv", "exp")

    def __init__(self, pk, v):
        self.key = None
        self.att = False
        self.delf = False
        self.did = pk
        self.dv = v
        self.modf = True
        self.cid = None
        self.cv = None
        self.exp = False


class _Frame:
    def __init__(self, fid, nested):
        self.fid = fid
        self.nested = nested
        self.state = ACTIVE
        self.new = []
        self.deleted = []
        self.dirty = []
        self.ks = []
        self.rbexc = False
        self.conn = False


class PyModel:
    def __init__(self, eoc):
        self.eoc = eoc
        self.objs = []
        self.snew = []
        self.sdel = []
        self.imap = {}
        self.stack = []
        self.handles = []
        self.committed = {}
        self.work = {}
        self.saves = []
        self.nfid = 0
        self.bad = None  # first guard clause violated (g1..g6)
        self.fault_k = None  # C32: number of DML statements that still succeed before the injected failure

    def _dml(self):
        """C32 hook: called after every INSERT/UPDATE/DELETE took effect"""
        if self.fault_k is not None:
            if self.fault_k == 0:
                self.fault_k = None
                raise _Raise(E_FAULT)
            self.fault_k -= 1

    def flag(self, g):
        if self.bad is None:
            self.bad = g

    def contains_state(self, o):
        k = self.objs[o].key
        return k is not None and self.imap.get(k) == o

    def safe_discard(self, o):
        if self.contains_state(o):
            del self.imap[self.objs[o].key]

    def replace(self, o):
        self.imap[self.objs[o].key] = o

    def im_add(self, o):
        k = self.objs[o].key
        if k in self.imap:
            if self.imap[k] == o:
                return
            raise _Raise(E_INV)
        self.imap[k] = o

    def is_clean(self):
        return not any(self.objs[o].modf for o in self.imap.values()) and not self.sdel and not self.snew

    def autobegin(self):
        if not self.stack:
            self.stack.insert(0, _Frame(self.nfid, False))
            self.nfid += 1
        return self.stack[0]

    def check_prereq(self, f, allowed):
        if f.state not in allowed:
            if f.state == DEACTIVE:
                raise _Raise(E_PENDING if f.rbexc else E_INV)
            if f.state == CLOSED:
                raise _Raise(E_CLOSED)
            raise _Raise(E_INV)

    def provision(self, f):
        self.check_prereq(f, (ACTIVE,))
        if f.conn:
            return
        i = self.stack.index(f)
        if i + 1 < len(self.stack):
            self.provision(self.stack[i + 1])
        if f.nested:
            self.saves.insert(0, [f.fid, dict(self.work)])
        f.conn = True

    def connection(self):
        self.provision(self.autobegin())

    def expire(self, o):
        ob = self.objs[o]
        ob.did = ob.dv = ob.cid = ob.cv = None
        ob.modf = False
        ob.exp = True

    def detach(self, o, to_transient=False):
        ob = self.objs[o]
        ob.att = False
        if to_transient:
            ob.key = None
            ob.delf = False

    def expunge_states(self, states, to_transient):
        for o in states:
            if o in self.snew:
                self.snew.remove(o)
            elif self.contains_state(o):
                self.safe_discard(o)
                if o in self.sdel:
                    self.sdel.remove(o)
            elif self.stack:
                f = self.stack[0]
                if o in f.deleted:
                    f.deleted.remove(o)
        for o in states:
            self.detach(o, to_transient)

    def restore_snapshot(self, f, dirty_only):
        to_expunge = sorted(set(f.new) | set(self.snew))
        self.expunge_states(to_expunge, True)
        for o, old, new in sorted(f.ks):
            if o in to_expunge:
                continue
            self.safe_discard(o)
            self.objs[o].key = old
            self.replace(o)
        for o in sorted(set(f.deleted) | set(self.sdel)):
            if self.objs[o].key is None:
                raise OutOfScope("exception inside _restore_snapshot")
            self.update_impl(o, revert_deletion=True)
        if self.sdel:
            raise OutOfScope("assertion inside _restore_snapshot")
        for o in sorted(self.imap.values()):
            if not dirty_only or self.objs[o].modf or o in f.dirty:
                self.expire(o)

    def update_impl(self, o, revert_deletion=False):
        ob = self.objs[o]
        if ob.key is None:
            raise _Raise(E_INV)
        if ob.delf:
            if revert_deletion:
                if not ob.att:
                    return
                ob.delf = False
            else:
                raise _Raise(E_INV)
        if not ob.att:
            raise OutOfScope("reattach")
        self.autobegin()
        if o in self.sdel:
            self.sdel.remove(o)
        if revert_deletion:
            self.replace(o)
        else:
            self.im_add(o)
        ob.att = True

    def remove_snapshot(self, f):
        if not f.nested and self.eoc:
            for o in list(self.imap.values()):
                self.expire(o)
            for o in f.deleted:
                self.detach(o)
            f.deleted = []
        elif f.nested:
            p = self.stack[self.stack.index(f) + 1]
            for o in f.new:
                if o not in p.new:
                    p.new.append(o)
            for o in f.dirty:
                if o not in p.dirty:
                    p.dirty.append(o)
            for o in f.deleted:
                if o not in p.deleted:
                    p.deleted.append(o)
            for o, old, new in f.ks:
                for e in p.ks:
                    if e[0] == o:
                        old = e[1]
                p.ks = [e for e in p.ks if e[0] != o] + [[o, old, new]]

    def close_frame(self, f):
        assert self.stack[0] is f
        self.stack.pop(0)
        if f.conn and f.state in (ACTIVE, PREPARED):
            if f.nested:
                self.db_rollback_to(f)
            else:
                self.db_rollback()
        f.state = CLOSED

    def db_rollback_to(self, f):
        for i, (fid, snap) in enumerate(self.saves):
            if fid == f.fid:
                self.work = dict(snap)
                self.saves = self.saves[i + 1:]
                return
        raise OutOfScope("no savepoint")

    def db_release(self, f):
        for i, (fid, snap) in enumerate(self.saves):
            if fid == f.fid:
                self.saves = self.saves[i + 1:]
                return
        raise OutOfScope("no savepoint")

    def db_rollback(self):
        self.work = dict(self.committed)
        self.saves = []

    def db_commit(self):
        self.committed = dict(self.work)
        self.saves = []

    def prepare_impl(self, f):
        self.check_prereq(f, (ACTIVE,))
        while self.stack[0] is not f:
            self.t_commit(self.stack[0])
        for _ in range(100):
            if self.is_clean():
                break
            self.flush()
        f.state = PREPARED

    def t_commit(self, f, to_root=False):
        self.check_prereq(f, (ACTIVE, PREPARED))
        if f.state != PREPARED:
            self.prepare_impl(f)
        if f.conn:
            if f.nested:
                self.db_release(f)
            else:
                self.db_commit()
        f.state = COMMITTED
        self.remove_snapshot(f)
        self.close_frame(f)
        if to_root and self.stack:
            self.t_commit(self.stack[0], True)

    def t_rollback(self, f, to_root=False):
        self.check_prereq(f, (ACTIVE, DEACTIVE, PREPARED))
        if self.stack[0] is not f:
            self.flag("g1")
        while self.stack[0] is not f:
            self.close_frame(self.stack[0])
        if f.state in (ACTIVE, PREPARED):
            if f.conn:
                if f.nested:
                    self.db_rollback_to(f)
                else:
                    self.db_rollback()
            f.state = DEACTIVE
            self.restore_snapshot(f, f.nested)
        if not self.is_clean():
            self.restore_snapshot(f, f.nested)
        self.close_frame(f)
        if to_root and self.stack:
            self.t_rollback(self.stack[0], True)

    def flush(self, fault=None):
        if self.is_clean():
            return
        if fault == "pre":
            raise _Raise(E_EVENT)
        dirty = [o for o in self.imap.values() if self.objs[o].modf]
        deleted = list(self.sdel)
        new = list(self.snew)
        dirty = [o for o in dirty if o not in deleted]
        f = self.autobegin()
        self.check_prereq(f, (ACTIVE,))
        try:
            self.fault_k = fault[1] if isinstance(fault, tuple) else None
            try:
                self.flush_exec(f, new, dirty, deleted, fault)
            finally:
                self.fault_k = None
            if fault == "post":
                raise _Raise(E_EVENT)
        except _Raise:
            if f.conn:
                if f.nested:
                    self.db_rollback_to(f)
                else:
                    self.db_rollback()
            f.state = DEACTIVE
            self.restore_snapshot(f, f.nested)
            if not self.is_clean():
                self.restore_snapshot(f, f.nested)
            f.rbexc = True
            raise

    def flush_exec(self, f, new, dirty, deleted, fault=None):
        objs = self.objs
        self.provision(f)
        persistent = sorted(dirty, key=lambda o: objs[o].key)
        for o in new:
            ob = objs[o]
            if ob.did is None:
                raise OutOfScope("pending object with no pk value")
            if ob.did in self.imap:
                ex = self.imap[ob.did]
                already = False
                if objs[ex].exp:
                    try:
                        self.load_expired(ex, True)
                    except _Raise as r:
                        if r.code != E_OBJDEL:
                            raise
                        self.remove_newly_deleted(f, ex)
                        already = True
                if not already and ex in deleted:
                    raise OutOfScope("row switch")
        stmts = ([("U", o) for o in persistent] + [("I", o) for o in new]
                 + [("D", o) for o in sorted(deleted, key=lambda o: objs[o].key)])
        for i, (kind, o) in enumerate(stmts):
            try:
                self.do_stmt(kind, o)
            except _Raise:
                # persistence collects the parameters of a batch (with the SELECTs of expired primary keys)
                # before it executes it: inside a savepoint that order would be visible after the failure
                if f.nested and any(self.needs_load(k2, o2) for k2, o2 in stmts[i + 1:]):
                    raise OutOfScope("statement failure inside a savepoint while later statements still load their key")
                raise
        if fault == "after":
            raise _Raise(E_EVENT)
        for o in deleted:
            self.remove_newly_deleted(f, o)
        other = sorted(set(new) | set(persistent))
        iks = [objs[o].did for o in other]
        if len(set(iks)) != len(iks):
            raise OutOfScope("two flushed objects with one identity key")
        for o in other:
            ob = objs[o]
            ik = ob.did
            if ik is None:
                raise OutOfScope("no identity key")
            if ob.key is None:
                ob.key = ik
            elif ob.key != ik:
                self.safe_discard(o)
                orig = ob.key
                for e in f.ks:
                    if e[0] == o:
                        orig = e[1]
                f.ks = [e for e in f.ks if e[0] != o] + [[o, orig, ik]]
                ob.key = ik
            self.replace(o)
        for o in other:
            ob = objs[o]
            ob.cid = ob.cv = None
            ob.modf = False
            ob.exp = False
            if o in self.snew:
                if o not in f.new:
                    f.new.append(o)
            elif o not in f.dirty:
                f.dirty.append(o)
        self.snew = [o for o in self.snew if o not in other]

    def needs_load(self, kind, o):
        ob = self.objs[o]
        if kind == "I":
            return False
        if kind == "U":
            set_id = ob.cid is not None and ob.did is not None and ob.cid != ob.did
            set_v = ob.cv is not None and ob.cv[0] != ob.dv
            if not (set_id or set_v):
                return False
        return ob.cid is None and ob.did is None

    def do_stmt(self, kind, o):
        ob = self.objs[o]
        if kind == "U":
            set_id = ob.cid is not None and ob.did is not None and ob.cid != ob.did
            set_v = ob.cv is not None and ob.cv[0] != ob.dv
            if not (set_id or set_v):
                return
            if ob.cid is None and ob.did is None:
                self.load_expired(o, True)
            where = ob.cid if ob.cid is not None else ob.did
            if where is None:
                raise OutOfScope("no pk")
            if where not in self.work:
                self._dml()
                raise _Raise(E_STALE)
            newpk = ob.did if set_id else where
            if set_v and ob.dv is None:
                raise OutOfScope("v deleted")
            newv = ob.dv if set_v else self.work[where]
            if newpk != where and newpk in self.work:
                raise _Raise(E_INTEG)
            del self.work[where]
            self.work[newpk] = newv
            self._dml()
        elif kind == "I":
            if ob.dv is None:
                raise OutOfScope("pending object with no v value")
            if ob.did in self.work:
                raise _Raise(E_INTEG)
            self.work[ob.did] = ob.dv
            self._dml()
        else:
            if ob.cid is None and ob.did is None:
                self.load_expired(o, True)
            pk = ob.cid if ob.cid is not None else ob.did
            if pk is None:
                raise OutOfScope("no pk")
            self.work.pop(pk, None)
            self._dml()

    def remove_newly_deleted(self, f, o):
        if o not in f.deleted:
            f.deleted.append(o)
        self.safe_discard(o)
        if o in self.sdel:
            self.sdel.remove(o)
        self.objs[o].delf = True

    def load_expired(self, o, in_flush=False):
        ob = self.objs[o]
        if not ob.att:
            raise _Raise(E_DETACHED)
        if not in_flush:
            self.flush()
            self.connection()
        if ob.key is None:
            raise OutOfScope("load on keyless")
        if ob.key not in self.work:
            raise _Raise(E_OBJDEL)
        if ob.cid is None and ob.did is None:
            ob.did = ob.key
        if ob.cv is None and ob.dv is None:
            ob.dv = self.work[ob.key]
        ob.exp = False

    def modified_event(self, o):
        ob = self.objs[o]
        if not ob.modf:
            has_modified = self.contains_state(o) and any(self.objs[x].modf for x in self.imap.values())
            ob.modf = True
            if ob.att and not has_modified:
                self.autobegin()

    def save_or_update(self, o):
        ob = self.objs[o]
        if ob.key is None:
            self.autobegin()
            if o not in self.snew:
                self.snew.append(o)
            ob.att = True
        else:
            self.update_impl(o)

    def op(self, op):
        c = op[0]
        objs = self.objs
        if c in (ADD, SETV, SETPK, DEL, LOAD) and op[1] >= len(objs):
            raise OutOfScope("no such object")
        if c == NEW:
            objs.append(_Obj(op[2], op[3]))
            self.save_or_update(len(objs) - 1)
        elif c == ADD:
            self.save_or_update(op[1])
        elif c == SETV:
            ob = objs[op[1]]
            if ob.cv is None:
                ob.cv = (NOVAL if ob.dv is None else ob.dv,)
            ob.dv = op[2]
            self.modified_event(op[1])
        elif c == SETPK:
            ob = objs[op[1]]
            if ob.cid is None:
                if ob.did is None:
                    self.load_expired(op[1])
                ob.cid = ob.did
            ob.did = op[2]
            self.modified_event(op[1])
        elif c == DEL:
            o = op[1]
            ob = objs[o]
            if ob.key is None:
                raise _Raise(E_INV)
            if not ob.att:
                raise OutOfScope("reattach")
            if ob.delf:
                self.flag("g5")
            self.autobegin()
            if o in self.sdel:
                return
            self.im_add(o)
            self.sdel.append(o)
        elif c == FLUSH:
            self.flush()
        elif c == FLUSHF:
            self.flush({0: ("stmt", op[2]), 1: "pre", 2: "after", 3: "post"}[op[1]])
        elif c == NESTED:
            self.handles.append(None)
            p = self.autobegin()
            self.check_prereq(p, (ACTIVE,))
            self.flush()
            f = _Frame(self.nfid, True)
            self.nfid += 1
            self.stack.insert(0, f)
            self.handles[-1] = f
        elif c == COMMIT:
            self.t_commit(self.autobegin(), True)
        elif c == ROLLBACK:
            if self.stack:
                self.t_rollback(self.stack[0], True)
        elif c in (TCOMMIT, TROLLBACK):
            if op[1] >= len(self.handles):
                raise OutOfScope("no such handle")
            f = self.handles[op[1]]
            if f is None:
                raise _Raise(E_NOHANDLE)
            if c == TCOMMIT:
                self.t_commit(f)
            else:
                self.t_rollback(f)
        elif c == CLOSE:
            indel = set(o for f in self.stack for o in f.deleted)
            if any(ob.delf and ob.att and ob.key is not None and i not in indel for i, ob in enumerate(objs)):
                self.flag("g6")     # in the deleted state, but no open transaction refers to it
            allst = list(self.imap.values()) + list(self.snew) + [
                i for i in sorted(indel) if objs[i].delf and objs[i].att and i not in self.imap.values() and i not in self.snew]
            self.imap = {}
            self.snew = []
            self.sdel = []
            for o in allst:
                self.detach(o)
            while self.stack:
                self.close_frame(self.stack[0])
        elif c == LOAD:
            if objs[op[1]].dv is None:
                self.load_expired(op[1])

    @staticmethod
    def lifecycle(ob):
        if ob.key is None:
            return 1 if ob.att else 0
        if not ob.att:
            return 4
        return 3 if ob.delf else 2

    def observe(self, code):
        N = lambda x: [] if x is None else x
        obs = [[self.lifecycle(ob), N(ob.key), N(ob.did), N(ob.dv), int(ob.modf), int(i in self.sdel), int(ob.exp)]
               for i, ob in enumerate(self.objs)]
        conn = bool(self.stack) and self.stack[-1].conn
        tx = [int(bool(self.stack)), int(any(f.nested for f in self.stack)),
              [(-1 if h is None else int(h.state == ACTIVE)) for h in self.handles]]
        comm = sorted([k, v] for k, v in self.committed.items())
        return [code, obs, tx, comm, [1, sorted([k, v] for k, v in self.work.items())] if conn else [0]]


def py_run(eoc, ops):
    """-> (observations, guard flag after each op); raises OutOfScope outside the modelled region"""
    m = PyModel(bool(eoc))
    out, flags = [], []
    for op in ops:
        code = 0
        try:
            m.op(op)
        except _Raise as r:
            code = r.code
        out.append(m.observe(code))
        flags.append(m.bad)
    return out, flags


def in_scope(eoc, ops):
    try:
        py_run(eoc, ops)
        return True
    except OutOfScope:
        return False


# ---------------- generators ------------------------------------------------------------------
def _rand_hist(rng, n, mode):
    ops = []
    nobj = 0
    nh = 0
    live = []
    pkmax = rng.choice([2, 3, 4, 6])
    for _ in range(n):
        if mode == 0:
            c = rng.choice([NEW, NEW, ADD, SETV, SETV, SETPK, DEL, FLUSH, FLUSH, NESTED, NESTED, COMMIT, ROLLBACK,
                            TCOMMIT, TROLLBACK, TROLLBACK, CLOSE, LOAD, LOAD])
        else:
            c = rng.choice([NEW, NEW, ADD, SETV, SETPK, SETPK, SETPK, DEL, FLUSH, FLUSH, FLUSH, NESTED, NESTED, NESTED,
                            COMMIT, ROLLBACK, TCOMMIT, TCOMMIT, TCOMMIT, TROLLBACK, TROLLBACK, LOAD, LOAD]
                           + ([CLOSE] if rng.random() < 0.1 else []))
        if c == NEW:
            ops.append([NEW, nobj, rng.randint(1, pkmax), rng.randint(0, 3)])
            nobj += 1
        elif c in (ADD, DEL, LOAD):
            if nobj:
                ops.append([c, rng.randrange(nobj)])
        elif c == SETV:
            if nobj:
                ops.append([c, rng.randrange(nobj), rng.randint(0, 3)])
        elif c == SETPK:
            if nobj:
                ops.append([c, rng.randrange(nobj), rng.randint(1, pkmax)])
        elif c in (TCOMMIT, TROLLBACK):
            if mode == 1 and live and rng.random() < 0.85:
                h = live[-1] if rng.random() < 0.7 else rng.choice(live)
                ops.append([c, h])
                live = live[:live.index(h)]
            elif nh:
                ops.append([c, rng.randrange(nh)])
        elif c == NESTED:
            ops.append([c])
            live.append(nh)
            nh += 1
        else:
            if c in (COMMIT, ROLLBACK, CLOSE):
                live = []
            ops.append([c])
    return ops


def _alphabet(nobj, nh):
    a = [[NEW, nobj, 1, 0], [NEW, nobj, 2, 1], [FLUSH], [NESTED], [COMMIT], [ROLLBACK], [CLOSE]]
    for o in range(min(nobj, 2)):
        a += [[ADD, o], [SETV, o, 2], [SETPK, o, 2], [DEL, o], [LOAD, o]]
    for h in range(min(nh, 2)):
        a += [[TCOMMIT, h], [TROLLBACK, h]]
    return a


def _exhaustive(prefix, depth):
    """all histories prefix + tail, tail of exactly [depth] ops over the alphabet that fits the history so far"""
    def cnt(ops):
        return sum(1 for o in ops if o[0] == NEW), sum(1 for o in ops if o[0] == NESTED)

    def rec(ops, d):
        if d == 0:
            yield ops
            return
        no, nh = cnt(ops)
        for a in _alphabet(no, nh):
            yield from rec(ops + [list(a)], d - 1)

    yield from rec([list(o) for o in prefix], depth)


def gen_cases(rng, tier):
    thorough = tier == "thorough"
    cases = []

    def add(eoc, ops, kind):
        if ops and in_scope(eoc, ops):
            cases.append({"in": [int(eoc), [list(o) for o in ops]], "kind": kind})

    for eoc in (1, 0):
        for d in (1, 2):
            for ops in _exhaustive([], d):
                add(eoc, ops, "exh%d" % d)
    l3 = list(_exhaustive([], 3))
    for ops in (l3 if thorough else rng.sample(l3, 300)):
        add(rng.randint(0, 1), ops, "exh3")
    # savepoint-centred families
    fams = [
        ([[NEW, 0, 1, 0], [FLUSH], [NESTED]], 2 if not thorough else 3),
        ([[NEW, 0, 1, 0], [COMMIT], [NESTED]], 2),
        ([[NEW, 0, 1, 0], [NESTED], [SETPK, 0, 2], [NESTED]], 2),
        ([[NEW, 0, 1, 0], [FLUSH], [DEL, 0], [NESTED]], 2),
        ([[NESTED], [NEW, 0, 1, 0], [NESTED]], 2),
    ]
    for prefix, d in fams:
        tails = list(_exhaustive(prefix, d))
        if not thorough and len(tails) > 110:
            tails = rng.sample(tails, 110)
        for ops in tails:
            add(rng.randint(0, 1), ops, "savepoint-family")
    # directed families: what a released savepoint hands to its parent (_new/_dirty/_deleted/_key_switches),
    # repeated key switches inside one scope, deletes and re-adds across scopes
    for eoc in (1, 0):
        for first in ([FLUSH], [COMMIT]):
            for x in ([[DEL, 0]], [[SETV, 0, 2]], [[SETPK, 0, 2]], [[NEW, 1, 2, 1]], [[SETPK, 0, 2], [FLUSH], [SETPK, 0, 3]],
                      [[DEL, 0], [FLUSH], [NEW, 1, 1, 3]], [[NEW, 1, 2, 1], [FLUSH], [DEL, 1]]):
                for fl in ([], [[FLUSH]]):
                    for end in ([[TROLLBACK, 0]], [[TCOMMIT, 0]], [[TCOMMIT, 0], [ROLLBACK]], [[TROLLBACK, 0], [COMMIT]]):
                        add(eoc, [[NEW, 0, 1, 0]] + [first] + [[NESTED], [NESTED]] + x + fl + [[TCOMMIT, 1]] + end + [[LOAD, 0]],
                            "merge-family")
                    for end in ([[TROLLBACK, 0]], [[ROLLBACK]], [[TCOMMIT, 0], [ROLLBACK]]):
                        add(eoc, [[NEW, 0, 1, 0]] + [first] + [[NESTED]] + x + fl + end + [[LOAD, 0]], "scope-family")
    nrand = 12000 if thorough else 850
    for k in range(nrand):
        mode = 0 if k % 3 == 0 else 1
        n = rng.randint(3, 30 if thorough else 14)
        ops = _rand_hist(rng, n, mode)
        add(rng.randint(0, 1), ops, "random-uniform" if mode == 0 else "random-savepoint")
    return cases


def nontrivial(c):
    eoc, ops = c["in"]
    depth = 0
    work_inside = False
    for o in ops:
        if o[0] == NESTED:
            depth += 1
        elif o[0] in (NEW, SETV, SETPK, DEL) and depth:
            work_inside = True
        elif o[0] in (TCOMMIT, TROLLBACK, COMMIT, ROLLBACK) and depth and work_inside:
            return True
    return False


# ---------------- implementation side ----------------------------------------------------------
_ENV = {}


def impl_setup():
    import atexit
    import os
    import shutil
    import sqlite3
    import tempfile
    import warnings

    import sqlalchemy as sa
    from sqlalchemy import event
    from sqlalchemy.orm import declarative_base

    base = "/dev/shm" if os.path.isdir("/dev/shm") and os.access("/dev/shm", os.W_OK) else None
    d = tempfile.mkdtemp(prefix="verif_c33_", dir=base)
    atexit.register(shutil.rmtree, d, True)
    path = os.path.join(d, "t.db")
    c0 = sqlite3.connect(path)  # schema created with the raw driver
    c0.execute("create table t (id integer primary key, v integer)")
    c0.commit()
    c0.close()
    eng = sa.create_engine("sqlite:///" + path, connect_args={"autocommit": False})
    Base = declarative_base()

    class T(Base):
        __tablename__ = "t"
        id = sa.Column(sa.Integer, primary_key=True, autoincrement=False)
        v = sa.Column(sa.Integer)

    cur = []

    @event.listens_for(eng, "checkout")
    def _co(dbapi_conn, rec, proxy):
        cur.append(dbapi_conn)

    @event.listens_for(eng, "checkin")
    def _ci(dbapi_conn, rec):
        if dbapi_conn in cur:
            cur.remove(dbapi_conn)

    with warnings.catch_warnings():
        warnings.simplefilter("ignore")
        eng.connect().close()
    obs = sqlite3.connect(path, timeout=0.2)
    _ENV.update(eng=eng, T=T, cur=cur, obs=obs, sa=sa, warnings=warnings)


def _code(ex):
    from sqlalchemy import exc
    from sqlalchemy.orm import exc as orm_exc

    if ex is None:
        return 0
    if _ENV.get("code_ext"):       # C32: injected failures
        c = _ENV["code_ext"](ex)
        if c is not None:
            return c
    for cls, c in ((exc.PendingRollbackError, E_PENDING), (exc.ResourceClosedError, E_CLOSED),
                   (exc.IllegalStateChangeError, E_ILLEGAL), (orm_exc.ObjectDeletedError, E_OBJDEL),
                   (orm_exc.DetachedInstanceError, E_DETACHED), (orm_exc.StaleDataError, E_STALE),
                   (orm_exc.FlushError, E_FLUSH), (exc.IntegrityError, E_INTEG),
                   (exc.InvalidRequestError, E_INV), (AssertionError, E_ASSERT)):
        if isinstance(ex, cls):
            return c
    return 99


def _reset():
    import sqlite3

    o = _ENV["obs"]
    try:
        o.execute("delete from t")
        o.commit()
    except sqlite3.OperationalError:
        o.rollback()
        _ENV["eng"].dispose()
        o.execute("delete from t")
        o.commit()


def impl(c):
    from sqlalchemy import inspect
    from sqlalchemy.orm import Session

    E = _ENV
    eoc, ops = c["in"]
    _reset()
    T = E["T"]
    o = E["obs"]
    N = lambda x: [] if x is None else x
    objs, handles, out = [], [], []
    s = Session(E["eng"], expire_on_commit=bool(eoc))
    if E.get("on_session"):        # C32: flush-event listeners
        E["on_session"](s)
    with E["warnings"].catch_warnings():
        E["warnings"].simplefilter("ignore")
        try:
            for op in ops:
                k = op[0]
                ex = None
                code = None
                try:
                    if k == NEW:
                        ob = T(id=op[2], v=op[3])
                        objs.append(ob)
                        s.add(ob)
                    elif k == ADD:
                        s.add(objs[op[1]])
                    elif k == SETV:
                        objs[op[1]].v = op[2]
                    elif k == SETPK:
                        objs[op[1]].id = op[2]
                    elif k == DEL:
                        s.delete(objs[op[1]])
                    elif k == FLUSH:
                        s.flush()
                    elif k == FLUSHF:
                        E["flushf"](s, op)     # C32: flush with an injected failure (specs/c32.py)
                    elif k == NESTED:
                        handles.append(None)
                        handles[-1] = s.begin_nested()
                    elif k == COMMIT:
                        s.commit()
                    elif k == ROLLBACK:
                        s.rollback()
                    elif k in (TCOMMIT, TROLLBACK):
                        h = handles[op[1]]
                        if h is None:
                            code = E_NOHANDLE
                        elif k == TCOMMIT:
                            h.commit()
                        else:
                            h.rollback()
                    elif k == CLOSE:
                        s.close()
                    elif k == LOAD:
                        objs[op[1]].v
                except Exception as e:  # noqa: BLE001 - every exception class is an observation
                    ex = e
                if code is None:
                    code = _code(ex)
                ob_obs = []
                for ob in objs:
                    st = inspect(ob)
                    d = st.dict
                    lc = 0 if st.transient else 1 if st.pending else 2 if st.persistent else 3 if st.deleted else 4 if st.detached else 9
                    ob_obs.append([lc, N(st.key[1][0] if st.key else None), N(d.get("id")), N(d.get("v")),
                                   int(st.modified), int(ob in s.deleted), int(st.expired)])
                work = [0]
                if E["cur"]:
                    work = [1, [list(r) for r in E["cur"][-1].execute("select id, v from t order by id")]]
                comm = [list(r) for r in o.execute("select id, v from t order by id")]
                tx = [int(s.in_transaction()), int(s.in_nested_transaction()),
                      [(-1 if h is None else int(h.is_active)) for h in handles]]
                out.append([code, ob_obs, tx, comm, work])
        finally:
            s.close()
    return out


# ---------------- the property, stated directly on the observation ------------------------------
def _W(rec):
    return {r[0]: r[1] for r in (rec[4][1] if rec[4][0] else rec[3])}


def _logical(rec):
    """the user-visible table: rows of the session's connection + the pending changes visible on the
    objects (pending objects, modified persistent objects, objects marked for deletion)"""
    W = _W(rec)
    L = dict(W)
    for lc, key, did, dv, modf, indel, exp in rec[1]:
        if lc == 2 and (indel or modf) and key in W:
            L.pop(key, None)
    for lc, key, did, dv, modf, indel, exp in rec[1]:
        if lc == 2 and not indel and modf and key in W:
            L[key if did == [] else did] = W[key] if dv == [] else dv
        if lc == 1:
            L[did] = dv
    return L


def oracle(c, obs):
    """C33 on the implementation: after each successful commit/rollback (outer or savepoint) every
    persistent object has its row in the surviving scope and its loaded values equal that row, no object
    is left in the deleted state while its row exists, nothing is pending; committed data changes only by
    an outer commit and then equals the user-visible table before it; a savepoint rollback restores the
    table of the moment the savepoint was taken, a release keeps the user-visible table, an outer rollback
    restores the committed table."""
    if obs is None:
        return None
    eoc, ops = c["in"]
    saved = {}
    nh = 0
    prev = None
    for i, (op, rec) in enumerate(zip(ops, obs)):
        k = op[0]
        code = rec[0]
        W = _W(rec)
        comm = {r[0]: r[1] for r in rec[3]}
        pcomm = {r[0]: r[1] for r in prev[3]} if prev is not None else {}
        if comm != pcomm and k != COMMIT:
            return "step %d (%s): committed data changed outside an outer commit" % (i, OPNAMES[k])
        if code in (E_ILLEGAL, E_ASSERT, 99):
            return "step %d (%s): internal error class %d" % (i, OPNAMES[k], code)
        if k == NESTED:
            if code == 0:
                saved[nh] = dict(W)
                # begin_nested() flushes first: everything pending belongs to the enclosing scope
                for o, (lc, key, did, dv, modf, indel, exp) in enumerate(rec[1]):
                    if lc == 1 or (lc == 2 and (modf or indel)):
                        return "step %d (begin_nested): object %d still pending / modified / marked deleted after the savepoint was taken" % (i, o)
                if prev is not None and rec[4][0]:
                    L = _logical(prev)
                    if W != L:
                        return "step %d (begin_nested): rows at the savepoint %s != user-visible table before it %s" % (i, sorted(W.items()), sorted(L.items()))
            nh += 1
        if code == 0 and k == COMMIT and eoc:
            for o, (lc, key, did, dv, modf, indel, exp) in enumerate(rec[1]):
                if lc == 3:
                    return "step %d (commit): object %d is still in the deleted state after the outermost commit (expire_on_commit)" % (i, o)
        if code == 0 and k in (COMMIT, ROLLBACK, TCOMMIT, TROLLBACK):
            for o, (lc, key, did, dv, modf, indel, exp) in enumerate(rec[1]):
                if lc == 2:
                    if key not in W:
                        return "step %d (%s): object %d is persistent with identity %s but the transaction scope has no such row" % (i, OPNAMES[k], o, key)
                    if did != [] and not modf and did != key:
                        return "step %d (%s): object %d loaded id %s != identity %s" % (i, OPNAMES[k], o, did, key)
                    if dv != [] and not modf and dv != W[key]:
                        return "step %d (%s): object %d loaded v %s != row value %s" % (i, OPNAMES[k], o, dv, W[key])
                elif lc == 3:
                    if key in W and not any(x[0] == 2 and x[1] == key for x in rec[1]):
                        return "step %d (%s): object %d is in the deleted state but row %s exists" % (i, OPNAMES[k], o, key)
                elif lc == 1:
                    return "step %d (%s): object %d still pending after the boundary" % (i, OPNAMES[k], o)
            live_before = prev is not None and k in (TCOMMIT, TROLLBACK) and op[1] < len(prev[2][2]) and prev[2][2][op[1]] == 1
            if k == COMMIT and prev is not None:
                L = _logical(prev)
                if comm != L:
                    return "step %d (commit): committed rows %s != user-visible table before the commit %s" % (i, sorted(comm.items()), sorted(L.items()))
            if k == ROLLBACK and W != pcomm:
                return "step %d (rollback): rows %s != committed rows %s" % (i, sorted(W.items()), sorted(pcomm.items()))
            if k == TROLLBACK and live_before and op[1] in saved and W != saved[op[1]]:
                return "step %d (h.rollback): rows %s != rows when the savepoint was taken %s" % (i, sorted(W.items()), sorted(saved[op[1]].items()))
            if k == TCOMMIT and live_before:
                L = _logical(prev)
                if W != L:
                    return "step %d (h.commit): rows %s != user-visible table before the release %s" % (i, sorted(W.items()), sorted(L.items()))
        prev = rec
    return None


_FINDING_OF_GUARD = {
    "g1": "C33-outer-savepoint-rollback-skips-inner-restore",
    "g5": "C33-delete-of-deleted-object-reregisters-it",
    "g6": "C33-deleted-object-stays-attached-without-expire-on-commit",
}


def match_finding(c, what):
    """the known finding whose region (guard clause of the _guarded theorem) the history has entered at
    or before the step where the oracle fails"""
    import re

    m = re.match(r"step (\d+)", what)
    if not m:
        return None
    eoc, ops = c["in"]
    try:
        _, flags = py_run(eoc, ops)
    except OutOfScope:
        return None
    g = flags[int(m.group(1))]
    return _FINDING_OF_GUARD.get(g)


LEVEL_TEXT = (
    "Machine-checked proofs (Coq) over the Gallina transcription of SessionTransaction/Session transaction "
    "control, snapshot bookkeeping, the unit-of-work statement list of one mapped class and attribute "
    "expiry/refresh, for ARBITRARY histories (induction over the operation list). T1 state_machine_closed: "
    "for every history, no IllegalStateChangeError, only the innermost transaction can be DEACTIVE, every "
    "transaction moves ACTIVE -> DEACTIVE -> CLOSED only, illegal calls raise and change nothing; the "
    "declare_states table is regenerated from the source on every run. T2 session_agrees_with_db: REFUTED "
    "for unrestricted histories (three witnesses = the three findings still open, replayed on the implementation; "
    "the witnesses of the three repaired ones are positive examples now); "
    "GUARDED version proved for every history outside the three defective regions: after every operation "
    "every persistent object has its row and equals it, nothing is left pending/modified after a "
    "commit/rollback - by an invariant relating every open transaction (and savepoint) to the snapshot it "
    "would restore, proved preserved by all 13 operations including failing flushes at any statement. "
    "T3 (partial): committed rows change only at the outermost commit, which publishes exactly the "
    "connection's rows; rollback restores them; the database savepoint stack mirrors the transaction stack."
)
LEVEL_NOTE = (
    "partial. Guard of the proved agreement theorem (coq/orm/SessTxnSpec.v guard): g1 handle.rollback() of a "
    "savepoint that is not the innermost open one; g5 delete() of an object already in the deleted state; g6 "
    "close() while an object is in the deleted state and no open transaction refers to it (expire_on_commit="
    "False leaves committed-deleted objects attached); and: no new/add/assign/delete while a failed flush waits "
    "for its "
    "rollback. g1 g5 g6 are reproduced defects (findings/C33.json); the former clauses g2 (key switches of one "
    "object in a savepoint and an enclosing scope) and g3 (stale _deleted flag) are gone with the repairs "
    "f8f802f and 0c90c34, g6 shrank with 9732dc8. T3 is partial: the value side of the "
    "nested-transaction reference (the rows a flush writes are exactly the pending object changes) is not "
    "proved, only compared on the implementation after every operation (oracle: commit/release/rollback laws "
    "on the user-visible table). Outside the model (Unmodelled, never generated): row switch (pending object "
    "taking the key of one marked deleted), re-attaching detached objects, a pending object without primary "
    "key value, two flushed objects with one identity key, exceptions from inside _restore_snapshot, a "
    "statement failure inside a savepoint while later statements of the same flush still have to SELECT an "
    "expired primary key (persistence collects batch parameters first). Not covered at all: relationships and "
    "cascades, several mapped classes/binds, two-phase, events, refresh/expire/expunge/merge API calls, "
    "autoflush=False, join_transaction_mode, garbage-collected objects, COMMIT/ROLLBACK failing at the "
    "database, other databases than SQLite. Trusted: Coq kernel, the hand transcription (normalised-source pin "
    "+ comparison after every operation), the snapshot-stack database semantics (transcribed from "
    "engine/RefDb.v, which C23 validates against sqlite3). No axioms."
)
TECHNIQUE = "Coq invariant proofs over an executable session model; T1 table check; source pin; model/impl correspondence after every operation on SQLite; direct oracle"
