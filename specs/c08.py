"""C08 - LIKE-based string operators with autoescape match literal semantics."""
import ast
import itertools
import os
import re

ID = "C08"
LEVEL = "proof"
PROPS = "props/C08.v"
RUNNER = ("SAV.sql.LikeRun", "run_case")
STATIC_MODULES = ["SAV.sql.LikeRun"]
ALPHABET = "aA%_/'\\"
OPS = ["contains", "startswith", "endswith", "icontains", "istartswith", "iendswith"]
RULE = (
    "a case = (operand x, row text s, list of (autoescape, escape) combinations); for every combination "
    "all six operators are built through the public ColumnOperators API, compiled and EXECUTED on "
    "in-memory SQLite (PRAGMA case_sensitive_like=ON; the i-variants additionally with the default OFF), "
    "observing per operator the bind value sent to the cursor, the rendered ESCAPE character and "
    "matched/not matched. Pairs (x, s): strings of length <= 3 over {a A % _ / ' \\} - quick: ~3600 "
    "sampled, half uniformly and half 'near' pairs (s = x embedded in context, or x with one character "
    "substituted); thorough: all 160000 pairs - x autoescape=True with escape in {None(default '/'), "
    "'^', '%', '_'}; plus 'plain' cases (autoescape=False, escape in {None, '/', '%', '_'}: x is a raw "
    "pattern, which validates the LIKE matcher of the spec side on arbitrary patterns), 'exotic' "
    "escapes {\"'\", '\\\\', 'a', 'A'} and random longer strings (<= 8). non-trivial = x contains a "
    "wildcard, the escape character of some combination, or a letter"
)
TRUSTED = [
    "hand-written Gallina transcription of _escaped_like_impl and of the six visit_*_op_binary renderings; "
    "tied to the source by the normalised-source pin, by the regenerated tables (gen_replaces, "
    "gen_default_escape, gen_render: Python ast -> C08_gen.v, equal to the model's by reflexivity) and by "
    "the behavioural correspondence",
    "the LIKE matcher `like` of the spec side describes the backend: validated on every run against "
    "SQLite 3.40.1 (every correspondence case executes the statement); other backends are not executed",
    "Python str.replace(c, r) for a one-character c is character-wise substitution (replace1)",
]
ASSUMPTIONS = [
    "the escape argument is a single character (SQL requires it; SQLite raises otherwise)",
    "strings are sequences of code points; case folding is ASCII-only (SQLite lower()); non-ASCII "
    "letters, collations and backends other than SQLite are outside the model",
    "operand and row text are str, the column is a plain String column",
]
# functions translated structurally by translate() below (every statement accounted for, fail closed)
T2_ANCHORS = [
    ("lib/sqlalchemy/sql/operators.py", "_escaped_like_impl"),
    ("lib/sqlalchemy/sql/operators.py", "contains_op"),
    ("lib/sqlalchemy/sql/operators.py", "startswith_op"),
    ("lib/sqlalchemy/sql/operators.py", "endswith_op"),
    ("lib/sqlalchemy/sql/operators.py", "icontains_op"),
    ("lib/sqlalchemy/sql/operators.py", "istartswith_op"),
    ("lib/sqlalchemy/sql/operators.py", "iendswith_op"),
    ("lib/sqlalchemy/sql/compiler.py", "SQLCompiler.visit_contains_op_binary"),
    ("lib/sqlalchemy/sql/compiler.py", "SQLCompiler.visit_startswith_op_binary"),
    ("lib/sqlalchemy/sql/compiler.py", "SQLCompiler.visit_endswith_op_binary"),
    ("lib/sqlalchemy/sql/compiler.py", "SQLCompiler.visit_icontains_op_binary"),
    ("lib/sqlalchemy/sql/compiler.py", "SQLCompiler.visit_istartswith_op_binary"),
    ("lib/sqlalchemy/sql/compiler.py", "SQLCompiler.visit_iendswith_op_binary"),
]
# functions pinned by their normalised source
PIN_ANCHORS = [
    ("lib/sqlalchemy/sql/operators.py", "ColumnOperators.contains"),
    ("lib/sqlalchemy/sql/operators.py", "ColumnOperators.startswith"),
    ("lib/sqlalchemy/sql/operators.py", "ColumnOperators.endswith"),
    ("lib/sqlalchemy/sql/operators.py", "ColumnOperators.icontains"),
    ("lib/sqlalchemy/sql/operators.py", "ColumnOperators.istartswith"),
    ("lib/sqlalchemy/sql/operators.py", "ColumnOperators.iendswith"),
    ("lib/sqlalchemy/sql/compiler.py", "SQLCompiler._like_percent_literal"),
    ("lib/sqlalchemy/sql/compiler.py", "SQLCompiler.visit_ilike_case_insensitive_operand"),
    ("lib/sqlalchemy/sql/compiler.py", "SQLCompiler.visit_like_op_binary"),
    ("lib/sqlalchemy/sql/compiler.py", "SQLCompiler.visit_ilike_op_binary"),
]
ANCHORS = T2_ANCHORS + PIN_ANCHORS


# ------------------------------------------------------------------ T2: ast -> generated .v
class _TE(Exception):
    pass


def _fail(msg, node=None):
    raise _TE("C08 translate: %s%s" % (msg, (" at: " + ast.unparse(node)[:200]) if node is not None else ""))


def _toks(node):
    """expression over `escape` and one-character constants -> list of Coq tok terms"""
    if isinstance(node, ast.Name) and node.id == "escape":
        return ["TEsc"]
    if isinstance(node, ast.Constant) and isinstance(node.value, str) and len(node.value) == 1:
        return ["TChr %d" % ord(node.value)]
    if isinstance(node, ast.BinOp) and isinstance(node.op, ast.Add):
        return _toks(node.left) + _toks(node.right)
    _fail("unsupported replace argument", node)


def _replace_chain(node):
    """other.replace(a, b).replace(c, d)... -> [(a, b), (c, d)] in evaluation order"""
    if isinstance(node, ast.Name) and node.id == "other":
        return []
    if (
        isinstance(node, ast.Call)
        and isinstance(node.func, ast.Attribute)
        and node.func.attr == "replace"
        and len(node.args) == 2
        and not node.keywords
    ):
        frm = _toks(node.args[0])
        if len(frm) != 1:
            _fail("replace() of a multi-token pattern", node)
        return _replace_chain(node.func.value) + [(frm[0], _toks(node.args[1]))]
    _fail("`other` is assigned something that is not a chain of .replace() calls", node)


def _is_name(n, name):
    return isinstance(n, ast.Name) and n.id == name


def _params(fn, names, defaults, decorators=None, kwarg=None):
    a = fn.args
    if (
        [x.arg for x in a.args] != names
        or a.vararg
        or (a.kwarg.arg if a.kwarg else None) != kwarg
        or a.kwonlyargs
        or a.posonlyargs
        or [ast.unparse(d) for d in a.defaults] != defaults
    ):
        _fail("%s: unexpected signature (%s)" % (fn.name, ast.unparse(a)))
    if decorators is not None and [ast.unparse(d) for d in fn.decorator_list] != decorators:
        _fail("%s: unexpected decorators %r" % (fn.name, [ast.unparse(d) for d in fn.decorator_list]))


def _extract_escaped_like_impl(fn):
    """returns (default escape code point, [(unless codes, from tok, to toks)])"""
    _params(fn, ["fn", "other", "escape", "autoescape"], [])
    body = [s for s in fn.body if not (isinstance(s, ast.Expr) and isinstance(s.value, ast.Constant))]
    if len(body) != 2 or not isinstance(body[0], ast.If) or not _is_name(body[0].test, "autoescape") or body[0].orelse:
        _fail("_escaped_like_impl is not `if autoescape: ...; return ...`")
    ret = body[1]
    if not (isinstance(ret, ast.Return) and ast.unparse(ret.value) == "fn(other, escape=escape)"):
        _fail("unexpected return", ret)
    default = None
    repls = []

    def assign_other(st, unless):
        if not (isinstance(st, ast.Assign) and len(st.targets) == 1 and _is_name(st.targets[0], "other")):
            _fail("unexpected statement", st)
        for frm, to in _replace_chain(st.value):
            repls.append((unless, frm, to))

    for st in body[0].body:
        if isinstance(st, ast.If):
            t = ast.unparse(st.test)
            if st.orelse:
                _fail("unexpected else branch", st)
            if t == "autoescape is not True":
                if not all(isinstance(x, ast.Expr) and ast.unparse(x).startswith("util.warn(") for x in st.body):
                    _fail("unexpected statement under `autoescape is not True`", st)
            elif t == "escape is None":
                if not (
                    len(st.body) == 1
                    and isinstance(st.body[0], ast.Assign)
                    and _is_name(st.body[0].targets[0], "escape")
                    and isinstance(st.body[0].value, ast.Constant)
                    and isinstance(st.body[0].value.value, str)
                    and len(st.body[0].value.value) == 1
                    and default is None
                    and not repls
                ):
                    _fail("unexpected default-escape statement", st)
                default = ord(st.body[0].value.value)
            elif t == "not isinstance(other, str)":
                if not (len(st.body) == 1 and isinstance(st.body[0], ast.Raise)):
                    _fail("unexpected statement under the type test", st)
            elif (
                isinstance(st.test, ast.Compare)
                and _is_name(st.test.left, "escape")
                and len(st.test.ops) == 1
                and isinstance(st.test.ops[0], ast.NotIn)
                and isinstance(st.test.comparators[0], (ast.Tuple, ast.List))
                and all(
                    isinstance(c, ast.Constant) and isinstance(c.value, str) and len(c.value) == 1
                    for c in st.test.comparators[0].elts
                )
            ):
                unless = [ord(c.value) for c in st.test.comparators[0].elts]
                for s2 in st.body:
                    assign_other(s2, unless)
            else:
                _fail("unexpected condition", st.test)
        else:
            assign_other(st, [])
    if default is None:
        _fail("no default escape character found")
    return default, repls


def _extract_render(fn, name):
    """visit_<op>_op_binary -> (pieces, lower)"""
    _params(fn, ["self", "binary", "operator"], [], [], kwarg="kw")
    body = [s for s in fn.body if not (isinstance(s, ast.Expr) and isinstance(s.value, ast.Constant))]
    src = [ast.unparse(s) for s in body]
    if src[:2] != ["binary = binary._clone()", "percent = self._like_percent_literal"]:
        _fail("%s: unexpected prologue %r" % (name, src[:2]))
    rest = body[2:]
    left_lower = False
    if rest and ast.unparse(rest[0]) == "binary.left = ilike_case_insensitive(binary.left)":
        left_lower = True
        rest = rest[1:]
    if len(rest) != 2:
        _fail("%s: unexpected body %r" % (name, src))
    asg, ret = rest
    if not (isinstance(asg, ast.Assign) and ast.unparse(asg.targets[0]) == "binary.right" and len(asg.targets) == 1):
        _fail("%s: expected an assignment to binary.right" % name, asg)
    lowers = []

    def pieces(n):
        if _is_name(n, "percent"):
            return ["PPct"]
        s = ast.unparse(n)
        if s == "binary.right":
            lowers.append(False)
            return ["PRight"]
        if s == "ilike_case_insensitive(binary.right)":
            lowers.append(True)
            return ["PRight"]
        if isinstance(n, ast.Call) and isinstance(n.func, ast.Attribute) and len(n.args) == 1 and not n.keywords:
            if n.func.attr == "concat":
                return pieces(n.func.value) + pieces(n.args[0])
            if n.func.attr == "_rconcat":
                return pieces(n.args[0]) + pieces(n.func.value)
        _fail("%s: unsupported pattern expression" % name, n)

    ps = pieces(asg.value)
    if len(lowers) != 1:
        _fail("%s: the bind parameter must occur exactly once in the pattern" % name, asg)
    right_lower = lowers[0]
    want_ret = "return self.visit_%s_op_binary(binary, operator, **kw)" % ("ilike" if right_lower else "like")
    if ast.unparse(ret) != want_ret:
        _fail("%s: unexpected delegation %r (expected %r)" % (name, ast.unparse(ret), want_ret))
    if left_lower != right_lower:
        _fail("%s: lower() applied to one side only" % name)
    return ps, right_lower


def _check_like_tail(cls):
    """visit_like_op_binary / visit_ilike_op_binary: `l LIKE r [ESCAPE <literal>]`, no extra lower()"""
    from translate import fingerprint

    like = ast.unparse(fingerprint.find_node(cls, "visit_like_op_binary"))
    for frag in (
        "escape = binary.modifiers.get('escape', None)",
        "'%s LIKE %s' % (binary.left._compiler_dispatch(self, **kw), binary.right._compiler_dispatch(self, **kw))",
        "' ESCAPE ' + self.render_literal_value(escape, sqltypes.STRINGTYPE) if escape is not None else ''",
    ):
        if frag not in like:
            _fail("visit_like_op_binary lost %r" % frag)
    ilike = fingerprint.find_node(cls, "visit_ilike_op_binary")
    first = ilike.body[0] if not isinstance(ilike.body[0], ast.Expr) else ilike.body[1]
    if not (isinstance(first, ast.If) and ast.unparse(first.test) == "operator is operators.ilike_op"):
        _fail("visit_ilike_op_binary: lower() is no longer restricted to ilike_op", first)
    if ast.unparse(ilike.body[-1]) != "return self.visit_like_op_binary(binary, operator, **kw)":
        _fail("visit_ilike_op_binary: unexpected delegation", ilike.body[-1])


COQ_OPS = ["Contains", "Startswith", "Endswith", "IContains", "IStartswith", "IEndswith"]


def translate(repo, outdir):
    from translate import fingerprint

    fingerprint.check(repo, PIN_ANCHORS, "C08")
    try:
        with open(os.path.join(repo, "lib/sqlalchemy/sql/operators.py")) as f:
            optree = ast.parse(f.read())
        with open(os.path.join(repo, "lib/sqlalchemy/sql/compiler.py")) as f:
            ctree = ast.parse(f.read())
        default, repls = _extract_escaped_like_impl(fingerprint.find_node(optree, "_escaped_like_impl"))
        # each <op>_op dispatches to the method of the same name, with the same argument order
        for op in OPS:
            fn = fingerprint.find_node(optree, op + "_op")
            body = [x for x in fn.body if not (isinstance(x, ast.Expr) and isinstance(x.value, ast.Constant))]
            want = "return _escaped_like_impl(a.%s, b, escape, autoescape)" % op
            if len(body) != 1 or ast.unparse(body[0]) != want:
                _fail("%s_op is not `%s`" % (op, want), fn)
            _params(fn, ["a", "b", "escape", "autoescape"], ["None", "False"], ["comparison_op", "_operator_fn"])
        cls = fingerprint.find_node(ctree, "SQLCompiler")
        renders = [
            _extract_render(fingerprint.find_node(cls, "visit_%s_op_binary" % op), op) for op in OPS
        ]
        _check_like_tail(cls)
    except _TE as e:
        raise fingerprint.TranslateError(str(e))
    except fingerprint.TranslateError:
        raise
    lines = [
        "(* GENERATED by specs/c08.py translate() from the ast of sql/operators.py and sql/compiler.py *)",
        "From Coq Require Import List NArith Bool.",
        "Import ListNotations.",
        "Require Import SAV.sql.Like.",
        "Open Scope N_scope.",
        "",
        "(* `if escape is None: escape = ...` *)",
        "Definition gen_default_escape : chr := %d." % default,
        "(* the .replace() calls applied to `other`, in evaluation order *)",
        "Definition gen_replaces : list repl := [",
        ";\n".join(
            "  mkRepl [%s] (%s) [%s]" % ("; ".join(str(u) for u in unless), frm, "; ".join(to))
            for unless, frm, to in repls
        ),
        "].",
        "(* binary.right as built by visit_<op>_op_binary *)",
        "Definition gen_render (o : op) : render :=",
        "  match o with",
    ]
    for name, (ps, low) in zip(COQ_OPS, renders):
        lines.append("  | %s => mkRender [%s] %s" % (name, "; ".join(ps), "true" if low else "false"))
    lines += [
        "  end.",
        "",
        "Lemma gen_default_escape_ok : gen_default_escape = default_escape.",
        "Proof. reflexivity. Qed.",
        "Lemma gen_replaces_ok : gen_replaces = model_replaces.",
        "Proof. reflexivity. Qed.",
        "Lemma gen_render_ok : forall o, gen_render o = model_render o.",
        "Proof. destruct o; reflexivity. Qed.",
        "",
    ]
    path = os.path.join(outdir, "C08_gen.v")
    with open(path, "w") as f:
        f.write("\n".join(lines))
    return [path]


# ------------------------------------------------------------------ cases
def _S(s):
    return [ord(c) for c in s]


def _unS(t):
    return "".join(chr(c) for c in t)


def _E(e):
    return [] if e is None else [ord(e)]


AUTO_COMBOS = [[1, _E(None)], [1, _E("^")], [1, _E("%")], [1, _E("_")]]
PLAIN_COMBOS = [[0, _E(None)], [0, _E("/")], [0, _E("%")], [0, _E("_")]]
EXOTIC_COMBOS = [[1, _E("'")], [1, _E("\\")], [1, _E("a")], [1, _E("A")], [1, _E("/")]]


def _strings(n):
    return ["".join(t) for k in range(n + 1) for t in itertools.product(ALPHABET, repeat=k)]


def _near(rng, x):
    """a row text related to x: x in context, or x with one character substituted / dropped"""
    y = list(x)
    r = rng.random()
    if y and r < 0.45:
        i = rng.randrange(len(y))
        y[i] = rng.choice(ALPHABET + "x")
    elif y and r < 0.55:
        del y[rng.randrange(len(y))]
    elif r < 0.65:
        y.insert(rng.randrange(len(y) + 1), rng.choice(ALPHABET))
    if rng.random() < 0.5:
        y = [c.swapcase() for c in y]
    pre = "".join(rng.choice(ALPHABET) for _ in range(rng.choice([0, 0, 1, 1, 2])))
    post = "".join(rng.choice(ALPHABET) for _ in range(rng.choice([0, 0, 1, 1, 2])))
    return pre + "".join(y) + post


def gen_cases(rng, tier):
    cases = []
    strs = _strings(3)

    def add(x, s, combos, kind):
        cases.append({"in": [_S(x), _S(s), combos], "kind": kind})

    thorough = tier == "thorough"
    if thorough:
        for x in strs:
            for s in strs:
                add(x, s, AUTO_COMBOS, "pairs3")
    else:
        for _ in range(1800):
            add(rng.choice(strs), rng.choice(strs), AUTO_COMBOS, "pairs3")
        for _ in range(1800):
            x = rng.choice(strs)
            add(x, _near(rng, x)[:3] if rng.random() < 0.5 else _near(rng, x), AUTO_COMBOS, "near")
    # raw patterns (autoescape=False): validates the LIKE matcher itself
    for _ in range(3000 if thorough else 700):
        p = "".join(rng.choice("aA%_/%_") for _ in range(rng.randint(0, 4)))
        s = rng.choice(strs) if rng.random() < 0.5 else "".join(rng.choice("aA%_/") for _ in range(rng.randint(0, 4)))
        add(p, s, PLAIN_COMBOS, "plain")
    for _ in range(2000 if thorough else 400):
        x = rng.choice(strs)
        add(x, _near(rng, x), EXOTIC_COMBOS, "exotic")
    for _ in range(2000 if thorough else 300):
        x = "".join(rng.choice(ALPHABET + "b^") for _ in range(rng.randint(2, 6)))
        s = _near(rng, x)[:8]
        add(x, s, AUTO_COMBOS + [[1, _E("/")], [0, _E("^")]], "long")
    return cases


def nontrivial(c):
    x, s, combos = c["in"]
    xs = _unS(x)
    escs = {(_unS(e) or "/") for _, e in combos}
    return any(ch in "%_" or ch in escs or ch.isalpha() for ch in xs)


# ------------------------------------------------------------------ implementation side
_ST = {}


def _state():
    if _ST:
        return _ST
    from sqlalchemy import String, column, create_engine, event, func, select, table

    t = table("t", column("x", String))
    conns = []
    for pragma in ("ON", "OFF"):
        eng = create_engine("sqlite://")
        conn = eng.connect()
        conn.exec_driver_sql("create table t (x text)")
        conn.exec_driver_sql("insert into t (x) values ('')")
        conn.exec_driver_sql("PRAGMA case_sensitive_like=%s" % pragma)
        conns.append(conn)
    seen = []

    @event.listens_for(conns[0].engine, "before_cursor_execute")
    def _rec(conn, cursor, statement, parameters, context, executemany):
        seen.append((statement, parameters))

    _ST.update(t=t, on=conns[0], off=conns[1], seen=seen, select=select, func=func)
    return _ST


_ESC_RE = re.compile(r" ESCAPE '((?:[^']|'')*)'\)?$")


def impl(c):
    st = _state()
    t, on, off, seen, select, func = st["t"], st["on"], st["off"], st["seen"], st["select"], st["func"]
    x, s, combos = c["in"]
    xs, ss = _unS(x), _unS(s)
    on.exec_driver_sql("update t set x = ?", (ss,))
    off.exec_driver_sql("update t set x = ?", (ss,))
    out = []
    for auto, esc in combos:
        e = _unS(esc) if esc else None
        binds, rends, row = [], [], []
        for k, op in enumerate(OPS):
            expr = getattr(t.c.x, op)(xs, autoescape=bool(auto), escape=e)
            stmt = select(func.count()).select_from(t).where(expr)
            del seen[:]
            matched = int(on.execute(stmt).scalar())
            (sql, params), = seen
            if matched not in (0, 1) or len(params) != 1 or not isinstance(params[0], str):
                raise AssertionError("unexpected execution shape: %r %r %r" % (sql, params, matched))
            m = _ESC_RE.search(sql)
            rendered = m.group(1).replace("''", "'") if m else ""
            if k >= 3:
                # the i-variants must not depend on the LIKE case-sensitivity setting
                m_off = int(off.execute(stmt).scalar())
                if m_off != matched:
                    matched = 2 + matched
            if _S(params[0]) not in binds:
                binds.append(_S(params[0]))
            if _S(rendered) not in rends:
                rends.append(_S(rendered))
            row.append(matched)
        # the six operators send the same bind value and ESCAPE character: one entry each
        out.append([binds, rends, row])
    return out


def _py_test(k, x, s):
    if k >= 3:
        x, s = x.lower(), s.lower()
    return [x in s, s.startswith(x), s.endswith(x)][k % 3]


def oracle(c, obs):
    """C08 itself: with autoescape=True the operator matches the row iff the Python test holds"""
    x, s, combos = c["in"]
    xs, ss = _unS(x), _unS(s)
    known = None
    for (auto, esc), row in zip(combos, obs):
        if not auto:
            continue  # a hand-written pattern: wildcards are meant to be active
        e = _unS(esc) if esc else "/"
        for k, matched in enumerate(row[2]):
            want = _py_test(k, xs, ss)
            if matched == int(want):
                continue
            if e in "%_":
                tag = "wild-escape"
            elif k >= 3 and e.isascii() and e.isalpha():
                tag = "letter-escape-ci"
            else:
                tag = "unexpected"
            got = {0: "no match", 1: "match", 2: "no match with PRAGMA case_sensitive_like=ON but match with OFF",
                   3: "match with PRAGMA case_sensitive_like=ON but no match with OFF"}[matched]
            msg = "[%s] col.%s(%r, autoescape=True, escape=%r) on the row %r: %s, but the Python test is %s" % (
                tag, OPS[k], xs, (_unS(esc) if esc else None), ss, got, want)
            if tag == "unexpected":
                return msg
            known = known or msg
    return known


def match_finding(c, what):
    if what.startswith("[wild-escape]"):
        return "C08-wildcard-escape"
    if what.startswith("[letter-escape-ci]"):
        return "C08-letter-escape-ci"
    return None


def impl_facts():
    import sqlite3

    return {"sqlite": sqlite3.sqlite_version}


LEVEL_TEXT = (
    "Machine-checked proof (Coq) over the Gallina transcription of _escaped_like_impl and the six "
    "visit_*_op_binary renderings, against an executable SQL LIKE matcher: for all strings (unbounded) "
    "and every escape character outside the guard, operator == Python substring/prefix/suffix test "
    "(ASCII-folded for the i-variants); and the guard is exact - at every excluded escape character "
    "(% and _; ASCII letters for the i-variants) every operator is refuted by a witness. The tie to the "
    "code is a pinned source, regenerated replace/default/render tables, and execution of every "
    "correspondence case on SQLite."
)
LEVEL_NOTE = (
    "Trusted: Coq kernel; the LIKE matcher as a description of the backend (validated against SQLite "
    "3.40.1 on every case incl. raw patterns; PostgreSQL/MySQL not executable here); the hand "
    "transcription (pin + generated tables + correspondence). No axioms."
)
TECHNIQUE = (
    "Coq proof by induction on the operand (literal-segment lemma) + finite enumeration for guard "
    "exactness; ast->Gallina table translation; executed SQLite correspondence; direct oracle"
)
