"""C06 - identifier quoting round-trips every representable name.

T1: every dialect's reserved_words, legal_characters class, illegal_initial_characters, quote
characters, escape characters and "%"-doubling are extracted from the CURRENT source with `ast`
(closed expression vocabulary, fails closed) into build/C06/C06_tables.v together with the list of SQLite
keywords that need quoting, MEASURED on the live sqlite3 library.  The theorems of props/C06.v hold
for every table satisfying boolean side conditions; C06_obl.v evaluates these side conditions on the
regenerated tables with vm_compute and instantiates the theorems (per-run obligations).
"""
import ast
import os
import re
import sqlite3

ID = "C06"
LEVEL = "proof"
PROPS = "props/C06.v"
RUNNER = ("Gen.C06_tables", "run_case")
STATIC_MODULES = ["SAV.sql.IdentRun"]

DIALECTS = ["sqlite", "postgresql", "mysql", "mssql", "oracle", "mariadb"]

RULE = (
    "per dialect (sqlite/pysqlite, postgresql/psycopg2, mysql/mysqldb, mssql/pyodbc, oracle/cx_oracle, "
    "mariadb): quote() [also forced on/off], quote_identifier, _requires_quotes_illegal_chars on every "
    "reserved word of the dialect (+ an upper-cased and a newline-suffixed variant), every measured "
    "SQLite keyword, all strings of length <= 2 over a 9-letter alphabet of quote/escape/dot/percent/"
    "newline/case/digit characters and random strings over an alphabet weighted to those characters "
    "plus unicode (incl. U+0130 U+0131 U+017F U+212A); format_table/format_column with schema and "
    "unformat_identifiers of the result; unformat_identifiers on ALL strings of length <= 4 over "
    "{initial quote, final quote, '.', newline, 'a'} and random ones; the spec-side backend lexer against "
    "the live SQLite (CREATE TABLE <text> / INSERT / SELECT / sqlite_master, then as column name + PRAGMA "
    "table_info); DDLCompiler._prepared_index_name for schema-qualified index names and the SQLite CREATE INDEX / "
    "DROP INDEX text; on SQLite: ATTACH an in-memory database as schema <name>, create a table, a column and an "
    "index all called <name>, insert, select, reflect with Inspector (get_schema_names/get_table_names/"
    "get_columns/get_indexes), drop; in a second connection a table in schema <name> with an index and a unique "
    "constraint called <name>: CREATE INDEX schema.index, reflect, DROP INDEX schema.index, DROP TABLE; a UNIQUE "
    "constraint called <name> in schema <name> + get_unique_constraints (oracle only, no model).  non-trivial = the name needs "
    "quoting or escaping, or the text contains a quote character or a dot"
)
TRUSTED = [
    "hand-written Gallina transcription of IdentifierPreparer (_requires_quotes, quote, quote_identifier, "
    "_escape_identifier, _unescape_identifier, format_table/format_column joining, the _r_identifiers regex "
    "as an explicit splitter), pinned to the normalised source and compared behaviourally on every run",
    "T1 extractor specs/c06.py (ast -> tables); Python's re module is used to measure the legal-character "
    "class under the pattern's flags, str.lower() to tabulate lower-casing on that class",
    "backend identifier grammars: SQLite's is validated against the live library on every run; "
    "PostgreSQL/MySQL/MariaDB/MSSQL/Oracle grammars (bare identifier = ASCII letter/_/non-ASCII start, "
    "then also digits and $; doubled closing quote; ASCII case folding lower/none/none/none/upper) are "
    "transcribed from their documentation and deliberately conservative",
    "format/pyformat DBAPI drivers collapse %% to % in the statement text",
]
ASSUMPTIONS = [
    "the keyword sets of PostgreSQL/MySQL/MariaDB/MSSQL/Oracle are assumed to be contained in the dialect's "
    "own reserved_words (no server to measure); for SQLite the inclusion is measured and proved per run",
    "names are non-empty (the empty name raises IndexError: lemma c06_empty_name_index_error), contain no NUL "
    "and no surrogate code points and, on SQLite, do not start with sqlite_ (not representable)",
    "MSSQL schema names are dotted database.owner paths by design (_schema_elements) and are not covered; "
    "Oracle's normalize_name/denormalize_name convention (all-upper == case-insensitive) is not covered",
]
ANCHORS = [
    ("lib/sqlalchemy/sql/compiler.py", "IdentifierPreparer.__init__"),
    ("lib/sqlalchemy/sql/compiler.py", "IdentifierPreparer._escape_identifier"),
    ("lib/sqlalchemy/sql/compiler.py", "IdentifierPreparer._unescape_identifier"),
    ("lib/sqlalchemy/sql/compiler.py", "IdentifierPreparer.quote_identifier"),
    ("lib/sqlalchemy/sql/compiler.py", "IdentifierPreparer._requires_quotes"),
    ("lib/sqlalchemy/sql/compiler.py", "IdentifierPreparer._requires_quotes_illegal_chars"),
    ("lib/sqlalchemy/sql/compiler.py", "IdentifierPreparer.quote_schema"),
    ("lib/sqlalchemy/sql/compiler.py", "IdentifierPreparer.quote"),
    ("lib/sqlalchemy/sql/compiler.py", "IdentifierPreparer.format_table"),
    ("lib/sqlalchemy/sql/compiler.py", "IdentifierPreparer.format_column"),
    ("lib/sqlalchemy/sql/compiler.py", "IdentifierPreparer.format_schema"),
    ("lib/sqlalchemy/sql/compiler.py", "IdentifierPreparer.format_index"),
    ("lib/sqlalchemy/sql/compiler.py", "IdentifierPreparer.format_constraint"),
    ("lib/sqlalchemy/sql/compiler.py", "IdentifierPreparer.truncate_and_render_index_name"),
    ("lib/sqlalchemy/sql/compiler.py", "IdentifierPreparer._truncate_and_render_maxlen_name"),
    ("lib/sqlalchemy/sql/compiler.py", "DDLCompiler._prepared_index_name"),
    ("lib/sqlalchemy/sql/compiler.py", "DDLCompiler.visit_create_index"),
    ("lib/sqlalchemy/sql/compiler.py", "DDLCompiler.visit_drop_index"),
    ("lib/sqlalchemy/dialects/sqlite/base.py", "SQLiteDDLCompiler.visit_create_index"),
    ("lib/sqlalchemy/sql/compiler.py", "IdentifierPreparer._r_identifiers"),
    ("lib/sqlalchemy/sql/compiler.py", "IdentifierPreparer.unformat_identifiers"),
    ("lib/sqlalchemy/dialects/mssql/base.py", "MSIdentifierPreparer._escape_identifier"),
    ("lib/sqlalchemy/dialects/mssql/base.py", "MSIdentifierPreparer._unescape_identifier"),
    ("lib/sqlalchemy/dialects/mysql/_mariadb_shim.py", "MariaDBIdentifierPreparerShim"),
]

# ---------------------------------------------------------------------------------------------
# configurations: dialect class chain (for default_paramstyle) and preparer class chain (MRO order)
D = "lib/sqlalchemy/dialects/"
CONFIGS = {
    "sqlite": {
        "dialect": [(D + "sqlite/pysqlite.py", "SQLiteDialect_pysqlite"), (D + "sqlite/base.py", "SQLiteDialect"),
                    ("lib/sqlalchemy/engine/default.py", "DefaultDialect")],
        "preparer": [(D + "sqlite/base.py", "SQLiteIdentifierPreparer"), ("lib/sqlalchemy/sql/compiler.py", "IdentifierPreparer")],
    },
    "postgresql": {
        "dialect": [(D + "postgresql/psycopg2.py", "PGDialect_psycopg2"), (D + "postgresql/_psycopg_common.py", "_PGDialect_common_psycopg"),
                    (D + "postgresql/base.py", "PGDialect"), ("lib/sqlalchemy/engine/default.py", "DefaultDialect")],
        "preparer": [(D + "postgresql/psycopg2.py", "PGIdentifierPreparer_psycopg2"), (D + "postgresql/base.py", "PGIdentifierPreparer"),
                     ("lib/sqlalchemy/sql/compiler.py", "IdentifierPreparer")],
    },
    "mysql": {
        "dialect": [(D + "mysql/mysqldb.py", "MySQLDialect_mysqldb"), (D + "mysql/base.py", "MySQLDialect"),
                    (D + "mysql/_mariadb_shim.py", "MariaDBShim"), ("lib/sqlalchemy/engine/default.py", "DefaultDialect")],
        "preparer": [(D + "mysql/base.py", "MySQLIdentifierPreparer"), (D + "mysql/_mariadb_shim.py", "MariaDBIdentifierPreparerShim"),
                     ("lib/sqlalchemy/sql/compiler.py", "IdentifierPreparer")],
    },
    "mssql": {
        "dialect": [(D + "mssql/pyodbc.py", "MSDialect_pyodbc"), ("lib/sqlalchemy/connectors/pyodbc.py", "PyODBCConnector"),
                    (D + "mssql/base.py", "MSDialect"), ("lib/sqlalchemy/engine/default.py", "DefaultDialect")],
        "preparer": [(D + "mssql/base.py", "MSIdentifierPreparer"), ("lib/sqlalchemy/sql/compiler.py", "IdentifierPreparer")],
    },
    "oracle": {
        "dialect": [(D + "oracle/cx_oracle.py", "OracleDialect_cx_oracle"), (D + "oracle/base.py", "OracleDialect"),
                    ("lib/sqlalchemy/engine/default.py", "DefaultDialect")],
        "preparer": [(D + "oracle/base.py", "OracleIdentifierPreparer"), ("lib/sqlalchemy/sql/compiler.py", "IdentifierPreparer")],
    },
}
CONFIGS["mariadb"] = dict(CONFIGS["mysql"], mariadb=True)


class C06TranslateError(Exception):
    pass


def _fail(msg):
    raise C06TranslateError(msg)


class _Src:
    def __init__(self, repo):
        self.repo = repo
        self.mods = {}

    def mod(self, rel):
        if rel not in self.mods:
            with open(os.path.join(self.repo, rel)) as f:
                self.mods[rel] = ast.parse(f.read())
        return self.mods[rel]

    def cls(self, rel, name):
        for n in self.mod(rel).body:
            if isinstance(n, ast.ClassDef) and n.name == name:
                return n
        _fail("class %s not found in %s" % (name, rel))

    def module_assign(self, rel, name):
        """value expression of the last module-level assignment to `name`, following `from .x import name`"""
        found = None
        for n in self.mod(rel).body:
            if isinstance(n, ast.Assign) and len(n.targets) == 1 and isinstance(n.targets[0], ast.Name) and n.targets[0].id == name:
                found = (rel, n.value)
            elif isinstance(n, ast.AnnAssign) and isinstance(n.target, ast.Name) and n.target.id == name and n.value is not None:
                found = (rel, n.value)
            elif isinstance(n, ast.ImportFrom) and any((a.asname or a.name) == name for a in n.names):
                if n.level != 1 or not n.module or "." in n.module:
                    _fail("unsupported import of %s in %s" % (name, rel))
                orig = [a.name for a in n.names if (a.asname or a.name) == name][0]
                found = self.module_assign(os.path.join(os.path.dirname(rel), n.module + ".py"), orig)
        if found is None:
            _fail("module-level name %s not found in %s" % (name, rel))
        return found


def _class_assign(cnode, attr):
    found = None
    for n in cnode.body:
        if isinstance(n, ast.Assign) and len(n.targets) == 1 and isinstance(n.targets[0], ast.Name) and n.targets[0].id == attr:
            found = n.value
        elif isinstance(n, ast.AnnAssign) and isinstance(n.target, ast.Name) and n.target.id == attr and n.value is not None:
            found = n.value
    return found


def _class_def(cnode, name):
    found = None
    for n in cnode.body:
        if isinstance(n, ast.FunctionDef) and n.name == name:
            found = n
    return found


def _check_chain(src, chain):
    """every base of every class of the chain is a later element of the chain (or a known non-participant):
    the chain is then the MRO as far as the extracted attributes are concerned"""
    names = [c for _, c in chain]
    outside = ("_BackendsMultiReflection", "Connector", "Dialect")
    for i, (rel, cname) in enumerate(chain[:-1]):
        bases = []
        for b in src.cls(rel, cname).bases:
            bases.append(b.id if isinstance(b, ast.Name) else b.attr if isinstance(b, ast.Attribute) else None)
        extra = [b for b in bases if b not in names[i + 1:] and b not in outside]
        if extra or not bases:
            _fail("class %s has bases %s outside the modelled chain %s" % (cname, bases, names))


class _Regex:
    def __init__(self, pattern, flags):
        self.pattern, self.flags = pattern, flags


def _eval(src, rel, node, env=None):
    """closed vocabulary evaluator of the table expressions; anything else fails closed"""
    env = env or {}
    ev = lambda n: _eval(src, rel, n, env)
    if isinstance(node, ast.Constant) and isinstance(node.value, (str, int)) and not isinstance(node.value, bool):
        return node.value
    if isinstance(node, ast.Set):
        return {ev(e) for e in node.elts}
    if isinstance(node, (ast.List, ast.Tuple)):
        return [ev(e) for e in node.elts]
    if isinstance(node, ast.Name):
        if node.id in env:
            return env[node.id]
        r2, expr = src.module_assign(rel, node.id)
        return _eval(src, r2, expr)
    if isinstance(node, ast.Attribute) and isinstance(node.value, ast.Name) and node.value.id == "re" and node.attr in ("I", "IGNORECASE"):
        return re.I
    if isinstance(node, ast.SetComp) and len(node.generators) == 1 and not node.generators[0].ifs and isinstance(node.generators[0].target, ast.Name):
        g = node.generators[0]
        return {_eval(src, rel, node.elt, dict(env, **{g.target.id: x})) for x in ev(g.iter)}
    if isinstance(node, ast.Call) and not node.keywords:
        f = node.func
        args = node.args
        if isinstance(f, ast.Name) and f.id == "set" and len(args) == 1:
            return set(ev(args[0]))
        if isinstance(f, ast.Name) and f.id == "str" and len(args) == 1:
            return str(ev(args[0]))
        if isinstance(f, ast.Name) and f.id == "range" and len(args) == 2:
            return list(range(ev(args[0]), ev(args[1])))
        if isinstance(f, ast.Attribute) and isinstance(f.value, ast.Name) and f.value.id == "re" and f.attr == "compile" and len(args) in (1, 2):
            pat = ev(args[0])
            fl = ev(args[1]) if len(args) == 2 else 0
            if not isinstance(pat, str) or fl not in (0, re.I):
                _fail("unsupported regular expression %r flags %r" % (pat, fl))
            return _Regex(pat, fl)
        if isinstance(f, ast.Attribute) and f.attr == "split" and not args:
            v = ev(f.value)
            if isinstance(v, str):
                return v.split()
        if isinstance(f, ast.Attribute) and f.attr == "lower" and not args:
            v = ev(f.value)
            if isinstance(v, str):
                return v.lower()
        if isinstance(f, ast.Attribute) and f.attr == "union" and len(args) == 1:
            v = ev(f.value)
            if isinstance(v, set):
                return v.union(ev(args[0]))
    _fail("unsupported table expression in %s: %s" % (rel, ast.unparse(node)[:200]))


def _lookup_attr(src, chain, attr):
    for rel, cname in chain:
        v = _class_assign(src.cls(rel, cname), attr)
        if v is not None:
            return rel, v
    _fail("attribute %s not found in chain %s" % (attr, [c for _, c in chain]))


def _lookup_def(src, chain, name):
    for rel, cname in chain:
        v = _class_def(src.cls(rel, cname), name)
        if v is not None:
            return rel, cname, v
    _fail("method %s not found in chain %s" % (name, [c for _, c in chain]))


_CLASS_CACHE = {}


def _legal_class(rx):
    """the character class C of ^[C]+\\Z as sorted code point ranges, measured with the pattern's flags"""
    m = re.fullmatch(r"\^(\[(?:[^\]\\]|\\.)+\])\+\\Z", rx.pattern)
    if not m:
        # (a "$" anchor would also match before a final newline: the model has no such branch since 67008c4)
        _fail("legal_characters pattern %r is not of the form ^[...]+\\Z" % rx.pattern)
    key = (m.group(1), rx.flags)
    if key not in _CLASS_CACHE:
        one = re.compile(m.group(1), rx.flags)
        cps = [c for c in range(0x110000) if one.fullmatch(chr(c))]
        if len(cps) > 5000:
            _fail("legal character class has %d members" % len(cps))
        ranges = []
        for c in cps:
            if ranges and ranges[-1][1] == c - 1:
                ranges[-1][1] = c
            else:
                ranges.append([c, c])
        lower = []
        for c in cps:
            lo = chr(c).lower()
            if lo != chr(c):
                lower.append((c, [ord(x) for x in lo]))
        _CLASS_CACHE[key] = ([tuple(r) for r in ranges], lower)
    return _CLASS_CACHE[key]


def _one_char(s, what):
    if not isinstance(s, str) or len(s) != 1:
        _fail("%s is %r, not a single character" % (what, s))
    return ord(s)


def _base_init(src):
    """defaults of IdentifierPreparer.__init__ and the paramstyles that switch on "%" doubling.
    The body itself (final_quote or initial_quote, escape_to_quote = escape_quote * 2) is pinned."""
    fn = _class_def(src.cls("lib/sqlalchemy/sql/compiler.py", "IdentifierPreparer"), "__init__")
    names = [a.arg for a in fn.args.args]
    defaults = dict(zip(names[len(names) - len(fn.args.defaults):], fn.args.defaults))
    out = {}
    for k in ("initial_quote", "final_quote", "escape_quote"):
        if k not in defaults or not isinstance(defaults[k], ast.Constant):
            _fail("IdentifierPreparer.__init__ default of %s not a constant" % k)
        out[k] = defaults[k].value
    styles = None
    for n in ast.walk(fn):
        if (isinstance(n, ast.Assign) and isinstance(n.targets[0], ast.Attribute) and n.targets[0].attr == "_double_percents"
                and isinstance(n.value, ast.Compare) and len(n.value.ops) == 1 and isinstance(n.value.ops[0], ast.In)
                and ast.unparse(n.value.left) == "self.dialect.paramstyle"):
            styles = _eval(src, "lib/sqlalchemy/sql/compiler.py", n.value.comparators[0])
    if styles is None:
        _fail("IdentifierPreparer.__init__: _double_percents assignment not recognised")
    out["pct_styles"] = list(styles)
    return out


def _sub_init(src, rel, fn, base):
    """tiny interpreter of a dialect preparer __init__: parameter defaults, `if [not] NAME: x = const else: x = const`,
    one super().__init__(dialect, kw=const-or-name...), `self._double_percents = const`"""
    env = {}
    names = [a.arg for a in fn.args.args]
    for a, d in zip(names[len(names) - len(fn.args.defaults):], fn.args.defaults):
        if not isinstance(d, ast.Constant):
            _fail("__init__ default of %s not a constant" % a)
        env[a] = d.value
    kw = {}
    forced_pct = None
    seen_super = False

    def val(n):
        if isinstance(n, ast.Constant):
            return n.value
        if isinstance(n, ast.Name) and n.id in env:
            return env[n.id]
        _fail("unsupported __init__ expression %s" % ast.unparse(n))

    def run(stmts):
        nonlocal forced_pct, seen_super
        for s in stmts:
            if isinstance(s, ast.Expr) and isinstance(s.value, ast.Constant):
                continue
            if isinstance(s, ast.If):
                t = s.test
                neg = isinstance(t, ast.UnaryOp) and isinstance(t.op, ast.Not)
                c = val(t.operand) if neg else val(t)
                run(s.body if bool(c) != neg else s.orelse)
                continue
            if isinstance(s, ast.Assign) and len(s.targets) == 1 and isinstance(s.targets[0], ast.Name):
                env[s.targets[0].id] = val(s.value)
                continue
            if (isinstance(s, ast.Assign) and len(s.targets) == 1 and ast.unparse(s.targets[0]) == "self._double_percents"
                    and isinstance(s.value, ast.Constant)):
                forced_pct = bool(s.value.value)
                continue
            if isinstance(s, ast.Expr) and isinstance(s.value, ast.Call) and ast.unparse(s.value.func) in ("super().__init__",) and not seen_super:
                seen_super = True
                if len(s.value.args) != 1:
                    _fail("unsupported super().__init__ call: %s" % ast.unparse(s))
                for k in s.value.keywords:
                    if k.arg is None:
                        _fail("unsupported **kw in super().__init__")
                    kw[k.arg] = val(k.value)
                continue
            _fail("unsupported statement in %s.__init__: %s" % (rel, ast.unparse(s)[:120]))

    run(fn.body)
    if not seen_super:
        _fail("no super().__init__ call")
    out = dict(base)
    for k in ("initial_quote", "final_quote", "escape_quote"):
        if k in kw:
            out[k] = kw[k]
    out["forced_pct"] = forced_pct
    return out


def _replace_override(fn):
    """`return value.replace(C1, C2)` -> (C1, C2)"""
    body = [s for s in fn.body if not (isinstance(s, ast.Expr) and isinstance(s.value, ast.Constant))]
    if (len(body) == 1 and isinstance(body[0], ast.Return) and isinstance(body[0].value, ast.Call)
            and ast.unparse(body[0].value.func) == "value.replace" and len(body[0].value.args) == 2
            and all(isinstance(a, ast.Constant) and isinstance(a.value, str) for a in body[0].value.args)):
        return body[0].value.args[0].value, body[0].value.args[1].value
    _fail("unsupported override %s: %s" % (fn.name, ast.unparse(fn)[:200]))


def extract_tables(repo):
    src = _Src(repo)
    base = _base_init(src)
    base_rel = "lib/sqlalchemy/sql/compiler.py"
    tables = {}
    for name in DIALECTS:
        cfg = CONFIGS[name]
        _check_chain(src, cfg["dialect"])
        _check_chain(src, cfg["preparer"])
        chain = cfg["preparer"]
        # reserved words
        rel, expr = _lookup_attr(src, chain, "reserved_words")
        if cfg.get("mariadb"):
            fn = _class_def(src.cls(D + "mysql/_mariadb_shim.py", "MariaDBIdentifierPreparerShim"), "_set_mariadb")
            if fn is None or len(fn.body) != 1 or not isinstance(fn.body[0], ast.Assign) or ast.unparse(fn.body[0].targets[0]) != "self.reserved_words":
                _fail("MariaDBIdentifierPreparerShim._set_mariadb not recognised")
            rel, expr = D + "mysql/_mariadb_shim.py", fn.body[0].value
        reserved = _eval(src, rel, expr)
        if not isinstance(reserved, set) or not all(isinstance(w, str) for w in reserved):
            _fail("%s reserved_words is not a set of strings" % name)
        # legal characters / illegal initial characters
        rel, expr = _lookup_attr(src, chain, "legal_characters")
        rx = _eval(src, rel, expr)
        if not isinstance(rx, _Regex):
            _fail("legal_characters is not a compiled pattern")
        ranges, lower = _legal_class(rx)
        rel, expr = _lookup_attr(src, chain, "illegal_initial_characters")
        ill = _eval(src, rel, expr)
        ill = sorted(_one_char(c, "illegal initial character") for c in ill)
        # quote characters
        irel, icls, ifn = _lookup_def(src, chain, "__init__")
        ini = dict(base, forced_pct=None) if icls == "IdentifierPreparer" else _sub_init(src, irel, ifn, base)
        iq = _one_char(ini["initial_quote"], "initial_quote")
        fq = _one_char(ini["final_quote"] or ini["initial_quote"], "final_quote")
        eq = _one_char(ini["escape_quote"], "escape_quote")
        # paramstyle -> _double_percents
        _, pexpr = _lookup_attr(src, cfg["dialect"], "default_paramstyle")
        paramstyle = _eval(src, base_rel, pexpr)
        dbl = paramstyle in base["pct_styles"] if ini["forced_pct"] is None else ini["forced_pct"]
        # escape / unescape (generic methods are pinned; overrides must be value.replace(C, CC) / (CC, C))
        _, ecls, efn = _lookup_def(src, chain, "_escape_identifier")
        if ecls == "IdentifierPreparer":
            esc, esc_pct = eq, dbl
        else:
            a, b2 = _replace_override(efn)
            if len(a) != 1 or b2 != a * 2:
                _fail("%s._escape_identifier override is not replace(c, cc)" % ecls)
            esc, esc_pct = ord(a), False
        _, ucls, ufn = _lookup_def(src, chain, "_unescape_identifier")
        if ucls == "IdentifierPreparer":
            unesc = eq
        else:
            a, b2 = _replace_override(ufn)
            if len(b2) != 1 or a != b2 * 2:
                _fail("%s._unescape_identifier override is not replace(cc, c)" % ucls)
            unesc = ord(b2)
        # the model's transcription of _r_identifiers assumes _escape_identifier(final_quote) == final_quote*2
        if esc != fq:
            _fail("%s: _escape_identifier does not double the final quote; _r_identifiers model not applicable" % name)
        tables[name] = {
            "reserved": sorted(reserved), "legal": ranges, "lower": lower, "illegal_initial": ill,
            "iq": iq, "fq": fq, "esc": esc, "unesc": unesc, "esc_pct": bool(esc_pct), "paramstyle": paramstyle,
        }
    return tables


# ---------------------------------------------------------------------------------------------
# SQLite keyword measurement (candidates: https://sqlite.org/lang_keywords.html + the boolean/rowid names)
SQLITE_KEYWORD_CANDIDATES = """ABORT ACTION ADD AFTER ALL ALTER ALWAYS ANALYZE AND AS ASC ATTACH AUTOINCREMENT BEFORE BEGIN
BETWEEN BY CASCADE CASE CAST CHECK COLLATE COLUMN COMMIT CONFLICT CONSTRAINT CREATE CROSS CURRENT CURRENT_DATE
CURRENT_TIME CURRENT_TIMESTAMP DATABASE DEFAULT DEFERRABLE DEFERRED DELETE DESC DETACH DISTINCT DO DROP EACH ELSE END
ESCAPE EXCEPT EXCLUDE EXCLUSIVE EXISTS EXPLAIN FAIL FILTER FIRST FOLLOWING FOR FOREIGN FROM FULL GENERATED GLOB GROUP
GROUPS HAVING IF IGNORE IMMEDIATE IN INDEX INDEXED INITIALLY INNER INSERT INSTEAD INTERSECT INTO IS ISNULL JOIN KEY
LAST LEFT LIKE LIMIT MATCH MATERIALIZED NATURAL NO NOT NOTHING NOTNULL NULL NULLS OF OFFSET ON OR ORDER OTHERS OUTER
OVER PARTITION PLAN PRAGMA PRECEDING PRIMARY QUERY RAISE RANGE RECURSIVE REFERENCES REGEXP REINDEX RELEASE RENAME
REPLACE RESTRICT RETURNING RIGHT ROLLBACK ROW ROWS SAVEPOINT SELECT SET TABLE TEMP TEMPORARY THEN TIES TO TRANSACTION
TRIGGER UNBOUNDED UNION UNIQUE UPDATE USING VACUUM VALUES VIEW VIRTUAL WHEN WHERE WINDOW WITH WITHOUT
TRUE FALSE ROWID OID _ROWID_ STORED STRICT""".split()

_KW_CACHE = {}


def measure_sqlite_keywords():
    """every candidate word is tried bare as a column name and as a table name in CREATE TABLE / INSERT /
    SELECT / UPDATE on the live library; the words for which any statement fails need quoting"""
    if "kw" in _KW_CACHE:
        return _KW_CACHE["kw"]
    need = []
    for w in sorted({k.lower() for k in SQLITE_KEYWORD_CANDIDATES}):
        c = sqlite3.connect(":memory:")
        ok = True
        try:
            c.execute("create table t_x (%s integer, other integer)" % w)
            c.execute("insert into t_x (%s, other) values (1, 2)" % w)
            if c.execute("select %s, other from t_x where %s = 1 order by %s" % (w, w, w)).fetchall() != [(1, 2)]:
                ok = False
            c.execute("update t_x set %s = 5 where %s = 1" % (w, w))
            if c.execute("select t_x.%s from t_x" % w).fetchall() != [(5,)]:
                ok = False
            c.execute("create table %s (a integer)" % w)
            c.execute("insert into %s (a) values (3)" % w)
            if c.execute("select a from %s" % w).fetchall() != [(3,)]:
                ok = False
            names = {r[0] for r in c.execute("select name from sqlite_master")}
            cols = [r[1] for r in c.execute("pragma table_info(t_x)")]
            if names != {"t_x", w} or cols != [w, "other"]:
                ok = False
        except sqlite3.Error:
            ok = False
        finally:
            c.close()
        if not ok:
            need.append(w)
    _KW_CACHE["kw"] = need
    return need


# ---------------------------------------------------------------------------------------------
# generated Coq file
# backend grammars (spec side): quote characters, whether the DBAPI %-formats the statement text,
# (start ranges, continuation ranges, fold).  NOT taken from the source under test.
_QUOTES = {"sqlite": ('"', '"'), "postgresql": ('"', '"'), "mysql": ("`", "`"), "mssql": ("[", "]"), "oracle": ('"', '"'), "mariadb": ("`", "`")}
_PCT_DIALECTS = ("postgresql", "mysql", "mariadb")
_NONASCII = (128, 0x10FFFF)
_BACKENDS = {
    "sqlite": ([(65, 90), (95, 95), (97, 122), _NONASCII], [(36, 36), (48, 57), (65, 90), (95, 95), (97, 122), _NONASCII], "FoldNone"),
    "postgresql": ([(65, 90), (95, 95), (97, 122), _NONASCII], [(36, 36), (48, 57), (65, 90), (95, 95), (97, 122), _NONASCII], "FoldLower"),
    "mysql": ([(65, 90), (95, 95), (97, 122), _NONASCII], [(36, 36), (48, 57), (65, 90), (95, 95), (97, 122), _NONASCII], "FoldNone"),
    "mariadb": ([(65, 90), (95, 95), (97, 122), _NONASCII], [(36, 36), (48, 57), (65, 90), (95, 95), (97, 122), _NONASCII], "FoldNone"),
    "mssql": ([(65, 90), (95, 95), (97, 122), _NONASCII], [(36, 36), (48, 57), (65, 90), (95, 95), (97, 122), _NONASCII], "FoldNone"),
    "oracle": ([(65, 90), (97, 122), _NONASCII], [(35, 36), (48, 57), (65, 90), (95, 95), (97, 122), _NONASCII], "FoldUpper"),
}


def _cs(s):
    return "[" + "; ".join(str(ord(c)) for c in s) + "]"


def _cl(l):
    return "[" + "; ".join(str(x) for x in l) + "]"


def _cr(rs):
    return "[" + "; ".join("(%d, %d)" % (a, b) for a, b in rs) + "]"


def gen_v(tables, kw):
    """two files: C06_tables.v (the regenerated tables + run_case) and C06_obl.v (the per-run obligations)"""
    o = []
    o.append("(* GENERATED on every run by specs/c06.py from the current source - do not edit *)")
    o.append("From Coq Require Import List NArith Bool.\nImport ListNotations.")
    o.append("From SAV.base Require Import Tree.\nFrom SAV.sql Require Import Ident IdentRun.\nOpen Scope N_scope.\n")
    o.append("(* SQLite keywords that need quoting, measured on the live library (sqlite %s) *)" % sqlite3.sqlite_version)
    o.append("Definition sqlite_kw_measured : list str := [\n  %s]." % ";\n  ".join(_cs(w) for w in kw))
    q = []
    q.append("(* GENERATED on every run by specs/c06.py - per-run obligations on the regenerated tables *)")
    q.append("From Coq Require Import List NArith Bool.\nImport ListNotations.")
    q.append("From SAV.sql Require Import Ident IdentProofs.\nRequire Import Gen.C06_tables.\nOpen Scope N_scope.\n")
    for name in DIALECTS:
        t = tables[name]
        o.append("\nDefinition t_%s : prep := {|" % name)
        o.append("  p_reserved := [\n    %s];" % ";\n    ".join(_cs(w) for w in t["reserved"]))
        o.append("  p_legal := %s;" % _cr(t["legal"]))
        o.append("  p_illegal_initial := %s;" % _cl(t["illegal_initial"]))
        o.append("  p_lower := [%s];" % "; ".join("(%d, %s)" % (c, _cl(l)) for c, l in t["lower"]))
        o.append("  p_iq := %d; p_fq := %d; p_esc := %d; p_unesc := %d; p_esc_pct := %s |}." % (
            t["iq"], t["fq"], t["esc"], t["unesc"], "true" if t["esc_pct"] else "false"))
        st, ct, fold = _BACKENDS[name]
        kwexpr = "sqlite_kw_measured" if name == "sqlite" else "p_reserved t_%s" % name
        o.append("(* the backend grammar is NOT taken from the source under test *)")
        o.append("Definition b_%s (kw : list str) : backend := {| b_iq := %d; b_fq := %d; b_start := %s; b_cont := %s; b_kw := kw; b_fold := %s; b_pct := %s |}."
                 % (name, ord(_QUOTES[name][0]), ord(_QUOTES[name][1]), _cr(st), _cr(ct), fold, "true" if name in _PCT_DIALECTS else "false"))
        o = o
        q.append("\n(* ---- %s ---- *)" % name)
        q.append("Lemma wf_%s : wf_prep t_%s = true.\nProof. vm_compute; reflexivity. Qed." % (name, name))
        q.append("Lemma compat_%s : compat t_%s (b_%s (%s)) = true.\nProof. vm_compute; reflexivity. Qed." % (name, name, name, kwexpr))
        if name == "sqlite":
            q.append("(* every measured SQLite keyword that needs quoting is in the regenerated RESERVED_WORDS *)")
            q.append("Theorem reserved_complete_sqlite : forall w, In w sqlite_kw_measured -> In w (p_reserved t_sqlite).")
            q.append("Proof. apply reserved_complete. vm_compute; reflexivity. Qed.")
            q.append("Theorem quote_lexes_back_sqlite : forall v, v <> [] ->")
            q.append("  exists q, quote t_sqlite v = Ok q /\\ lex_sent (b_sqlite sqlite_kw_measured) q = Some v.")
            q.append("Proof. intros v H1. destruct (quote_lexes_back _ _ wf_sqlite compat_sqlite v H1) as [q [Hq Hl]].")
            q.append("  exists q. split; auto. rewrite Hl. f_equal.")
            q.append("  apply (stored_identity _ _ wf_sqlite compat_sqlite). discriminate. Qed.")
        else:
            q.append("(* for every keyword set of the backend that the dialect's list covers *)")
            q.append("Theorem quote_lexes_back_%s : forall kw, (forall w, In w kw -> In w (p_reserved t_%s)) ->" % (name, name))
            q.append("  forall v, v <> [] ->")
            q.append("  exists q, quote t_%s v = Ok q /\\ lex_sent (b_%s kw) q = Some (stored t_%s (b_%s kw) v)." % (name, name, name, name))
            q.append("Proof. intros kw Hkw. apply quote_lexes_back; [exact wf_%s|]." % name)
            q.append("  exact (compat_kw_incl _ _ compat_%s kw Hkw). Qed." % name)
        if t["esc_pct"]:
            q.append("Theorem unformat_format_%s_guarded : forall names text, format_path t_%s names = Ok text ->" % (name, name))
            q.append("  Forall (fun v => ~ In pct v) names -> Forall (fun v => v <> []) names -> unformat t_%s text = Some names." % name)
            q.append("Proof. intros names text H Hg Hne. apply (unformat_format_guarded _ wf_%s names text H); auto. right; auto. Qed." % name)
            q.append("Theorem unformat_format_%s_refuted : format_path t_%s [[97; 37; 98]] = Ok [%d; 97; 37; 37; 98; %d]"
                     % (name, name, t["iq"], t["fq"]))
            q.append("  /\\ unformat t_%s [%d; 97; 37; 37; 98; %d] = Some [[97; 37; 37; 98]]." % (name, t["iq"], t["fq"]))
            q.append("Proof. vm_compute. split; reflexivity. Qed.")
        else:
            q.append("Theorem unformat_format_%s : forall names text, format_path t_%s names = Ok text ->" % (name, name))
            q.append("  Forall (fun v => v <> []) names -> unformat t_%s text = Some names." % name)
            q.append("Proof. intros names text H Hne. apply (unformat_format_guarded _ wf_%s names text H); auto. left; reflexivity. Qed." % name)
        q.append("(* a final newline is quoted (fix 67008c4) *)")
        q.append("Theorem quote_nl_%s : quote t_%s [97; 10] = Ok [%d; 97; 10; %d] /\\ lex_sent (b_%s []) [%d; 97; 10; %d] = Some [97; 10]."
                 % (name, name, t["iq"], t["fq"], name, t["iq"], t["fq"]))
        q.append("Proof. vm_compute. split; reflexivity. Qed.")
    o.append("\nDefinition tables : list (prep * backend) := [%s]." % "; ".join(
        "(t_%s, b_%s (%s))" % (n, n, "sqlite_kw_measured" if n == "sqlite" else "p_reserved t_%s" % n) for n in DIALECTS))
    o.append("Definition run_case (t : tree) : tree := run_case_with tables t.")
    return "\n".join(o) + "\n", "\n".join(q) + "\n"


_FACTS = {}


def translate(repo, outdir):
    from translate import fingerprint

    fingerprint.check(repo, ANCHORS, "C06")
    if os.environ.get("VERIF_PIN") == "1":
        return []
    tables = extract_tables(repo)
    kw = measure_sqlite_keywords()
    _FACTS.update({"sqlite_version": sqlite3.sqlite_version, "sqlite_keywords_needing_quotes": len(kw),
                   "sqlite_keyword_candidates": len(set(SQLITE_KEYWORD_CANDIDATES))})
    tv, ov = gen_v(tables, kw)
    paths = [os.path.join(outdir, "C06_tables.v"), os.path.join(outdir, "C06_obl.v")]
    for pth, txt in zip(paths, (tv, ov)):
        with open(pth, "w") as f:
            f.write(txt)
    return paths


# ---------------------------------------------------------------------------------------------
# cases
def _S(s):
    return [ord(c) for c in s]


def _U(t):
    return "".join(chr(c) for c in t)


_ODD = ["İ", "ı", "ſ", "K"]
_BINDLIKE = re.compile(r"%\(([^)]+?)\)s|__\[POSTCOMPILE_(\S+?)(~~.+?~~)?\]")


def _alphabet(dname):
    iq, fq = _QUOTES[dname]
    return ([iq, fq] * 3 + ['"', "`", "[", "]", "'"] + [".", "%", "\n"] * 3 + [" ", "\t", "-", ":", "\\"]
            + list("abxABZ") * 2 + list("019_$") * 2 + ["é", "É", "中", "\U0001F600"] + _ODD)


def _rand_name(rng, dname, words, maxlen=8):
    r = rng.random()
    if r < 0.15 and words:
        w = rng.choice(words)
        k = rng.random()
        if k < 0.3:
            return w.upper()
        if k < 0.5:
            return w.capitalize()
        if k < 0.6:
            return w + "\n"
        if k < 0.7:
            return w + rng.choice(["%", ".", " ", "1", "_"])
        return w
    if r < 0.30:  # mostly legal characters: exercises the bare path, initial characters, case
        n = rng.randint(1, maxlen)
        s = "".join(rng.choice("abcxyABZ019_$" + "".join(_ODD)) for _ in range(n))
        return s + ("\n" if rng.random() < 0.15 else "")
    a = _alphabet(dname)
    return "".join(rng.choice(a) for _ in range(rng.randint(1, maxlen)))


def _tables_for_cases():
    from vlib.common import repo

    try:
        return extract_tables(repo())
    except Exception:
        return None


_FALLBACK_WORDS = ["select", "table", "returning", "nothing", "order", "user", "index", "key", "offset", "true"]


def _words(tabs, dname):
    if tabs is None:
        return list(_FALLBACK_WORDS)
    return list(tabs[dname]["reserved"])


def _sqlite_name_ok(name):
    """representable on the executable backend and not colliding with the harness's own column"""
    return (name != "" and "\x00" not in name and not name.lower().startswith("sqlite_")
            and name.lower() not in ("zz_other", "zz_t2", "zz_t")
            and not any(0xD800 <= ord(c) <= 0xDFFF for c in name))


def _strings_upto(alpha, n):
    out = [""]
    layer = [""]
    for _ in range(n):
        layer = [s + c for s in layer for c in alpha]
        out += layer
    return out


def gen_cases(rng, tier):
    thorough = tier == "thorough"
    tabs = _tables_for_cases()
    cases = []
    add = lambda t, kind, **kw: cases.append(dict({"in": t, "kind": kind}, **kw))
    cand = sorted({k.lower() for k in SQLITE_KEYWORD_CANDIDATES})
    for d, dname in enumerate(DIALECTS):
        words = _words(tabs, dname)
        iq, fq = _QUOTES[dname]
        # A. every reserved word of the dialect, plus case / newline variants of a sample
        mysql_words = set(_words(tabs, "mysql")) if dname == "mariadb" and not thorough else set()
        for k, w in enumerate(words):
            if w in mysql_words:
                continue  # quick tier: same table entry as for mysql
            add([0, d, _S(w), 0], "reserved")
            if k % 10 == 0 or thorough:
                add([0, d, _S(w.upper()), 0], "reserved-variant")
                add([0, d, _S(w + "\n"), 0], "reserved-variant")
        # C. exhaustive small scope
        small = [fq, ".", "%", "\n", "a", "A", "1", "_", "$"]
        for s in _strings_upto(small, 3 if thorough else 2):
            add([0, d, _S(s), 0], "small")
            if len(s) <= 1:
                add([0, d, _S(s), 1], "small")
                add([0, d, _S(s), 2], "small")
                add([4, d, _S(s)], "small-parts")
        for s in _strings_upto([fq, "%", "a"], 4 if thorough else 3):
            add([4, d, _S(s)], "small-parts")
        # D. random names
        nrand = 600 if thorough else 80
        for _ in range(nrand):
            add([0, d, _S(_rand_name(rng, dname, words)), rng.choice([0, 0, 0, 0, 1, 2])], "random")
        for _ in range(nrand // 3):
            add([4, d, _S(_rand_name(rng, dname, words))], "random-parts")
        for _ in range(nrand):
            t = _rand_name(rng, dname, words, 6)
            c = _rand_name(rng, dname, words, 6)
            if dname == "mssql" or rng.random() < 0.3:
                sch = []
            else:
                sch = [_S(_rand_name(rng, dname, words, 6))]
            if rng.random() < 0.03:
                c = ""
            if rng.random() < 0.03:
                t = ""
            if sch and rng.random() < 0.03:
                sch = [[]]
            add([1, d, sch, _S(t), _S(c)], "format")
        # D2. DDLCompiler._prepared_index_name (schema-qualified index names), SQLite CREATE/DROP INDEX text
        for k in range(nrand):
            iname = _rand_name(rng, dname, words, 6)
            if rng.random() < 0.03:
                iname = ""
            if dname == "mssql" or rng.random() < 0.15:
                sch = []
            elif rng.random() < 0.04:
                sch = [[]]
            else:
                sch = [_S(_rand_name(rng, dname, words, 6))]
            add([7, d, sch, _S(iname)], "index-name")
            if dname == "sqlite" and iname:
                add([8, d, sch, _S(_rand_name(rng, dname, words, 5)), _S(iname)], "index-ddl")
        for k, w in enumerate(words):
            if dname != "mssql" and (k % 8 == 0 or thorough):
                add([7, d, [_S(w)], _S(w)], "index-name")
        if dname != "mssql":
            for s_ in _strings_upto([fq, ".", "%", " ", "a", "A"], 2)[1:]:
                add([7, d, [_S(s_)], _S("i" + s_)], "index-name")
        # E. unformat_identifiers on arbitrary text
        alpha = sorted({iq, fq, ".", "\n", "a"})
        if dname in ("sqlite", "mssql") or thorough:
            for s in _strings_upto(alpha, 5 if thorough and dname in ("sqlite", "mssql") else (3 if dname == "mssql" and not thorough else 4)):
                add([2, d, _S(s)], "unformat-small")
        for _ in range(nrand if thorough else nrand // 2):
            a = alpha * 3 + ["%", "b", " ", '"', "]"]
            add([2, d, _S("".join(rng.choice(a) for _ in range(rng.randint(1, 12))))], "unformat-random")
        # F. spec-side lexer (live SQLite for d = 0, reference lexer otherwise)
        nlex = nrand if dname == "sqlite" else nrand // 3
        for _ in range(nlex):
            r = rng.random()
            if r < 0.35:
                s = "".join(rng.choice(list("abAZ019_$") + ["é", "ſ", "-", " ", "."]) for _ in range(rng.randint(1, 6)))
            elif r < 0.8:
                body = "".join(rng.choice([fq, fq, iq, ".", "a", "B", " ", "%", "\n", "中"]) for _ in range(rng.randint(0, 6)))
                s = iq + body + fq
            else:
                s = rng.choice(words) if words else "select"
                s = rng.choice([s, s.upper(), s + "1", iq + s + fq])
            if rng.random() < 0.2:
                s = rng.choice([" ", "\n", "\t", ""]) + s + rng.choice([" ", "\n", ""])
            add([3, d, _S(s)], "lexer")
    # B. SQLite keywords: lexer and full round trip, every candidate and every listed reserved word
    for w in cand:
        add([3, 0, _S(w)], "sqlite-keyword-lex")
        add([3, 0, _S(w.upper())], "sqlite-keyword-lex")
        add([5, 0, _S(w)], "sqlite-keyword-roundtrip")
    for w in _words(tabs, "sqlite"):
        if w not in cand:
            add([5, 0, _S(w)], "sqlite-reserved-roundtrip")
    # G. SQLite round trip on random names
    words = _words(tabs, "sqlite")
    for s in _strings_upto(['"', ".", "%", "a", "A", "1", "_", "$", " "], 2):
        if _sqlite_name_ok(s):
            add([5, 0, _S(s)], "sqlite-roundtrip-small")
    n = 0
    while n < (2500 if thorough else 330):
        s = _rand_name(rng, "sqlite", words)
        if _sqlite_name_ok(s) and not _BINDLIKE.search(s):
            add([5, 0, _S(s)], "sqlite-roundtrip")
            if n % 3 == 0:
                add([6, 0, _S(s)], "sqlite-constraint", model=False)
            n += 1
    for w in cand:
        add([6, 0, _S(w)], "sqlite-constraint", model=False)
    return cases


def search_cases(rng, tier):
    """cases that carry an oracle only, weighted to keywords"""
    tabs = _tables_for_cases()
    cases = []
    add = lambda t, kind: cases.append({"in": t, "kind": kind, "model": False})
    cand = sorted({k.lower() for k in SQLITE_KEYWORD_CANDIDATES})
    for w in cand + [w for w in _words(tabs, "sqlite") if w not in cand]:
        add([5, 0, _S(w)], "search-keyword")
    for s in _strings_upto(['"', ".", "%", "a", "A", "1", "_", "$", " ", "\n"], 2):
        if _sqlite_name_ok(s):
            add([5, 0, _S(s)], "search-small")
    for d, dname in enumerate(DIALECTS):
        words = _words(tabs, dname)
        for w in words:
            add([0, d, _S(w), 0], "search-reserved")
            add([0, d, _S(w.upper()), 0], "search-reserved")
        for s in _strings_upto([_QUOTES[dname][1], _QUOTES[dname][0], ".", "%", "a", "A", "1", "_", "$"], 2):
            if s:
                add([0, d, _S(s), 0], "search-small")
                add([0, d, _S(s), 1], "search-small")
                add([1, d, [] if dname == "mssql" else [_S(s)], _S("t"), _S(s)], "search-small")
                if dname != "mssql":
                    add([7, d, [_S(s)], _S("i" + s)], "search-small")
        for _ in range(300):
            if dname != "mssql":
                add([7, d, [_S(_rand_name(rng, dname, words, 5))], _S(_rand_name(rng, dname, words, 5))], "search-index")
            add([0, d, _S(_rand_name(rng, dname, words)), rng.choice([0, 0, 1])], "search-random")
            sch = [] if dname == "mssql" or rng.random() < 0.3 else [_S(_rand_name(rng, dname, words, 5))]
            add([1, d, sch, _S(_rand_name(rng, dname, words, 5)), _S(_rand_name(rng, dname, words, 5))], "search-random")
    words = _words(tabs, "sqlite")
    n = 0
    while n < 600:
        s = _rand_name(rng, "sqlite", words)
        if _sqlite_name_ok(s) and not _BINDLIKE.search(s):
            add([5, 0, _S(s)], "search-roundtrip")
            add([6, 0, _S(s)], "search-constraint")
            n += 1
    return cases


def nontrivial(c):
    t = c["in"]
    op, d = t[0], t[1]
    iq, fq = _QUOTES[DIALECTS[d]]
    special = {iq, fq, ".", "%", "\n"}
    if op in (0, 4, 5, 6):
        s = _U(t[2])
        return bool(s) and (not re.fullmatch(r"[a-z_][a-z0-9_$]*", s) or c.get("kind", "").startswith(("reserved", "sqlite-k")))
    if op == 1:
        return any(set(_U(x)) & special for x in [t[3], t[4]] + list(t[2]))
    if op in (7, 8):
        return bool(t[2]) and any(not re.fullmatch(r"[a-z_][a-z0-9_$]*", _U(x)) for x in list(t[2]) + [t[-1]])
    return bool(set(_U(t[2])) & special)


# ---------------------------------------------------------------------------------------------
# spec-side reference lexer (Python twin of Ident.lex_ident; used as oracle for the dialects without a server)
_WS = " \t\n\x0c\r"


def _in(rs, ch):
    return any(a <= ord(ch) <= b for a, b in rs)


def _ascii_lower(s):
    return "".join(chr(ord(c) + 32) if "A" <= c <= "Z" else c for c in s)


def _ascii_upper(s):
    return "".join(chr(ord(c) - 32) if "a" <= c <= "z" else c for c in s)


def ref_lex(dname, text, kw):
    iq, fq = _QUOTES[dname]
    st, ct, fold = _BACKENDS[dname]
    s = text.strip(_WS)
    if not s:
        return None
    if s[0] == iq:
        out = []
        i = 1
        while True:
            if i >= len(s):
                return None
            if s[i] == fq:
                if i + 1 < len(s) and s[i + 1] == fq:
                    out.append(fq)
                    i += 2
                    continue
                return "".join(out) if i + 1 == len(s) else None
            out.append(s[i])
            i += 1
    if _in(st, s[0]) and all(_in(ct, c) for c in s[1:]):
        if _ascii_lower(s) in kw:
            return None
        return {"FoldNone": s, "FoldLower": _ascii_lower(s), "FoldUpper": _ascii_upper(s)}[fold]
    return None


def ref_lex_path(dname, text, kw):
    """a dotted path of identifiers as the backend reads it: list of stored names, or None"""
    iq, fq = _QUOTES[dname]
    parts = []
    i = 0
    n = len(text)
    while True:
        j = i
        if j < n and text[j] == iq:
            j += 1
            while True:
                if j >= n:
                    return None
                if text[j] == fq:
                    if j + 1 < n and text[j + 1] == fq:
                        j += 2
                        continue
                    j += 1
                    break
                j += 1
        else:
            while j < n and text[j] != ".":
                j += 1
        r = ref_lex(dname, text[i:j], kw)
        if r is None:
            return None
        parts.append(r)
        if j == n:
            return parts
        if text[j] != ".":
            return None
        i = j + 1


def _collapse_pct(s):
    """what a format/pyformat driver sends; None when a % is not doubled (it would be a conversion specifier)"""
    if "%" in s.replace("%%", ""):
        return None
    return s.replace("%%", "%")


# ---------------------------------------------------------------------------------------------
# implementation side
_IMPL = {}


def _dialects():
    if "d" not in _IMPL:
        import warnings

        warnings.simplefilter("ignore")
        from sqlalchemy.dialects.sqlite.pysqlite import SQLiteDialect_pysqlite
        from sqlalchemy.dialects.postgresql.psycopg2 import PGDialect_psycopg2
        from sqlalchemy.dialects.mysql.mysqldb import MySQLDialect_mysqldb
        from sqlalchemy.dialects.mssql.pyodbc import MSDialect_pyodbc
        from sqlalchemy.dialects.oracle.cx_oracle import OracleDialect_cx_oracle

        _IMPL["d"] = [SQLiteDialect_pysqlite(), PGDialect_psycopg2(), MySQLDialect_mysqldb(), MSDialect_pyodbc(),
                      OracleDialect_cx_oracle(), MySQLDialect_mysqldb(is_mariadb=True)]
    return _IMPL["d"]


def _sqlite_live_lex(text):
    """what the live SQLite makes of `text` where an identifier is expected (table name, then column name)"""
    c = sqlite3.connect(":memory:")
    try:
        c.execute("create table %s (zz integer)" % text)
        c.execute("insert into %s (zz) values (1)" % text)
        if c.execute("select zz from %s" % text).fetchall() != [(1,)]:
            return None
        names = [r[0] for r in c.execute("select name from sqlite_master where type = 'table'")]
        if len(names) != 1:
            return None
        c.execute("create table zz_t (%s integer, zz_other integer)" % text)
        c.execute("insert into zz_t (%s, zz_other) values (1, 2)" % text)
        if c.execute("select %s, zz_other from zz_t where %s = 1" % (text, text)).fetchall() != [(1, 2)]:
            return None
        cols = [r[1] for r in c.execute("pragma table_info(zz_t)")]
        if cols != [names[0], "zz_other"]:
            return None
        return names[0]
    except (sqlite3.Error, sqlite3.Warning, ValueError):
        return None
    finally:
        c.close()


def _attach(c, name):
    c.exec_driver_sql("attach database ':memory:' as \"%s\"" % name.replace('"', '""'))


def _sqlite_roundtrip(name):
    """scenario A: an attached schema, a table in it, its column, and an index (on a table of the main
    schema: tables and indexes share one namespace per schema), all called `name`; insert/select/reflect,
    then DROP everything.  scenario B (second connection): in the attached schema `name` a table with an
    index AND a unique constraint called `name`: CREATE INDEX schema.index, reflect, DROP INDEX schema.index,
    DROP TABLE."""
    from sqlalchemy import Column, Index, Integer, MetaData, Table, UniqueConstraint, create_engine, inspect, select

    with_schema = name.lower() not in ("main", "temp")  # SQLite's own schema names cannot be attached
    e = create_engine("sqlite://")
    try:
        m = MetaData()
        t = Table(name, m, Column(name, Integer), Column("zz_other", Integer), schema=name if with_schema else None)
        Table("zz_t2", m, Column("k", Integer), *([Index(name, "k")] if with_schema else []))
        with e.begin() as c:
            if with_schema:
                _attach(c, name)
            m.create_all(c)
            c.execute(t.insert().values({name: 7, "zz_other": 8}))
            rows = [tuple(r) for r in c.execute(select(t.c[name], t.c.zz_other))]
            if rows != [(7, 8)]:
                return [1]
            insp = inspect(c)
            sch = [x for x in insp.get_schema_names() if x not in ("main", "temp")] if with_schema else [None]
            if len(sch) != 1:
                return [1]
            tn = [x for x in insp.get_table_names(schema=sch[0]) if x != "zz_t2"]
            if len(tn) != 1:
                return [1]
            cols = [x["name"] for x in insp.get_columns(tn[0], schema=sch[0])]
            idx = [(x["name"], x["column_names"]) for x in insp.get_indexes("zz_t2")] if with_schema else [(tn[0], ["k"])]
            if len(cols) != 2 or cols[1] != "zz_other" or len(idx) != 1 or idx[0][1] != ["k"]:
                return [1]
            out = [0, _S(sch[0] if with_schema else tn[0]), _S(tn[0]), _S(cols[0]), _S(idx[0][0])]
            m.drop_all(c)
            insp = inspect(c)
            if insp.get_table_names(schema=sch[0]) or insp.get_table_names():
                return [1]
    except Exception:
        return [1]
    finally:
        e.dispose()
    if not with_schema:
        return out + [out[2]]
    e = create_engine("sqlite://")
    try:
        m = MetaData()
        ix = Index(name, "k")
        t3 = Table("zz_t3", m, Column("k", Integer), Column("u", Integer), ix, UniqueConstraint("u", name=name), schema=name)
        with e.begin() as c:
            _attach(c, name)
            m.create_all(c)
            c.execute(t3.insert().values(k=1, u=2))
            insp = inspect(c)
            idx = [(x["name"], x["column_names"]) for x in insp.get_indexes("zz_t3", schema=name)]
            if len(idx) != 1 or idx[0][1] != ["k"] or len(insp.get_unique_constraints("zz_t3", schema=name)) != 1:
                return [1]
            ix.drop(c)
            insp = inspect(c)
            if insp.get_indexes("zz_t3", schema=name):
                return [1]
            m.drop_all(c)
            if inspect(c).get_table_names(schema=name):
                return [1]
            return out + [_S(idx[0][0])]
    except Exception:
        return [1]
    finally:
        e.dispose()


def _sqlite_constraint_roundtrip(name):
    """a UNIQUE constraint called `name` on a table in an attached schema called `name` (no model: the
    reflection parses the stored CREATE TABLE text)"""
    from sqlalchemy import Column, Integer, MetaData, Table, UniqueConstraint, create_engine, inspect

    with_schema = name.lower() not in ("main", "temp")
    sch = name if with_schema else None
    e = create_engine("sqlite://")
    try:
        m = MetaData()
        t = Table("zz_t", m, Column("a", Integer), Column("b", Integer), UniqueConstraint("a", name=name), schema=sch)
        with e.begin() as c:
            if with_schema:
                _attach(c, name)
            m.create_all(c)
            c.execute(t.insert().values(a=1, b=2))
            u = inspect(c).get_unique_constraints("zz_t", schema=sch)
            if len(u) != 1 or u[0]["column_names"] != ["a"]:
                return [1]
            m.drop_all(c)
            if inspect(c).get_table_names(schema=sch):
                return [1]
            return [0, [] if u[0]["name"] is None else [_S(u[0]["name"])]]
    except Exception:
        return [1]
    finally:
        e.dispose()


def impl(c):
    from sqlalchemy.sql import column, quoted_name, table

    t = c["in"]
    op, d = t[0], t[1]
    dname = DIALECTS[d]
    p = _dialects()[d].identifier_preparer
    if op == 0:
        name, force = _U(t[2]), t[3]
        ident = name if force == 0 else quoted_name(name, force == 1)
        try:
            return [0, _S(p.quote(ident))]
        except IndexError:
            return [1]
    if op == 1:
        sch = _U(t[2][0]) if t[2] else None
        col = column(_U(t[4]))
        tbl = table(_U(t[3]), col, schema=sch)
        try:
            ft = p.format_table(tbl)
            fc = p.format_column(col, use_table=True, use_schema=True)
        except IndexError:
            return [1]
        return [0, _S(ft), _S(fc), [_S(x) for x in p.unformat_identifiers(fc)]]
    if op == 2:
        return [0, [_S(x) for x in p.unformat_identifiers(_U(t[2]))]]
    if op == 3:
        text = _U(t[2])
        if dname == "sqlite":
            r = _sqlite_live_lex(text)
        else:
            r = ref_lex(dname, text, set(p.reserved_words))
        return [1] if r is None else [0, _S(r)]
    if op == 4:
        name = _U(t[2])
        return [0, _S(p.quote_identifier(name)), int(bool(p._requires_quotes_illegal_chars(name))), _S(p._unescape_identifier(name))]
    if op == 5:
        return _sqlite_roundtrip(_U(t[2]))
    if op == 6:
        return _sqlite_constraint_roundtrip(_U(t[2]))
    if op in (7, 8):
        from sqlalchemy import Column, Index, Integer, MetaData, Table
        from sqlalchemy.schema import CreateIndex, DropIndex

        sch = _U(t[2][0]) if t[2] else None
        col = Column("k", Integer)
        tbl = Table(_U(t[3]) if op == 8 else "zz_t", MetaData(), col, schema=sch)
        idx = Index(_U(t[-1]), col)
        dialect = _dialects()[d]
        try:
            if op == 7:
                ddl = dialect.ddl_compiler(dialect, None)
                return [0, _S(ddl._prepared_index_name(idx, include_schema=True)), _S(ddl._prepared_index_name(idx, include_schema=False))]
            return [0, _S(str(CreateIndex(idx).compile(dialect=dialect))), _S(str(DropIndex(idx).compile(dialect=dialect)))]
        except IndexError:
            return [1]
    raise ValueError("bad op")


def impl_facts():
    kw = measure_sqlite_keywords()
    p = _dialects()[0].identifier_preparer
    return {"sqlite_version": sqlite3.sqlite_version, "sqlite_keywords_needing_quotes": len(kw),
            "sqlite_keywords_missing_from_reserved_words": sorted(set(kw) - set(p.reserved_words))}


# ---------------------------------------------------------------------------------------------
# the property itself, on the implementation's observation
def _representable(name):
    return name != "" and "\x00" not in name and not any(0xD800 <= ord(ch) <= 0xDFFF for ch in name)


def oracle(c, obs):
    t = c["in"]
    op, d = t[0], t[1]
    dname = DIALECTS[d]
    if op == 0:
        name, force = _U(t[2]), t[3]
        if force == 2 or not _representable(name):
            return None  # quote=False is the caller's responsibility; the empty name is outside the property
        if obs[0] != 0:
            return "quote(%r) raised IndexError on %s" % (name, dname)
        text = _U(obs[1])
        sent = _collapse_pct(text) if dname in _PCT_DIALECTS else text
        kw = set(measure_sqlite_keywords()) if dname == "sqlite" else set(_dialects()[d].identifier_preparer.reserved_words)
        got = None if sent is None else ref_lex(dname, sent, kw)
        if got == name:
            return None
        if dname == "oracle" and got == _ascii_upper(name) and _ascii_lower(name) == name and sent == name:
            return None  # case-insensitive name: stored upper case by Oracle, by convention the same name
        return "%s: quote(%r) = %r which the backend reads as %r" % (dname, name, text, got)
    if op == 1:
        comps = ([_U(t[2][0])] if t[2] else []) + [_U(t[3]), _U(t[4])]
        if not all(_representable(x) for x in comps):
            return None
        if obs[0] != 0:
            return "format_column raised IndexError for %r on %s" % (comps, dname)
        back = [_U(x) for x in obs[3]]
        if back != comps:
            return "%s: unformat_identifiers(%r) = %r, formatted from %r" % (dname, _U(obs[2]), back, comps)
        return None
    if op == 5:
        name = _U(t[2])
        if not _sqlite_name_ok(name):
            return None
        if obs != [0] + [_S(name)] * 5:
            what = "failed" if obs[0] != 0 else "gave back schema/table/column/index/index-in-schema %r" % ([_U(x) for x in obs[1:]],)
            return "sqlite: create/insert/select/reflect with the name %r %s" % (name, what)
        return None
    if op == 7:
        comps = ([_U(t[2][0])] if t[2] else []) + [_U(t[3])]
        if not all(_representable(x) for x in comps):
            return None
        if obs[0] != 0:
            return "_prepared_index_name raised IndexError for %r on %s" % (comps, dname)
        text = _U(obs[1])
        sent = _collapse_pct(text) if dname in _PCT_DIALECTS else text
        kw = set(measure_sqlite_keywords()) if dname == "sqlite" else set(_dialects()[d].identifier_preparer.reserved_words)
        got = None if sent is None else ref_lex_path(dname, sent, kw)
        if got == comps:
            return None
        if dname == "oracle" and got is not None and len(got) == len(comps) and all(
                g == x or (g == _ascii_upper(x) and _ascii_lower(x) == x) for g, x in zip(got, comps)):
            return None  # case-insensitive components are stored upper case by Oracle
        return "%s: index name for schema/index %r is rendered %r which the backend reads as %r" % (dname, comps, text, got)
    if op == 6:
        name = _U(t[2])
        if not _sqlite_name_ok(name):
            return None
        if obs != [0, [_S(name)]]:
            what = "failed" if obs[0] != 0 else "gave back %r" % ([_U(x) for x in obs[1]] or None,)
            return "sqlite: UNIQUE constraint named %r: create + Inspector.get_unique_constraints %s" % (name, what)
        return None
    return None


def match_finding(c, what):
    t = c["in"]
    op, d = t[0], t[1]
    dname = DIALECTS[d]
    if op == 1 and dname in _PCT_DIALECTS:
        comps = ([_U(t[2][0])] if t[2] else []) + [_U(t[3]), _U(t[4])]
        if any("%" in x for x in comps):
            return "C06-percent-unformat"
    if op == 5 and _BINDLIKE.search(_U(t[2])):
        return "C06-bind-pattern-in-name-positional"
    if op == 6 and "\n" in _U(t[2]):
        return "C06-sqlite-unique-constraint-name-newline"
    return None


LEVEL_TEXT = (
    "Machine-checked proof (Coq) over the Gallina transcription of IdentifierPreparer, for all code point "
    "sequences and for EVERY dialect table satisfying boolean side conditions: what quote() emits is read "
    "back by the backend's identifier lexer as the same name (folded when bare), quote_identifier always "
    "is, splitting the dotted form recovers the components, the splitter always terminates; with "
    "a _refuted/_guarded pair for the remaining defect (%% is not undone by unformat_identifiers on "
    "format/pyformat dialects; the final-newline defect was repaired by 67008c4).  The side conditions are evaluated by vm_compute "
    "on tables regenerated from the current source on every run (T1), including: every SQLite keyword "
    "that needs quoting - measured on the live library - is in RESERVED_WORDS."
)
LEVEL_NOTE = (
    "Trusted: Coq kernel; the hand transcription (source pin + correspondence, exhaustive on small "
    "scopes); the ast extractor; the backend grammars (SQLite's validated against the live library on "
    "every run, the others documented and conservative); Python re/str.lower on the legal-character "
    "class.  Not claimed: keyword completeness for PostgreSQL/MySQL/MariaDB/MSSQL/Oracle (it is an "
    "explicit hypothesis of their theorems)."
)
TECHNIQUE = (
    "Coq proof by induction on strings, parametrised by tables; T1 ast extraction + reflective side "
    "conditions; live-SQLite keyword measurement; model/impl correspondence; SQLite execution oracle"
)
