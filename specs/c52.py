"""C52 - scoped_session gives each scope its own session."""
ID = "C52"
LEVEL = "proof"
PROPS = "props/C52.v"
RUNNER = ("SAV.util.RegistryRun", "run_case")
STATIC_MODULES = ["SAV.util.RegistryRun"]
RULE = (
    "real scoped_session(sessionmaker(), scopefunc=...) driven by 2-4 real threads under the deterministic scheduler: "
    "a yield point before every dict operation of ScopedRegistry.registry, before createfunc() and between operations; "
    "scope keys assigned so that some threads share a scope; ops: call, proxy attribute (.info), remove(). The "
    "linearised event trace must be accepted by the Coq acceptor and the final registry/closed sessions must equal the "
    "model's. A second family runs the default ThreadLocalRegistry (oracle only). non-trivial = two threads interleave "
    "inside __call__ or remove()"
)
TRUSTED = [
    "hand-written interleaving model of ScopedRegistry.__call__/has/clear and scoped_session.__call__/remove (pinned source)",
    "CPython dict operations are atomic; threading.local gives per-thread storage (ThreadLocalRegistry is the keys=distinct instance)",
]
ASSUMPTIONS = ["createfunc returns a fresh object each time"]
LEVEL_TEXT = (
    "Coq proof over all schedules of any number of threads with arbitrary scope-key assignment: a scope's entry persists "
    "and every call of that scope returns it until a remove() of that scope; different scopes hold different Sessions; "
    "steps of one scope never change another scope's entry; remove() closes only a Session created for its own scope. "
    "Tie: trace acceptance of scheduler-driven runs of the real scoped_session."
)
LEVEL_NOTE = "the tie samples schedules (seeded); kw-argument form of __call__ and configure() are not modelled"
TECHNIQUE = "Coq invariant proof over an interleaving model + deterministic-scheduler trace acceptance"
ANCHORS = [
    ("lib/sqlalchemy/util/_collections.py", "ScopedRegistry.__call__"),
    ("lib/sqlalchemy/util/_collections.py", "ScopedRegistry.has"),
    ("lib/sqlalchemy/util/_collections.py", "ScopedRegistry.clear"),
    ("lib/sqlalchemy/util/_collections.py", "ThreadLocalRegistry.__call__"),
    ("lib/sqlalchemy/util/_collections.py", "ThreadLocalRegistry.has"),
    ("lib/sqlalchemy/util/_collections.py", "ThreadLocalRegistry.clear"),
    ("lib/sqlalchemy/orm/scoping.py", "scoped_session.__call__"),
    ("lib/sqlalchemy/orm/scoping.py", "scoped_session.remove"),
]


def translate(repo, outdir):
    from translate import fingerprint

    fingerprint.check(repo, ANCHORS, "C52")
    return []


def gen_cases(rng, tier):
    n = 3000 if tier == "thorough" else 400
    cases = []
    for _ in range(n):
        nth = rng.randint(2, 4)
        nkeys = rng.randint(1, nth)
        keys = [rng.randrange(nkeys) for _ in range(nth)]
        progs = ["".join(rng.choice("ggpr") for _ in range(rng.randint(1, 4))) for _ in range(nth)]
        tl = rng.random() < 0.15
        cases.append(
            {"in": [keys, []], "progs": progs, "sseed": rng.randrange(1 << 30), "threadlocal": tl,
             "model": not tl, "kind": "threadlocal" if tl else "scopefunc"}
        )
    # thread generations (oracle-only): threads of a later generation are born after the earlier ones have exited
    # (the OS recycles thread identifiers); a new thread is a new scope and must never see an earlier thread's session
    for _ in range(60 if tier == "thorough" else 12):
        nth = rng.randint(2, 4)
        progs = ["".join(rng.choice("gggpr") for _ in range(rng.randint(1, 4))) for _ in range(nth)]
        cases.append({"in": [list(range(nth)), []], "progs": progs, "sseed": rng.randrange(1 << 30), "threadlocal": True,
                      "gens": rng.randint(3, 8), "model": False, "kind": "threadlocal-generations"})
    return cases


def nontrivial(c):
    evs = c["in"][1]
    open_ = {}
    for e in evs:
        i = e[1]
        if e[0] in (0, 1):
            open_[i] = True
        others = [j for j in open_ if j != i and open_[j]]
        if others and e[0] not in (0, 1):
            return True
        if e[0] in (7,) or (e[0] in (3, 5) and False):
            open_[i] = False
    return False


_mon = {}


def _run(c):
    import random

    from sqlalchemy.orm import Session, scoped_session, sessionmaker
    from vlib.sched import Deadlock, Sched

    keys = c["in"][0]
    rng = random.Random(c["sseed"])
    sched = Sched(rng)
    gen = [0]
    raw = []
    sid = {}
    owner = {}
    nextid = [100]
    viol = []
    closed = []

    def tid():
        w = sched.current()
        return w.tid if w else -1

    class TDict(dict):
        def __getitem__(self, k):
            sched.yield_()
            try:
                v = dict.__getitem__(self, k)
            except KeyError:
                raw.append([3, tid(), None])
                raise
            raw.append([3, tid(), sid[id(v)]])
            return v

        def setdefault(self, k, v):
            sched.yield_()
            r = dict.setdefault(self, k, v)
            raw.append([5, tid(), sid[id(r)]])
            return r

        def __contains__(self, k):
            sched.yield_()
            b = dict.__contains__(self, k)
            raw.append([2, tid(), int(b)])
            return b

        def __delitem__(self, k):
            sched.yield_()
            raw.append([7, tid()])
            dict.__delitem__(self, k)

    factory = sessionmaker()
    keep = []

    def createfunc(**kw):
        sched.yield_()
        s = factory(**kw)
        keep.append(s)
        me = nextid[0]
        nextid[0] += 1
        sid[id(s)] = me
        owner[me] = keys[tid()] if not c.get("threadlocal") else ("t", gen[0], tid())
        raw.append([4, tid(), me])
        orig_close = s.close

        def tclose():
            raw.append([6, tid(), me])
            closed.append(me)
            mykey = keys[tid()] if not c.get("threadlocal") else ("t", gen[0], tid())
            if owner[me] != mykey:
                viol.append("remove() in scope %r closed session %d created for scope %r" % (mykey, me, owner[me]))
            return orig_close()

        s.close = tclose
        return s

    if c.get("threadlocal"):
        ss = scoped_session(factory)
        ss.registry.createfunc = createfunc
    else:
        ss = scoped_session(factory, scopefunc=lambda: keys[tid()])
        ss.registry.createfunc = createfunc
        ss.registry.registry = TDict()

    last = {}  # scope key -> (epoch, session id) of the last __call__ return in that scope
    epoch = {}
    inprog = {}

    def fn_for(prog):
        def fn(w):
            mykey = keys[w.tid] if not c.get("threadlocal") else ("t", gen[0], w.tid)
            for op in prog:
                sched.yield_()
                if op in "gp":
                    raw.append([0, w.tid])
                    s = ss() if op == "g" else ss.registry()
                    if op == "p":
                        _ = s.info
                    me = sid[id(s)]
                    if owner[me] != mykey:
                        viol.append("scope %r received session %d created for scope %r" % (mykey, me, owner[me]))
                    ep = epoch.get(mykey, 0)
                    if not inprog.get(mykey) and mykey in last and last[mykey][0] == ep and last[mykey][1] != me:
                        viol.append(
                            "scope %r got session %d then %d with no remove() of that scope in between" % (mykey, last[mykey][1], me)
                        )
                    last[mykey] = (ep, me)
                else:
                    raw.append([1, w.tid])
                    epoch[mykey] = epoch.get(mykey, 0) + 1
                    inprog[mykey] = inprog.get(mykey, 0) + 1
                    mark = len(raw)
                    cur_tl = None
                    if c.get("threadlocal") and hasattr(ss.registry.registry, "value"):
                        cur_tl = sid.get(id(ss.registry.registry.value))
                    ss.remove()
                    # "remove() closes and discards": the session remove() itself took out of the registry
                    # (a getitem event of this thread inside the call / the thread-local value) must have been closed
                    taken = [e[2] for e in raw[mark:] if e[0] == 3 and e[1] == w.tid and e[2] is not None]
                    if cur_tl is not None:
                        taken.append(cur_tl)
                    for me in taken:
                        if not any(e[0] == 6 and e[1] == w.tid and e[2] == me for e in raw[mark:]):
                            viol.append("remove() in scope %r discarded session %d without closing it" % (mykey, me))
                    inprog[mykey] -= 1
                    epoch[mykey] += 1

        return fn

    err = None
    for g in range(c.get("gens", 1)):
        if g:
            gen[0] = g
            sched = Sched(rng)  # new threads; the previous generation's threads have exited
        for p in c["progs"]:
            sched.spawn(fn_for(p))
        try:
            sched.run()
        except Deadlock as e:
            err = str(e)
        for w in sched.workers:
            if w.error is not None and err is None:
                err = "worker %d: %s: %s" % (w.tid, type(w.error).__name__, w.error)
    if err:
        raise AssertionError(err)
    if c.get("threadlocal"):
        reg = []
    else:
        reg = [[k, sid[id(v)]] for k, v in reversed(list(dict.items(ss.registry.registry)))]
        vals = [v for _, v in reg]
        if len(set(vals)) != len(vals):
            viol.append("two scopes share one session: %s" % reg)
    return raw, [reg, list(reversed(closed))], viol


def impl(c):
    raw, final, viol = _run(c)
    _mon[c["sseed"]] = viol
    return [raw, final]


def model_pair(c, obs):
    raw, final = obs
    return [c["in"][0], raw], [-1] + final


def oracle(c, obs):
    v = _mon.get(c["sseed"], [])
    return v[0] if v else None
