"""C28 - event listeners fire exactly as registered."""
ID = "C28"
LEVEL = "proof"
PROPS = "props/C28.v"
RUNNER = ("SAV.event.EventsRun", "run_case")
STATIC_MODULES = ["SAV.event.EventsRun"]
RULE = (
    "family seq: operation sequences over a real event.Events / event.dispatcher target hierarchy built with type(): "
    "class creation (single and multiple inheritance, before and after registrations), instance creation, "
    "event.listen / listens_for (insert, propagate, once, named, retval-adapter), event.remove, event.contains, "
    "dispatch on instances; exhaustive over three small alphabets (quick: length <= 4 plus every third of length 5 (two alphabets), <= 2; "
    "thorough: <= 7, <= 6, <= 4; sequences that leave the guarded region are sampled 1:12 beyond length 3) in a 3-class + 2-instance context, plus seeded random sequences over up to 5 classes / 3 instances / "
    "4 functions; the recorded calls and results are compared with the Coq model step by step and with the "
    "registration-log oracle. non-trivial = the sequence has a remove or a class created after a listen. "
    "family conc: 2-4 real threads calling exec_once / exec_once_unless_exception / _exec_w_sync_on_first_run on one "
    "_ListenerCollection under the deterministic scheduler (yield points at every flag read/write, the mutex "
    "acquisition and inside the listeners; scripted listener exceptions); the linearised trace must be accepted by the "
    "Coq acceptor and the final flags / run counters must equal the model's. non-trivial = two threads interleave "
    "inside one call. family prop: instance-level listen/remove/contains/dispatch histories with 1-4 "
    "_Dispatch._update() hops (chains 0->1->2->..., random graphs, only_propagate both ways) and snapshots of BOTH "
    "registry maps (_key_to_collection and _collection_to_key) over owners x keys, compared with the model and with the "
    "registrations in force; non-trivial = >= 2 hops followed by a remove. family once: a once=True / "
    "_once_unless_exception=True listener between two ordinary listeners, dispatched by 1-3 threads under the "
    "scheduler with a yield inside the listener body, re-entrant dispatch from inside the body and scripted exceptions; "
    "trace accepted by the only_once model; oracle: the body is never entered while it is running, and at most once"
)
TRUSTED = [
    "T2 for _exec_once_impl: statement skeleton compared structurally, the flag-setting condition translated to Gallina "
    "(gen_sets_flag) and proved equal to the model's `due` on every run (C28_gen.v); 25-line expression translator",
    "hand-written Gallina transcription of _ClsLevelDispatch / _EmptyListener / _ListenerCollection / _EventKey / "
    "registry bookkeeping and of util.walk_subclasses / util.only_once (pinned normalised source + step-by-step "
    "correspondence on every run)",
    "Python's C3 linearisation (the MRO of a new class is an input of the model) and __subclasses__() creation order",
    "function identity: a wrapper closure is a fresh object, the same function object is equal to itself only",
    "atomicity granularity of the exec_once model: flag reads/writes, mutex acquire/release and listener begin/end are "
    "the only shared accesses (the harness places its yield points exactly there)",
]
ASSUMPTIONS = [
    "targets and listener functions stay alive (no garbage collection of registered targets; id() reuse not modelled)",
    "listen/remove are not called while the same event is being dispatched (documented restriction of event.listen)",
    "single attribute loads/stores are atomic",
]
LEVEL_TEXT = (
    "[propagation] invariant proof over the model with both registry maps: forward and reverse map agree after every "
    "operation, every listener of every collection is registered for it however many _update hops it went through, "
    "remove() reaches every copy (guard: no function object twice in one collection; refutation outside). [only_once] "
    "the body of a once=True listener is entered at most once under every interleaving incl. re-entrant dispatch. "
    "Coq refinement proof for every operation sequence (unbounded) over single-inheritance hierarchies in which no "
    "unwrapped function is registered on both a class and its ancestor: every result of the model (calls of each dispatch, remove/contains results) "
    "equals the registration-log specification; refutations for the excluded regions (late multiple-inheritance "
    "subclass, removal of a function shared by base and subclass); walk_subclasses fuel "
    "proved sufficient for every reachable hierarchy. Interleaving model of exec_once: for all schedules of any "
    "number of threads, listener runs are mutually exclusive, at most one run sets the flag, runs <= 1 + failed "
    "retry runs, exactly one run at quiescence without exceptions."
)
LEVEL_NOTE = (
    "partial: _join(), _clear(), _sa_propagate_class_events=False (the class-hierarchy model has no _update; the "
    "propagation model has no class hierarchy), "
    "targets, legacy signatures and garbage collection of targets are not modelled; multiple inheritance is covered "
    "by the correspondence and the oracle only (the guarded theorem is for single inheritance); class-level "
    "listeners are called before instance-level ones (documented design) - registration order is per level; the "
    "concurrency tie samples schedules (seeded)."
)
TECHNIQUE = (
    "Coq refinement proof (model vs registration-log specification) + step-by-step correspondence against the real "
    "event package; Coq invariant proof over an interleaving model + deterministic-scheduler trace acceptance"
)
ANCHORS = [
    ("lib/sqlalchemy/event/attr.py", "_ClsLevelDispatch._do_insert_or_append"),
    ("lib/sqlalchemy/event/attr.py", "_ClsLevelDispatch.insert"),
    ("lib/sqlalchemy/event/attr.py", "_ClsLevelDispatch.append"),
    ("lib/sqlalchemy/event/attr.py", "_ClsLevelDispatch.update_subclass"),
    ("lib/sqlalchemy/event/attr.py", "_ClsLevelDispatch.remove"),
    ("lib/sqlalchemy/event/attr.py", "_ClsLevelDispatch.for_modify"),
    ("lib/sqlalchemy/event/attr.py", "_EmptyListener.__init__"),
    ("lib/sqlalchemy/event/attr.py", "_EmptyListener.for_modify"),
    ("lib/sqlalchemy/event/attr.py", "_EmptyListener.__call__"),
    ("lib/sqlalchemy/event/attr.py", "_CompoundListener._get_exec_once_mutex"),
    ("lib/sqlalchemy/event/attr.py", "_CompoundListener.exec_once"),
    ("lib/sqlalchemy/event/attr.py", "_CompoundListener.exec_once_unless_exception"),
    ("lib/sqlalchemy/event/attr.py", "_CompoundListener._exec_w_sync_on_first_run"),
    ("lib/sqlalchemy/event/attr.py", "_CompoundListener.__call__"),
    ("lib/sqlalchemy/event/attr.py", "_ListenerCollection.__init__"),
    ("lib/sqlalchemy/event/attr.py", "_ListenerCollection.for_modify"),
    ("lib/sqlalchemy/event/attr.py", "_ListenerCollection.insert"),
    ("lib/sqlalchemy/event/attr.py", "_ListenerCollection.append"),
    ("lib/sqlalchemy/event/attr.py", "_ListenerCollection.remove"),
    ("lib/sqlalchemy/event/registry.py", "_stored_in_collection"),
    ("lib/sqlalchemy/event/registry.py", "_removed_from_collection"),
    ("lib/sqlalchemy/event/registry.py", "_stored_in_collection_multi"),
    ("lib/sqlalchemy/event/attr.py", "_ListenerCollection._update"),
    ("lib/sqlalchemy/event/base.py", "_Dispatch._update"),
    ("lib/sqlalchemy/event/registry.py", "_EventKey.__init__"),
    ("lib/sqlalchemy/event/registry.py", "_EventKey._key"),
    ("lib/sqlalchemy/event/registry.py", "_EventKey.with_wrapper"),
    ("lib/sqlalchemy/event/registry.py", "_EventKey.listen"),
    ("lib/sqlalchemy/event/registry.py", "_EventKey.remove"),
    ("lib/sqlalchemy/event/registry.py", "_EventKey.contains"),
    ("lib/sqlalchemy/event/registry.py", "_EventKey.base_listen"),
    ("lib/sqlalchemy/event/registry.py", "_EventKey._listen_fn"),
    ("lib/sqlalchemy/event/registry.py", "_EventKey.append_to_list"),
    ("lib/sqlalchemy/event/registry.py", "_EventKey.prepend_to_list"),
    ("lib/sqlalchemy/event/base.py", "_Dispatch.__init__"),
    ("lib/sqlalchemy/event/base.py", "_Dispatch.__getattr__"),
    ("lib/sqlalchemy/event/base.py", "_Dispatch._listen"),
    ("lib/sqlalchemy/event/base.py", "_Dispatch._for_class"),
    ("lib/sqlalchemy/event/base.py", "_Dispatch._for_instance"),
    ("lib/sqlalchemy/event/base.py", "Events._listen"),
    ("lib/sqlalchemy/event/base.py", "dispatcher.__get__"),
    ("lib/sqlalchemy/event/api.py", "_event_key"),
    ("lib/sqlalchemy/event/api.py", "listen"),
    ("lib/sqlalchemy/event/api.py", "listens_for"),
    ("lib/sqlalchemy/event/api.py", "remove"),
    ("lib/sqlalchemy/event/api.py", "contains"),
    ("lib/sqlalchemy/util/langhelpers.py", "walk_subclasses"),
    ("lib/sqlalchemy/util/langhelpers.py", "only_once"),
]

# op encodings (trees)
#  [0, bases, mro]  new class            [1, c]  new instance of class c (its .dispatch is touched)
#  [2, tk, tn, f, insert, propagate, once, named, retval]  listen   (tk 0 = class, 1 = instance)
#  [3, tk, tn, f]  remove     [4, tk, tn, f]  contains     [5, i]  dispatch on instance i
# results: [0] ok, [1, calls], [2, bool], [3] InvalidRequestError, [4] ValueError, [5] bad operation


# ------------------------------------------------------------------ T2: the flag-setting condition of _exec_once_impl
SKELETON_EXEC_ONCE_IMPL = (
    "def _exec_once_impl(self, retry_on_exception, *args, **kw):\n"
    "    with self._get_exec_once_mutex():\n"
    "        if not self._exec_once:\n"
    "            try:\n"
    "                self(*args, **kw)\n"
    "                exception = False\n"
    "            except:\n"
    "                exception = True\n"
    "                raise\n"
    "            finally:\n"
    "                if HOLE:\n"
    "                    self._exec_once = True"
)


def _bool_expr(e):
    """Python boolean expression over {exception, retry_on_exception} -> Gallina (fails closed)"""
    import ast

    from translate.fingerprint import TranslateError

    if isinstance(e, ast.Name) and e.id in ("exception", "retry_on_exception"):
        return e.id
    if isinstance(e, ast.Constant) and isinstance(e.value, bool):
        return "true" if e.value else "false"
    if isinstance(e, ast.UnaryOp) and isinstance(e.op, ast.Not):
        return "(negb %s)" % _bool_expr(e.operand)
    if isinstance(e, ast.BoolOp) and isinstance(e.op, (ast.And, ast.Or)):
        op = " && " if isinstance(e.op, ast.And) else " || "
        return "(" + op.join(_bool_expr(v) for v in e.values) + ")"
    raise TranslateError("unsupported expression in _exec_once_impl: %s" % ast.dump(e)[:200])


def _translate_due(repo, outdir):
    import ast
    import os

    from translate import fingerprint

    path = os.path.join(repo, "lib/sqlalchemy/event/attr.py")
    with open(path) as f:
        tree = ast.parse(f.read())
    node = fingerprint.find_node(tree, "_CompoundListener._exec_once_impl")
    node = fingerprint._Strip().visit(node)
    holes = []

    class Hole(ast.NodeTransformer):
        def visit_Try(self, n):
            self.generic_visit(n)
            if len(n.finalbody) == 1 and isinstance(n.finalbody[0], ast.If) and not n.finalbody[0].orelse:
                holes.append(n.finalbody[0].test)
                n.finalbody[0].test = ast.Name("HOLE", ast.Load())
            return n

    node = Hole().visit(node)
    ast.fix_missing_locations(node)
    got = ast.unparse(node)
    if len(holes) != 1 or got != SKELETON_EXEC_ONCE_IMPL:
        raise fingerprint.TranslateError(
            "_exec_once_impl no longer has the statement structure the model transcribes:\n%s" % got[:1500]
        )
    expr = _bool_expr(holes[0])
    out = os.path.join(outdir, "C28_gen.v")
    with open(out, "w") as f:
        f.write(
            "(* generated from lib/sqlalchemy/event/attr.py :: _CompoundListener._exec_once_impl *)\n"
            "From Coq Require Import Bool.\n"
            "From SAV.event Require Import ExecOnce.\n"
            "Definition gen_sets_flag (exception retry_on_exception : bool) : bool := %s.\n"
            "(* exec_once passes retry_on_exception=False, exec_once_unless_exception passes True *)\n"
            "Lemma gen_due_ok : forall e, gen_sets_flag e false = due KOnce e /\\ gen_sets_flag e true = due KUnless e.\n"
            "Proof. intros []; split; reflexivity. Qed.\n" % expr
        )
    return [out]


def translate(repo, outdir):
    from translate import fingerprint

    gen = _translate_due(repo, outdir)  # T2: skeleton + expression of _exec_once_impl
    fingerprint.check(repo, ANCHORS, "C28")  # pinned normalised source of everything else the models transcribe
    return gen


# ------------------------------------------------------------------ generators
def _c3(bases_of, bases):
    """__mro__[1:] (class indices) of a new class with the given direct bases, or None if inconsistent"""
    seqs = [[b] + bases_of[b][1] for b in bases] + [list(bases)]
    out = []
    seqs = [list(s) for s in seqs if s]
    while seqs:
        for s in seqs:
            h = s[0]
            if not any(h in t[1:] for t in seqs):
                break
        else:
            return None
        out.append(h)
        seqs = [[x for x in s if x != h] for s in seqs]
        seqs = [s for s in seqs if s]
    return out


def L(tk, tn, f, insert=0, prop=0, once=0, named=0, retval=0):
    return [2, tk, tn, f, insert, prop, once, named, retval]


def _finish(ops, ninst):
    return ops + [[5, i] for i in range(ninst)] + ([[5, 0]] if ninst else [])


def _expand(sym, st):
    """expand an alphabet symbol into concrete ops, tracking the hierarchy (st = {"h": [(bases, mro)], "ni": n})"""
    out = []
    for o in sym:
        if o[0] == "newcls":
            bases = [b for b in o[1] if b < len(st["h"])]
            if len(bases) != len(o[1]):
                continue
            mro = _c3(st["h"], bases)
            if mro is None:
                continue
            st["h"].append((bases, mro))
            out.append([0, bases, mro])
        elif o[0] == "newinst_last":
            out.append([1, len(st["h"]) - 1])
            st["ni"] += 1
        elif o[0] == "displast":
            if st["ni"]:
                out.append([5, st["ni"] - 1])
        else:
            out.append(list(o))
    return out


PRELUDE = [("newcls", []), ("newcls", [0]), [1, 1], [1, 0]]  # K0, K1(K0), i0 : K1, i1 : K0
LATE = (("newcls", [1]), ("newinst_last",), ("displast",))  # class K2(K1) created now, instantiated, dispatched

ALPHA_A = [  # class level: registration order, insert, removal, late subclass
    (L(0, 0, 0),),
    (L(0, 1, 1),),
    (L(0, 0, 2, insert=1),),
    ([3, 0, 0, 0],),
    LATE,
]
ALPHA_B = [  # instance level vs class level, once, wrappers
    (L(1, 0, 0),),
    (L(1, 0, 1, insert=1, prop=1),),
    (L(0, 1, 0, once=1),),
    ([3, 1, 0, 0],),
    ([5, 0],),
]
ALPHA_C = [
    (L(0, 0, 0),),
    (L(0, 1, 1),),
    (L(0, 0, 1, insert=1),),
    (L(0, 1, 0, once=1),),
    (L(1, 0, 0),),
    (L(1, 0, 1, insert=1),),
    (L(0, 1, 2, named=1),),
    ([3, 0, 0, 0],),
    ([3, 0, 1, 1],),
    ([3, 1, 0, 0],),
    ([3, 0, 0, 1],),
    LATE,
    ([5, 0],),
    ([4, 0, 1, 1], [4, 1, 0, 0]),
]


def _exhaustive(alpha, maxlen, kind, full_upto=99, stride=3):
    import itertools

    cases = []
    skipped = 0
    kept = 0
    for n in range(1, maxlen + 1):
        for seq in itertools.product(range(len(alpha)), repeat=n):
            st = {"h": [], "ni": 0}
            ops = []
            for o in PRELUDE:
                if isinstance(o, tuple):
                    ops += _expand((o,), st)
                else:
                    ops.append(list(o))
                    st["ni"] += 1
            if n > 1 and alpha[seq[-1]] == ([5, 0],):
                continue  # the finisher dispatches anyway
            for s in seq:
                ops += _expand(alpha[s], st)
            ops = _finish(ops, st["ni"])
            # sequences that leave the guarded region (known findings) are sampled, the others are all kept
            if n > 3 and any(_expected_seq(ops)[1]):
                skipped += 1
                if skipped % 12:
                    continue
            if n > full_upto:
                kept += 1
                if kept % stride:
                    continue
            cases.append({"in": [0, ops], "kind": kind})
    return cases


def _random_seq(rng, maxcls=5, maxinst=3, nfn=4):
    st = {"h": [], "ni": 0}
    ops = []
    live_cls = set()
    ops += _expand((("newcls", []),), st)
    n = rng.randint(4, 11)
    mi = rng.random() < 0.35
    for _ in range(n):
        r = rng.random()
        nc = len(st["h"])
        if r < 0.16 and nc < maxcls:
            if mi and nc >= 2 and rng.random() < 0.5:
                bases = rng.sample(range(nc), 2)
            elif rng.random() < 0.08:
                bases = []
            else:
                bases = [rng.randrange(nc)]
            ops += _expand((("newcls", bases),), st)
        elif r < 0.28 and st["ni"] < maxinst:
            ops.append([1, rng.randrange(nc)])
            st["ni"] += 1
        elif r < 0.62:
            if st["ni"] and rng.random() < 0.4:
                tk, tn = 1, rng.randrange(st["ni"])
            else:
                tk, tn = 0, rng.randrange(nc)
            f = rng.randrange(nfn)
            for _try in range(3):  # mostly avoid repeating a live class-level pair (known-finding region)
                if tk == 0 and (tn, f) in live_cls and rng.random() < 0.9:
                    f = rng.randrange(nfn)
            if tk == 0:
                live_cls.add((tn, f))
            ops.append(
                L(
                    tk,
                    tn,
                    f,
                    insert=int(rng.random() < 0.3),
                    prop=int(rng.random() < 0.2),
                    once=int(rng.random() < 0.2),
                    named=int(rng.random() < 0.15),
                    retval=int(rng.random() < 0.1),
                )
            )
        elif r < 0.80:
            if st["ni"] and rng.random() < 0.4:
                tk, tn = 1, rng.randrange(st["ni"])
            else:
                tk, tn = 0, rng.randrange(nc)
            f = rng.randrange(nfn)
            if tk == 0:
                live_cls.discard((tn, f))
            ops.append([3, tk, tn, f])
        elif r < 0.85:
            if st["ni"] and rng.random() < 0.4:
                tk, tn = 1, rng.randrange(st["ni"])
            else:
                tk, tn = 0, rng.randrange(nc)
            ops.append([4, tk, tn, rng.randrange(nfn)])
        elif st["ni"]:
            ops.append([5, rng.randrange(st["ni"])])
        if rng.random() < 0.02:  # an operation on a target that does not exist (answered by the harness itself)
            ops.append(rng.choice([[1, nc + 1], [5, st["ni"] + 2], [3, 0, nc + 3, 0], [4, 1, st["ni"], 1], L(1, st["ni"] + 1, 0)]))
    # every class gets a final instance so that all class-level collections are observed
    for c in range(len(st["h"])):
        if st["ni"] < maxinst + len(st["h"]):
            ops.append([1, c])
            st["ni"] += 1
    return {"in": [0, _finish(ops, st["ni"])], "kind": "seq-random-mi" if mi else "seq-random"}


CONC_PROGS = ["o", "u", "s", "oo", "uu", "ou", "uo", "U", "Uu", "Uo", "O", "Ou", "S", "Ss", "ss", "us", "so", "UU"]


def _conc_case(rng):
    nth = rng.choice([2, 2, 3, 3, 4])
    fam = rng.random()
    if fam < 0.35:
        progs = [rng.choice(["o", "oo", "o", "O"]) for _ in range(nth)]
    elif fam < 0.65:
        progs = [rng.choice(["u", "uu", "U", "Uu", "UU"]) for _ in range(nth)]
    elif fam < 0.8:
        progs = [rng.choice(["s", "ss", "S", "Ss"]) for _ in range(nth)]
    else:
        progs = [rng.choice(CONC_PROGS) for _ in range(nth)]
    return {"in": [1, nth, []], "progs": progs, "sseed": rng.randrange(1 << 30), "kind": "conc"}


def gen_cases(rng, tier):
    thorough = tier == "thorough"
    cases = []
    cases += _exhaustive(ALPHA_A, 7 if thorough else 5, "seq-exh-class", full_upto=7 if thorough else 4)
    cases += _exhaustive(ALPHA_B, 6 if thorough else 5, "seq-exh-inst", full_upto=6 if thorough else 4)
    cases += _exhaustive(ALPHA_C, 4 if thorough else 2, "seq-exh-mixed")
    for _ in range(12000 if thorough else 500):
        cases.append(_random_seq(rng))
    for _ in range(4000 if thorough else 300):
        cases.append(_conc_case(rng))
    for _ in range(3000 if thorough else 250):
        cases.append(_prop_chain(rng))
    for _ in range(3000 if thorough else 150):
        cases.append(_prop_random(rng))
    for _ in range(2000 if thorough else 200):
        cases.append(_once_case(rng))
    return cases


def search_cases(rng, tier):
    cases = [_random_seq(rng) for _ in range(1500)]
    cases += _exhaustive(ALPHA_A, 4, "seq-exh-class") + _exhaustive(ALPHA_B, 4, "seq-exh-inst")
    cases += [_conc_case(rng) for _ in range(600)]
    cases += [_prop_chain(rng) for _ in range(400)] + [_prop_random(rng) for _ in range(300)]
    cases += [_once_case(rng) for _ in range(400)]
    return cases


def nontrivial(c):
    t = c["in"]
    if t[0] == 0:
        seen_listen = False
        for o in t[1]:
            if o[0] == 2:
                seen_listen = True
            if o[0] == 3 or (o[0] == 0 and seen_listen):
                return True
        return False
    if t[0] == 3:
        hops = sum(1 for o in t[1] if o[0] == 6)
        return hops >= 2 and any(o[0] == 3 for o in t[1])
    if t[0] == 2:
        depth = 0
        for e in t[2]:
            if e[0] == 0:
                depth += 1
            elif e[0] == 2:
                depth -= 1
            elif depth:  # a wrapper call (skip) while the body is running
                return True
        return False
    evs = t[2]
    start = {}
    for k, e in enumerate(evs):
        i = e[1]
        if e[0] == 0:
            start[i] = k
        elif i in start and any(evs[j][1] != i for j in range(start[i], k)):
            return True
    return False


# ------------------------------------------------------------------ implementation side: sequences
def _run_seq(ops):
    from sqlalchemy import event, exc

    calls = []

    class TE(event.Events):
        @classmethod
        def _listen(cls, event_key, *, retval=False, **kw):
            # the pattern of ConnectionEvents / AttributeEvents: adapt the function with a wrapper
            if retval:
                fn = event_key._listen_fn

                def adapt(*a, **k):
                    return fn(*a, **k)

                event_key = event_key.with_wrapper(adapt)
            event_key.base_listen(**kw)

        def ev(self, x):
            pass

    classes = []
    insts = []
    fns = {}

    def fn_of(n):
        if n not in fns:

            def f(*a, **k):
                calls.append(n)

            f.__name__ = "f%d" % n
            fns[n] = f
        return fns[n]

    def target(tk, tn):
        return classes[tn] if tk == 0 else insts[tn]

    out = []
    # registry hygiene: _key_to_collection is keyed by id(); entries of targets of earlier cases that
    # were not removed would be hit again when CPython reuses the ids (garbage collection is outside C28)
    from sqlalchemy.event import registry as _reg

    keys0 = set(_reg._key_to_collection)
    colls0 = set(_reg._collection_to_key)
    try:
        for idx, o in enumerate(ops):
            code = o[0]
            if code == 0:
                bases, mro = o[1], o[2]
                if any(b >= len(classes) for b in bases + mro):
                    out.append([5])
                    continue
                if bases:
                    k = type("K%d" % len(classes), tuple(classes[b] for b in bases), {})
                else:
                    k = type("K%d" % len(classes), (), {"dispatch": event.dispatcher(TE)})
                real = [classes.index(m) for m in k.__mro__[1:] if m is not object]
                if real != list(mro):
                    raise AssertionError("generator MRO %r differs from Python's %r" % (mro, real))
                classes.append(k)
                out.append([0])
            elif code == 1:
                if o[1] >= len(classes):
                    out.append([5])
                    continue
                obj = classes[o[1]]()
                obj.dispatch  # first access creates the per-instance _Dispatch
                insts.append(obj)
                out.append([0])
            elif code == 2:
                _, tk, tn, f, ins, prop, once, named, retval = o
                if tn >= (len(classes) if tk == 0 else len(insts)):
                    out.append([5])
                    continue
                kw = {}
                if ins:
                    kw["insert"] = True
                if prop:
                    kw["propagate"] = True
                if once:
                    kw["once"] = True
                if named:
                    kw["named"] = True
                if retval:
                    kw["retval"] = True
                if (idx + f) % 2:
                    event.listens_for(target(tk, tn), "ev", **kw)(fn_of(f))
                else:
                    event.listen(target(tk, tn), "ev", fn_of(f), **kw)
                out.append([0])
            elif code == 3:
                _, tk, tn, f = o
                if tn >= (len(classes) if tk == 0 else len(insts)):
                    out.append([5])
                    continue
                try:
                    event.remove(target(tk, tn), "ev", fn_of(f))
                    out.append([0])
                except exc.InvalidRequestError:
                    out.append([3])
                except ValueError:
                    out.append([4])
            elif code == 4:
                _, tk, tn, f = o
                if tn >= (len(classes) if tk == 0 else len(insts)):
                    out.append([5])
                    continue
                out.append([2, int(bool(event.contains(target(tk, tn), "ev", fn_of(f))))])
            elif code == 5:
                if o[1] >= len(insts):
                    out.append([5])
                    continue
                del calls[:]
                insts[o[1]].dispatch.ev(idx)
                out.append([1, list(calls)])
            else:
                raise AssertionError("bad op %r" % (o,))
    finally:
        event.base._remove_dispatcher(TE)
        for k in [k for k in _reg._key_to_collection if k not in keys0]:
            del _reg._key_to_collection[k]
        for k in [k for k in _reg._collection_to_key if k not in colls0]:
            del _reg._collection_to_key[k]
    return out


def _expected_seq(ops):
    """the registration-log semantics, computed directly (the property text): returns the expected
    result of every op and, per op, the guard clause it leaves (for match_finding)"""
    bases_of = []
    inst_cls = []
    log = []  # live registrations in registration order: dict(tgt, fn, ins, once, plain, fired)
    exp = []
    marks = []
    alt = {}  # op index -> acceptable results, where more than one

    def ancestors(c):
        seen = []
        todo = [c]
        while todo:
            x = todo.pop()
            if x in seen:
                continue
            seen.append(x)
            todo += bases_of[x]
        return seen

    def ordered(regs):
        return [r for r in reversed(regs) if r["ins"]] + [r for r in regs if not r["ins"]]

    for o in ops:
        code = o[0]
        mark = None
        if code == 0:
            if any(b >= len(bases_of) for b in o[1] + o[2]):
                exp.append([5])
            else:
                bases_of.append(list(o[1]))
                c = len(bases_of) - 1
                if len(o[1]) > 1 and any(r["tgt"][0] == 0 and r["tgt"][1] in ancestors(c) for r in log):
                    mark = "late-mi"
                exp.append([0])
        elif code == 1:
            if o[1] >= len(bases_of):
                exp.append([5])
            else:
                inst_cls.append(o[1])
                exp.append([0])
        elif code == 2:
            _, tk, tn, f, ins, prop, once, named, retval = o
            if tn >= (len(bases_of) if tk == 0 else len(inst_cls)):
                exp.append([5])
            else:
                plain = not (once or named or retval)
                if not any(r["tgt"] == (tk, tn) and r["fn"] == f for r in log):
                    log.append({"tgt": (tk, tn), "fn": f, "ins": bool(ins), "once": bool(once), "plain": plain, "fired": False})
                exp.append([0])
        elif code == 3:
            _, tk, tn, f = o
            if tn >= (len(bases_of) if tk == 0 else len(inst_cls)):
                exp.append([5])
            else:
                hit = [r for r in log if r["tgt"] == (tk, tn) and r["fn"] == f]
                if hit:
                    log.remove(hit[0])
                    if tk == 0 and hit[0]["plain"]:
                        for r in log:
                            if r["tgt"][0] == 0 and r["plain"] and r["fn"] == f:
                                a, b = r["tgt"][1], tn
                                if a in ancestors(b) or b in ancestors(a):
                                    mark = "shared"
                    exp.append([0])
                else:
                    exp.append([3])
                    alt[len(exp) - 1] = [[3], [0]]  # the text does not require the InvalidRequestError
        elif code == 4:
            _, tk, tn, f = o
            if tn >= (len(bases_of) if tk == 0 else len(inst_cls)):
                exp.append([5])
            else:
                exp.append([2, int(any(r["tgt"] == (tk, tn) and r["fn"] == f for r in log))])
        elif code == 5:
            if o[1] >= len(inst_cls):
                exp.append([5])
            else:
                i = o[1]
                anc = ancestors(inst_cls[i])
                regs = ordered([r for r in log if r["tgt"][0] == 0 and r["tgt"][1] in anc]) + ordered(
                    [r for r in log if r["tgt"] == (1, i)]
                )
                # the property text read literally (one registration order over class and instance level)
                # is accepted as well as the documented "class-level listeners first"
                regs2 = ordered([r for r in log if (r["tgt"][0] == 0 and r["tgt"][1] in anc) or r["tgt"] == (1, i)])
                alts = []
                for rs in (regs, regs2):
                    alts.append([1, [r["fn"] for r in rs if not (r["once"] and r["fired"])]])
                for r in regs:
                    if r["once"]:
                        r["fired"] = True
                exp.append(alts[0])
                alt[len(exp) - 1] = alts
        marks.append(mark)
    _expected_seq.alt = alt
    return exp, marks


def _oracle_seq(c, obs):
    ops = c["in"][1]
    exp, _ = _expected_seq(ops)
    alt = _expected_seq.alt
    for k, (e, a) in enumerate(zip(exp, obs)):
        if e != a and a not in alt.get(k, ()):
            o = ops[k]
            if o[0] == 5:
                return "op %d: dispatch on instance %d called %r, the registrations in force give %r" % (k, o[1], a[1:], e[1:])
            return "op %d %r: result %r, the registrations in force give %r" % (k, o, a, e)
    return None


# ------------------------------------------------------------------ implementation side: exec_once
_mon = {}
KINDS = {"o": 0, "u": 1, "s": 2}


def _run_conc(c):
    import random

    from sqlalchemy import event
    from sqlalchemy.event import attr
    from vlib.sched import Deadlock, Sched, SchedLock

    rng = random.Random(c["sseed"])
    sched = Sched(rng)
    raw = []
    cur = {}  # tid -> (kind, fail)
    runs = []  # [kind, tid, begin index, end index or None, exc]

    def tid():
        w = sched.current()
        return w.tid if w else -1

    class TE(event.Events):
        def ev(self, x):
            pass

    class T:
        dispatch = event.dispatcher(TE)

    class HC(attr._ListenerCollection):
        # no __slots__: the two flags become properties (yield point + trace record) over the instance dict
        def _g_once(self):
            if sched.current() is not None:
                sched.yield_()
                raw.append([1, tid(), 0, int(bool(self.__dict__["_eo"]))])
            return self.__dict__["_eo"]

        def _s_once(self, v):
            if sched.current() is not None:
                sched.yield_()
                raw.append([5, tid()] if v is True else [99, tid()])
            self.__dict__["_eo"] = v

        def _g_sync(self):
            if sched.current() is not None:
                sched.yield_()
                raw.append([1, tid(), 1, int(bool(self.__dict__["_es"]))])
            return self.__dict__["_es"]

        def _s_sync(self, v):
            if sched.current() is not None:
                sched.yield_()
                raw.append([5, tid()] if v is True else [99, tid()])
            self.__dict__["_es"] = v

        _exec_once = property(_g_once, _s_once)
        _exec_w_sync_once = property(_g_sync, _s_sync)

    try:
        tgt = T()
        disp = tgt.dispatch
        coll = HC(T.dispatch.ev, T)
        setattr(disp, "ev", coll)
        coll._exec_once_mutex = SchedLock(sched, on_event=lambda k, t: raw.append([2, t] if k == "lk" else [6, t]))

        def first(x):  # class level: the beginning of one listener run
            t = tid()
            raw.append([3, t])
            runs.append([cur[t][0], t, len(raw) - 1, None, None])
            sched.yield_()

        def last(x):  # instance level: the end of the run; raises when the script says so
            t = tid()
            sched.yield_()
            fail = cur[t][1]
            raw.append([4, t, int(fail)])
            for r in runs:
                if r[1] == t and r[3] is None:
                    r[3] = len(raw) - 1
                    r[4] = fail
            if fail:
                raise RuntimeError("listener failed")

        event.listen(T, "ev", first)
        event.listen(tgt, "ev", last)
        if getattr(disp, "ev") is not coll:
            raise AssertionError("harness collection was replaced")

        def fn_for(prog):
            def fn(w):
                for ch in prog:
                    sched.yield_()
                    k = KINDS[ch.lower()]
                    cur[w.tid] = (k, ch.isupper())
                    raw.append([0, w.tid, k])
                    try:
                        if k == 0:
                            disp.ev.exec_once(1)
                        elif k == 1:
                            disp.ev.exec_once_unless_exception(1)
                        else:
                            disp.ev._exec_w_sync_on_first_run(1)
                    except RuntimeError:
                        pass

            return fn

        for p in c["progs"]:
            sched.spawn(fn_for(p))
        err = None
        try:
            sched.run()
        except Deadlock as e:
            err = "scheduler: %s" % e
        for w in sched.workers:
            if w.error is not None and err is None:
                err = "worker %d: %s: %s" % (w.tid, type(w.error).__name__, w.error)
        if err:
            raise AssertionError(err)
        final = [
            int(bool(coll.__dict__["_eo"])),
            int(bool(coll.__dict__["_es"])),
            sum(1 for r in runs if r[0] != 2),
            sum(1 for r in runs if r[0] == 2),
        ]
    finally:
        event.base._remove_dispatcher(TE)
    return raw, final, runs


def _oracle_conc(c, raw, runs):
    """the property, directly on the recorded listener runs"""
    ou = [r for r in runs if r[0] != 2]
    sy = [r for r in runs if r[0] == 2]
    for r in runs:
        if r[3] is None:
            return "a listener run never ended"
    # once-only listeners: runs never overlap; nothing runs after a run that must have been the last
    for a in ou:
        for b in ou:
            if a is not b and a[2] < b[2] < a[3]:
                return "two exec_once runs of the listeners overlap (threads %d and %d)" % (a[1], b[1])
    final_runs = [r for r in ou if (not r[4]) or r[0] == 0]  # succeeded, or raised under exec_once
    for a in final_runs:
        for b in ou:
            if b is not a and b[2] > a[3]:
                return "listeners ran again (thread %d) after the run of thread %d that %s" % (
                    b[1],
                    a[1],
                    "succeeded" if not a[4] else "raised under exec_once",
                )
    if len([r for r in ou if not r[4]]) > 1:
        return "once-only listeners ran successfully %d times" % len([r for r in ou if not r[4]])
    ncalls = sum(1 for e in raw if e[0] == 0 and e[2] != 2)
    if ncalls and not ou:
        return "exec_once was called %d times but the listeners never ran" % ncalls
    if ncalls and not any(r[4] for r in ou) and len(ou) != 1:
        return "no listener raised, %d calls, but the listeners ran %d times" % (ncalls, len(ou))
    # a failed exec_once_unless_exception run is retried by the next call that starts afterwards
    calls = [(k, e) for k, e in enumerate(raw) if e[0] == 0 and e[2] != 2]
    for a in ou:
        if a[4] and a[0] == 1 and not final_runs:
            later = [k for k, e in calls if k > a[3]]
            if later and not any(b[2] > a[3] for b in ou):
                return "a call made after the failed exec_once_unless_exception run did not retry the listeners"
    # _exec_w_sync_on_first_run: every call runs the listeners; no overlap before the first success has ended
    nsync = sum(1 for e in raw if e[0] == 0 and e[2] == 2)
    if nsync != len(sy):
        return "_exec_w_sync_on_first_run: %d calls but %d listener runs" % (nsync, len(sy))
    ends = [r[3] for r in sy if not r[4]]
    first_ok = min(ends) if ends else None
    for a in sy:
        for b in sy:
            if a is not b and a[2] < b[2] < a[3] and (first_ok is None or b[2] < first_ok):
                return "two first runs of _exec_w_sync_on_first_run overlap (threads %d and %d)" % (a[1], b[1])
    return None



# ------------------------------------------------------------------ family 3: propagation histories (_update) + both registry maps
# ops: [0] new instance; [2, i, f, insert, propagate, once, named, retval] listen; [3, i, f] remove; [4, i, f] contains;
#      [5, i] dispatch; [6, j, i, only_propagate] insts[j].dispatch._update(insts[i].dispatch, only_propagate);
#      [7, nf] snapshot of _key_to_collection / _collection_to_key over owners x (target, fn < nf)
def PL(i, f, insert=0, prop=1, once=0, named=0, retval=0):
    return [2, i, f, insert, prop, once, named, retval]


def _prop_chain(rng):
    """listeners on instance 0 carried over `hops` _update steps 0 -> 1 -> 2 ..., then removal / contains / dispatch"""
    hops = rng.choice([1, 2, 2, 3, 3, 4])
    n = hops + 1
    nf = 3
    ops = [[0] for _ in range(n)]
    live = []
    for f in rng.sample(range(nf), rng.randint(1, nf)):
        ops.append(
            PL(0, f, insert=int(rng.random() < 0.3), prop=int(rng.random() < 0.85), once=int(rng.random() < 0.15),
               named=int(rng.random() < 0.15), retval=int(rng.random() < 0.1))
        )
        live.append(f)
    for h in range(hops):
        if rng.random() < 0.3:  # an own (wrapped, hence distinct) listener on the intermediate instance
            ops.append(PL(h + 1, rng.randrange(nf), prop=int(rng.random() < 0.5), named=1))
        ops.append([6, h + 1, h, int(rng.random() < 0.8)])
        if rng.random() < 0.25:
            ops.append([5, h + 1])
    tail = []
    for f in live:
        r = rng.random()
        if r < 0.6:
            tail += [[3, 0, f], [4, 0, f]]
        elif r < 0.75:
            tail += [[4, 0, f]]
    rng.shuffle(tail)
    ops += [[7, nf]] + tail[: len(tail) // 2] + [[5, i] for i in range(n)] + tail[len(tail) // 2 :]
    ops += [[7, nf]] + [[5, i] for i in range(n)]
    if rng.random() < 0.5:
        ops += [[3, 0, f] for f in range(nf)] + [[7, nf]] + [[5, n - 1]]
    return {"in": [3, ops], "kind": "prop-chain"}


def _prop_random(rng):
    n = rng.randint(2, 4)
    nf = 3
    ops = [[0] for _ in range(n)]
    for _ in range(rng.randint(4, 10)):
        r = rng.random()
        if r < 0.35:
            ops.append(
                PL(rng.randrange(n), rng.randrange(nf), insert=int(rng.random() < 0.3), prop=int(rng.random() < 0.7),
                   once=int(rng.random() < 0.15), named=int(rng.random() < 0.4), retval=0)
            )
        elif r < 0.6:
            j, i = rng.sample(range(n), 2)
            ops.append([6, j, i, int(rng.random() < 0.7)])
        elif r < 0.75:
            ops.append([3, rng.randrange(n), rng.randrange(nf)])
        elif r < 0.82:
            ops.append([4, rng.randrange(n), rng.randrange(nf)])
        elif r < 0.9:
            ops.append([7, nf])
        else:
            ops.append([5, rng.randrange(n)])
    ops += [[7, nf]] + [[5, i] for i in range(n)]
    return {"in": [3, ops], "kind": "prop-random"}


def _run_prop(ops):
    from sqlalchemy import event, exc
    from sqlalchemy.event import attr
    from sqlalchemy.event import registry as _reg

    calls = []

    class TE(event.Events):
        @classmethod
        def _listen(cls, event_key, *, retval=False, **kw):
            if retval:
                fn = event_key._listen_fn

                def adapt(*a, **k):
                    return fn(*a, **k)

                event_key = event_key.with_wrapper(adapt)
            event_key.base_listen(**kw)

        def ev(self, x):
            pass

    class T:
        dispatch = event.dispatcher(TE)

    insts = []
    fns = {}

    def fn_of(n):
        if n not in fns:

            def f(*a, **k):
                calls.append(n)

            fns[n] = f
        return fns[n]

    out = []
    keys0 = set(_reg._key_to_collection)
    colls0 = set(_reg._collection_to_key)
    try:
        for idx, o in enumerate(ops):
            code = o[0]
            if code == 0:
                obj = T()
                obj.dispatch
                insts.append(obj)
                out.append([0])
                continue
            if code != 7 and any(x >= len(insts) for x in (o[1:3] if code == 6 else o[1:2])):
                out.append([5])
                continue
            if code == 2:
                _, i, f, ins, prop, once, named, retval = o
                kw = {}
                for name, v in (("insert", ins), ("propagate", prop), ("once", once), ("named", named), ("retval", retval)):
                    if v:
                        kw[name] = True
                event.listen(insts[i], "ev", fn_of(f), **kw)
                out.append([0])
            elif code == 3:
                try:
                    event.remove(insts[o[1]], "ev", fn_of(o[2]))
                    out.append([0])
                except exc.InvalidRequestError:
                    out.append([3])
                except ValueError:
                    out.append([4])
            elif code == 4:
                out.append([2, int(bool(event.contains(insts[o[1]], "ev", fn_of(o[2]))))])
            elif code == 5:
                del calls[:]
                insts[o[1]].dispatch.ev(idx)
                out.append([1, list(calls)])
            elif code == 6:
                if o[1] == o[2]:
                    out.append([5])
                    continue
                insts[o[1]].dispatch._update(insts[o[2]].dispatch, only_propagate=bool(o[3]))
                out.append([0])
            elif code == 7:
                fwd, rev = [], []
                for own in insts:
                    coll = own.dispatch.ev
                    ref = coll.ref if isinstance(coll, attr._ListenerCollection) else None
                    for tgt in insts:
                        for f in range(o[1]):
                            key = (id(tgt), "ev", id(fn_of(f)))
                            fwd.append(int(ref is not None and ref in _reg._key_to_collection.get(key, {})))
                            rev.append(int(ref is not None and key in _reg._collection_to_key.get(ref, {}).values()))
                out.append([6, fwd, rev])
            else:
                raise AssertionError("bad op %r" % (o,))
    finally:
        event.base._remove_dispatcher(TE)
        for k in [k for k in _reg._key_to_collection if k not in keys0]:
            del _reg._key_to_collection[k]
        for k in [k for k in _reg._collection_to_key if k not in colls0]:
            del _reg._collection_to_key[k]
    return out


def _prop_expected(ops):
    """registrations in force, with propagation: a listener copied by _update() belongs to the registration it was
    copied from; remove() takes it out of every collection; contains() and both registry maps know exactly the
    collections that hold it (a registration is held by a collection at most once)."""
    lists, props = [], []
    left = None  # first operation after which a function object occurs twice in one collection (known finding)
    exps = []
    for k, o in enumerate(ops):
        code = o[0]
        exp = None
        if code == 0:
            lists.append([])
            props.append([])
            exp = [[0]]
        elif code != 7 and any(x >= len(lists) for x in (o[1:3] if code == 6 else o[1:2])):
            exp = [[5]]
        elif code == 2:
            _, i, f, ins, prop, once, named, retval = o
            plain = not (once or named or retval)
            if not any(r["key"] == (i, f) for l in lists for r in l):
                if plain and any(r["plain"] and r["fn"] == f for r in lists[i]) and left is None:
                    left = k
                r = {"key": (i, f), "fn": f, "once": bool(once), "plain": plain, "fired": False}
                if ins:
                    lists[i].insert(0, r)
                else:
                    lists[i].append(r)
                if prop:
                    props[i].append(r)
            exp = [[0]]
        elif code == 3:
            hit = any(r["key"] == (o[1], o[2]) for l in lists for r in l)
            for i in range(len(lists)):
                lists[i] = [r for r in lists[i] if r["key"] != (o[1], o[2])]
                props[i] = [r for r in props[i] if r["key"] != (o[1], o[2])]
            exp = [[0]] if hit else [[3], [0]]
        elif code == 4:
            exp = [[2, int(any(r["key"] == (o[1], o[2]) for l in lists for r in l))]]
        elif code == 5:
            callz = []
            for r in lists[o[1]]:
                if r["once"]:
                    if r["fired"]:
                        continue
                    r["fired"] = True
                callz.append(r["fn"])
            exp = [[1, callz]]
        elif code == 6:
            _, j, i, onlyp = o
            if j == i:
                exp = [[5]]
            else:
                for r in lists[i]:
                    if left is None and any(r is q or (r["plain"] and q["plain"] and r["fn"] == q["fn"]) for q in lists[j]):
                        left = k
                for r in props[i]:
                    if not any(r is q for q in props[j]):
                        props[j].append(r)
                lists[j] += [r for r in lists[i] if not any(r is q for q in lists[j])
                             and ((not onlyp) or any(r is q for q in props[j]))]
                exp = [[0]]
        elif code == 7:
            bits = []
            for own in range(len(lists)):
                for t in range(len(lists)):
                    for f in range(o[1]):
                        bits.append(int(any(r["key"] == (t, f) for r in lists[own])))
            exp = [[6, bits, bits]]
        exps.append(exp)
    return exps, left


def _oracle_prop(c, obs):
    ops = c["in"][1]
    exps, _ = _prop_expected(ops)
    for k, (o, a, exp) in enumerate(zip(ops, obs, exps)):
        code = o[0]
        if a not in exp:
            if code == 5:
                return "op %d: dispatch on instance %d called %r, the registrations in force give %r" % (k, o[1], a[1:], exp[0][1:])
            if code == 7:
                return "op %d: registry maps (forward %r, reverse %r) differ from the registrations in force %r" % (
                    k, a[1], a[2], exp[0][1])
            return "op %d %r: result %r, the registrations in force give %r" % (k, o, a, exp[0])
    return None


# ------------------------------------------------------------------ family 2: util.only_once under the scheduler / re-entrantly
def _once_case(rng):
    nth = rng.choice([1, 2, 2, 3])
    retry = int(rng.random() < 0.4)
    progs = [rng.randint(1, 2) for _ in range(nth)]  # dispatches per thread
    return {
        "in": [2, retry, []],
        "progs": progs,
        "reenter": sorted(rng.sample(range(4), rng.choice([0, 0, 1, 2]) if nth > 1 else rng.choice([1, 1, 2]))),
        "fail": sorted(rng.sample(range(4), rng.choice([0, 1, 2]))) if retry or rng.random() < 0.3 else [],
        "sseed": rng.randrange(1 << 30),
        "kind": "once-reentrant" if nth == 1 else "once-conc",
    }


def _run_once(c):
    import random

    from sqlalchemy import event
    from vlib.sched import Deadlock, Sched

    retry = bool(c["in"][1])
    rng = random.Random(c["sseed"])
    sched = Sched(rng)
    raw = []
    stack = {}  # tid -> stack of context ids
    nctx = [0]
    nenter = [0]
    reenter, fail = set(c["reenter"]), set(c["fail"])

    def tid():
        w = sched.current()
        return w.tid if w else -1

    class TE(event.Events):
        def ev(self, x):
            pass

    class T:
        dispatch = event.dispatcher(TE)

    tgt = T()

    def do_dispatch():
        st = stack.setdefault(tid(), [])
        st.append(nctx[0])
        nctx[0] += 1
        try:
            tgt.dispatch.ev(1)
        except RuntimeError:
            pass
        finally:
            st.pop()

    def pre(x):
        raw.append(["pre", stack[tid()][-1]])

    def body(x):
        ctx = stack[tid()][-1]
        k = nenter[0]
        nenter[0] += 1
        raw.append(["enter", ctx])
        sched.yield_()
        if k in reenter and len(stack[tid()]) < 3:
            do_dispatch()
            sched.yield_()
        bad = k in fail
        raw.append(["exit", ctx, int(bad)])
        if bad:
            raise RuntimeError("listener failed")

    def post(x):
        raw.append(["post", stack[tid()][-1]])

    try:
        event.listen(T, "ev", pre)
        if retry:
            event.listen(T, "ev", body, _once_unless_exception=True)
        else:
            event.listen(T, "ev", body, once=True)
        event.listen(T, "ev", post)
        wrapper = list(T.dispatch.ev._clslevel[T])[1]

        def fn_for(n):
            def fn(w):
                for _ in range(n):
                    sched.yield_()
                    do_dispatch()

            return fn

        for n in c["progs"]:
            sched.spawn(fn_for(n))
        err = None
        try:
            sched.run()
        except Deadlock as e:
            err = "scheduler: %s" % e
        for w in sched.workers:
            if w.error is not None and err is None:
                err = "worker %d: %s: %s" % (w.tid, type(w.error).__name__, w.error)
        if err:
            raise AssertionError(err)
        cell = wrapper.__closure__[wrapper.__code__.co_freevars.index("once")]
        armed = int(bool(cell.cell_contents))
    finally:
        event.base._remove_dispatcher(TE)
    # abstraction: a "pre" directly followed by the "enter" of the same context is a call of the function, any other
    # "pre" is a call of the wrapper that returned None (nothing can run between the two listeners)
    evs = []
    for k, e in enumerate(raw):
        if e[0] == "pre":
            nxt = raw[k + 1] if k + 1 < len(raw) else None
            evs.append([0, e[1]] if nxt and nxt[0] == "enter" and nxt[1] == e[1] else [1, e[1]])
        elif e[0] == "exit":
            evs.append([2, e[1], e[2]])
    viol = None
    inside = []
    entries = fails = 0
    for e in raw:
        if e[0] == "enter":
            entries += 1
            if inside:
                viol = "the once-only listener body was entered (context %d) while it was still running (context %d)" % (e[1], inside[-1])
                break
            inside.append(e[1])
        elif e[0] == "exit":
            inside.remove(e[1])
            fails += e[2]
    if viol is None and not retry and entries > 1:
        viol = "once=True listener body entered %d times" % entries
    if viol is None and retry and entries > 1 + fails:
        viol = "once-unless-exception listener body entered %d times with %d failures" % (entries, fails)
    return evs, [armed, entries], viol


# ------------------------------------------------------------------ framework entry points
def impl(c):
    t = c["in"]
    if t[0] == 0:
        return _run_seq(t[1])
    if t[0] == 3:
        return _run_prop(t[1])
    if t[0] == 2:
        evs, final, viol = _run_once(c)
        _mon[c["sseed"]] = viol
        return [evs, final]
    raw, final, runs = _run_conc(c)
    _mon[c["sseed"]] = _oracle_conc(c, raw, runs)
    return [raw, final]


def model_pair(c, obs):
    t = c["in"]
    if t[0] in (0, 3):
        return t, obs
    raw, final = obs
    if t[0] == 2:
        return [2, t[1], raw], [-1] + list(final)
    return [1, t[1], raw], [-1] + list(final)


def oracle(c, obs):
    if c["in"][0] == 0:
        return _oracle_seq(c, obs)
    if c["in"][0] == 3:
        return _oracle_prop(c, obs)
    return _mon.get(c["sseed"])


FINDING_OF = {
    "late-mi": "C28-late-diamond-order",
    "shared": "C28-remove-shared-fn-order",
}


def match_finding(c, what):
    if c["in"][0] == 3 and what.startswith("op "):
        # re-run the oracle's bookkeeping: did the history put one function object twice into a collection before?
        k = int(what[3:].split()[0].rstrip(":"))
        left = _prop_expected(c["in"][1])[1]
        return "C28-propagation-duplicate-fn" if left is not None and left <= k else None
    if c["in"][0] != 0 or not what.startswith("op "):
        return None
    k = int(what[3:].split()[0].rstrip(":"))
    _, marks = _expected_seq(c["in"][1])
    for m in marks[: k + 1]:
        if m:
            return FINDING_OF[m]
    return None
