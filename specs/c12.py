"""C12 - bulk INSERT with RETURNING ("insertmanyvalues"): one returned row per parameter set, in
parameter order."""
import re

ID = "C12"
LEVEL = "proof"
PROPS = "props/C12.v"
RUNNER = ("SAV.sql.IMVRun", "run_case")
STATIC_MODULES = ["SAV.sql.IMVRun"]
ANCHORS = [
    ("lib/sqlalchemy/sql/compiler.py", "SQLCompiler._deliver_insertmanyvalues_batches"),
    ("lib/sqlalchemy/engine/default.py", "DefaultDialect._deliver_insertmanyvalues_batches"),
    ("lib/sqlalchemy/engine/default.py", "DefaultExecutionContext.fetchall_for_returning"),
    ("lib/sqlalchemy/engine/base.py", "Connection._exec_insertmany_context"),
    ("lib/sqlalchemy/sql/compiler.py", "_InsertManyValues"),
    ("lib/sqlalchemy/sql/compiler.py", "_InsertManyValuesBatch"),
]

# ------------------------------------------------------------------------------------------------
# case format (a tree):
#   [cfg, mask, sent_pos, rowspec, tuples, keys, fault, setup]
# cfg (everything the two anchored functions read from the compiled statement, the dialect and the
# execution options; the implementation side ECHOES what it finds in the real objects, so a wrong
# generator table shows up as a disagreement):
CFG_FIELDS = [
    "is_default_expr", "supports_default_metavalue", "supports_multivalues_insert", "result_columns",
    "sentinel_columns_none", "includes_upsert_behaviors", "embed_values_counter",
    "has_upsert_bound_parameters", "page_size", "max_params", "total_params", "params_per_batch",
    "is_returning", "imv_sbo", "num_sentinel", "implicit", "has_keys", "named", "num_ins", "numeric",
]
# mask     : per position of positiontup (positional) / per key (named): 1 = rendered inside VALUES
# sent_pos : positions of the sentinel values inside a parameter tuple ([] = none)
# rowspec  : the RETURNING row the database produces for a parameter set, column by column:
#            [0] autoincrement id (= global index + 1 on a fresh table) ; [1, j] tuple[j] ;
#            [2, j] tuple[j] + first non-VALUES parameter of the statement ; [3] NULL (-1)
# tuples   : the DBAPI parameter sets, canonical ints, in positiontup / key order
# keys     : one int per parameter set; the database returns the rows of a statement stably sorted
#            by it (any permutation per batch)
# fault    : [] | [kind, idx, val]   1 drop the row of parameter set idx ; 2 replace its last column
#            by val ; 3 return it twice
# setup    : how the implementation side builds a real table/statement producing exactly this cfg
#            [style, dopt, pstyle, upsert, extra, wo_returning]   (ignored by the model)
#
# observation:  [cfg echo, batches, status, rows, inserted]
#   batch   = [current_batch_size, batchnum, total_batches, rows_sorted, is_downgraded,
#              params, groups, numbers, counters]
#   status  = 0 ok | 1 ZeroDivisionError | 2 IndexError | 3 AssertionError | 4 rowcount guard |
#             5 KeyError guard | 6 never completes (negative size)
#   rows    = the final result rows (sentinel columns trimmed) ; inserted = global indices of the
#             parameter sets found in the table afterwards, in insertion order

STYLES = ["autoinc", "sentinel", "uuid", "composite", "none", "clientpk", "omitpk", "csentinel"]
PSTYLES = ["qmark", "named", "numeric", "numeric_dollar"]
NULL = -1


def translate(repo, outdir):
    from translate import fingerprint

    fingerprint.check(repo, ANCHORS, "C12")
    return []


# ------------------------------------------------------------------------------------------------
# implementation side
_ENV = {}
_LAST = {}


def impl_setup():
    import warnings

    warnings.simplefilter("ignore")
    from sqlalchemy.dialects import registry

    registry.register("sqlite.pysqlite_numeric", "sqlalchemy.dialects.sqlite.pysqlite", "_SQLiteDialect_pysqlite_numeric")
    registry.register("sqlite.pysqlite_dollar", "sqlalchemy.dialects.sqlite.pysqlite", "_SQLiteDialect_pysqlite_dollar")
    _ENV["ready"] = True


_RX_SEL = re.compile(r"SELECT (.*?) FROM \(VALUES (.*)\) AS imp_sen\((.*?)\) ORDER BY sen_counter", re.S)


def _rewrite_for_sqlite(st):
    """SQLite has no `AS alias(col, ...)` for a VALUES subquery; same statement with column1..N"""
    m = _RX_SEL.search(st)
    if not m:
        return st
    names = [x.strip() for x in m.group(3).split(",")]
    sel = m.group(1)
    for i, nm in enumerate(names):
        sel = re.sub(r"\b%s\b" % re.escape(nm), "column%d" % (i + 1), sel)
    return st[: m.start()] + "SELECT %s FROM (VALUES %s) ORDER BY column%d" % (sel, m.group(2), len(names)) + st[m.end() :]


def _values_groups(st):
    """the parenthesised groups following VALUES in a rewritten statement"""
    i = st.find("VALUES ")
    if i < 0:
        return None
    i += len("VALUES ")
    groups = []
    while i < len(st) and st[i] == "(":
        depth = 0
        j = i
        while j < len(st):
            if st[j] == "(":
                depth += 1
            elif st[j] == ")":
                depth -= 1
                if depth == 0:
                    break
            j += 1
        groups.append(st[i + 1 : j])
        i = j + 1
        if st.startswith(", ", i):
            i += 2
        else:
            break
    return groups


def _canon(v):
    import uuid

    if v is None:
        return NULL
    if isinstance(v, bool):
        return int(v)
    if isinstance(v, int):
        return v
    if isinstance(v, uuid.UUID):
        return v.int
    if isinstance(v, str):
        return int(v, 16)
    raise TypeError("cannot canonicalise %r" % (v,))


def _build(setup, n_tuples):
    """real table + statement for a setup; returns dict with engine, metadata, table, stmt, knames"""
    import uuid as _uuid

    import sqlalchemy as sa
    from sqlalchemy.dialects import sqlite as sqlite_d
    from sqlalchemy.sql.compiler import InsertmanyvaluesSentinelOpts as O

    style, dopt, pstyle, upsert, extra, wo_ret = setup
    sname = STYLES[style]
    if PSTYLES[pstyle] == "qmark":
        eng = sa.create_engine("sqlite://")
    elif PSTYLES[pstyle] == "named":
        eng = sa.create_engine("sqlite://", paramstyle="named")
    elif PSTYLES[pstyle] == "numeric":
        eng = sa.create_engine("sqlite+pysqlite_numeric://")
    else:
        eng = sa.create_engine("sqlite+pysqlite_dollar://")
    d = eng.dialect
    if dopt == 1:
        d.insertmanyvalues_implicit_sentinel = O.AUTOINCREMENT
    elif dopt == 2:
        d.insertmanyvalues_implicit_sentinel = O.AUTOINCREMENT | O.USE_INSERT_FROM_SELECT
    if wo_ret:
        d.use_insertmanyvalues_wo_returning = True
    md = sa.MetaData()
    it = {"vals": iter(())}

    def nextval(ctx=None):
        return next(it["vals"])

    C, I = sa.Column, sa.Integer
    if sname == "autoinc":
        t = sa.Table("t", md, C("id", I, primary_key=True), C("d", I))
        knames = ["d"]
    elif sname == "sentinel":
        t = sa.Table("t", md, C("id", I, primary_key=True), C("d", I), sa.insert_sentinel("sent"))
        knames = ["d", "sent"]
    elif sname == "csentinel":
        t = sa.Table("t", md, C("id", I, primary_key=True), C("d", I), sa.insert_sentinel("sent", default=nextval))
        knames = ["d", "sent"]
    elif sname == "uuid":
        t = sa.Table("t", md, C("id", sa.Uuid, primary_key=True, default=lambda: _uuid.UUID(int=nextval())), C("d", I))
        knames = ["id", "d"]
    elif sname == "composite":
        t = sa.Table(
            "t", md, C("a", I, primary_key=True, autoincrement=False), C("b", sa.Uuid, primary_key=True), C("d", I)
        )
        knames = ["a", "b", "d"]
    elif sname == "none":
        t = sa.Table(
            "t", md, C("id", sa.String, primary_key=True, server_default=sa.text("(lower(hex(randomblob(8))))")), C("d", I)
        )
        knames = ["d"]
    elif sname in ("clientpk", "omitpk"):
        t = sa.Table("t", md, C("id", I, primary_key=True, autoincrement=False), C("d", I))
        knames = ["id", "d"] if sname == "clientpk" else ["d"]
    else:
        raise ValueError(sname)
    if upsert:
        ins = sqlite_d.insert(t)
    else:
        ins = sa.insert(t)
    return dict(eng=eng, md=md, t=t, ins=ins, knames=knames, it=it, sname=sname)


def impl(c):
    import sqlalchemy as sa
    from sqlalchemy import event, exc
    from sqlalchemy.engine import default as _default

    if not _ENV.get("ready"):
        impl_setup()
    cfg, mask, sent_pos, rowspec, tuples, keys, fault, setup = c["in"]
    C = dict(zip(CFG_FIELDS, cfg))
    style, dopt, pstyle, upsert, extra, wo_ret = setup
    n = len(tuples)
    B = _build(setup, n)
    eng, md, t, ins, knames, sname = B["eng"], B["md"], B["t"], B["ins"], B["knames"], B["sname"]
    d = eng.dialect
    d.supports_default_metavalue = bool(C["supports_default_metavalue"])
    d.supports_multivalues_insert = bool(C["supports_multivalues_insert"])
    d.insertmanyvalues_max_parameters = C["max_params"]
    named = PSTYLES[pstyle] == "named"
    numeric = PSTYLES[pstyle].startswith("numeric")

    # ---- parameter dictionaries from the canonical tuples ----
    # order of a tuple: positional = positiontup order, named = knames (+ extras) order
    import uuid as _uuid

    vnames = list(knames)  # names rendered inside VALUES
    if sname in ("sentinel", "csentinel"):
        given = ["d"]
    elif sname == "uuid":
        given = ["d"]
    else:
        given = list(knames)
    xnames = []  # names outside VALUES
    if extra:
        xnames.append("off")
    if upsert == 2:
        xnames.append("newd")
    if C["is_default_expr"]:
        vnames, given = [], []
    if named:
        order = vnames + xnames
    elif numeric:
        order = xnames + vnames
    else:
        order = vnames + xnames
    pos = {nm: i for i, nm in enumerate(order)}

    def conv(nm, v):
        if sname == "composite" and nm == "b":
            return _uuid.UUID(int=v)
        return v

    params = [{nm: conv(nm, tp[pos[nm]]) for nm in given + xnames} for tp in tuples]
    gen_vals = []
    if sname == "csentinel":
        gen_vals = [tp[pos["sent"]] for tp in tuples]
    elif sname == "uuid":
        gen_vals = [tp[pos["id"]] for tp in tuples]
    B["it"]["vals"] = iter(gen_vals)

    # ---- statement ----
    stmt = ins
    if upsert == 1:
        stmt = stmt.on_conflict_do_update(index_elements=[t.c.id], set_={"d": stmt.excluded.d})
    elif upsert == 2:
        stmt = stmt.on_conflict_do_update(index_elements=[t.c.id], set_={"d": sa.bindparam("newd")})
    retcols = []
    if C["is_returning"]:
        for spec in rowspec[: len(rowspec) - C["num_sentinel"]] if C["num_sentinel"] else rowspec:
            pass
    # the RETURNING list is fixed per style: pk column(s), d (or d + :off)
    pkcols = [t.c.a, t.c.b] if sname == "composite" else [t.c.id]
    dcol = (t.c.d + sa.bindparam("off")).label("dx") if extra else t.c.d
    if C["is_returning"]:
        stmt = stmt.returning(*pkcols, dcol, sort_by_parameter_order=bool(C["imv_sbo"]))

    # ---- identify rows (for the adversarial permutation) by the d column / the id ----
    nret = len(pkcols) + 1
    dvals = {}
    for i, tp in enumerate(tuples):
        if "d" in pos:
            dv = tp[pos["d"]] + (tp[pos["off"]] if False else 0)
            dvals[dv] = i
    state = {"fetched": 0, "batches": [], "exec": 0}

    def row_index(row, k_in_batch):
        # position in VALUES order (SQLite returns RETURNING rows in VALUES order)
        return state["base"] + k_in_batch

    orig_fetch = _default.DefaultExecutionContext.fetchall_for_returning

    def patched_fetch(self, cursor):
        rows = list(orig_fetch(self, cursor))
        b = state["cur_batch"]
        base = state["base"]
        idx = [base + j for j in range(len(rows))]
        pairs = sorted(zip(idx, rows), key=lambda ir: keys[ir[0]] if ir[0] < len(keys) else 0)
        if fault:
            kind, fi, fv = fault
            out = []
            dup = None
            for i, r in pairs:
                if i == fi:
                    if kind == 1:
                        continue
                    if kind == 2:
                        r = tuple(r[:-1]) + (fv,)
                    if kind == 3:
                        dup = r
                out.append((i, r))
            if dup is not None:
                out.append((fi, dup))
            pairs = out
        state["base"] = base + len(b.batch)
        return [r for _, r in pairs]

    # ---- observe the batches the dialect-level generator yields ----
    def canon_params(b, rowmode):
        rp = b.replaced_parameters
        if named:
            out = []
            for k, v in rp.items():
                m = re.match(r"^(.*)__(\d+)$", k)
                if m and not rowmode and m.group(1) in pos:
                    out.append([pos[m.group(1)], int(m.group(2)), _canon(v)])
                else:
                    out.append([pos[k], -1, _canon(v)])
            out.sort(key=lambda e: (e[1], e[0]))
            return out
        return [_canon(v) for v in rp]

    def canon_stmt(b, rowmode):
        if rowmode:
            return -1, [], []
        gs = _values_groups(b.replaced_statement)
        if gs is None:
            return -2, [], []
        numbers = []
        if numeric:
            for g in gs:
                numbers += [int(x) for x in re.findall(r"[:$](\d+)", g)]
        counters = []
        if C["embed_values_counter"]:
            counters = [int(g.rsplit(",", 1)[1]) for g in gs]
        return len(gs), numbers, counters

    status = 0
    rows_out = []
    inserted = []
    batches = []
    echo = None
    _default.DefaultExecutionContext.fetchall_for_returning = patched_fetch
    try:
        with eng.connect() as conn:
            md.create_all(conn)
            orig_deliver = d._deliver_insertmanyvalues_batches

            def deliver(connection, cursor, statement, parameters, gsi, context):
                nonlocal echo
                compiled = context.compiled
                imv = compiled._insertmanyvalues
                state["base"] = 0
                positiontup = compiled.positiontup
                names_in_values = set()
                for e in imv.insert_crud_params:
                    names_in_values.update(e[3])
                if compiled.positional:
                    emask = [1 if nm in names_in_values else 0 for nm in positiontup]
                else:
                    emask = [1 if nm in names_in_values else 0 for nm in order]
                echo = [
                    int(imv.is_default_expr),
                    int(d.supports_default_metavalue),
                    int(d.supports_multivalues_insert),
                    int(bool(compiled._result_columns)),
                    int(imv.sentinel_columns is None),
                    int(imv.includes_upsert_behaviors),
                    int(imv.embed_values_counter),
                    int(imv.has_upsert_bound_parameters),
                    context.execution_options.get("insertmanyvalues_page_size", d.insertmanyvalues_page_size),
                    d.insertmanyvalues_max_parameters or 0,
                    len(compiled.bind_names),
                    len(imv.insert_crud_params),
                    int(bool(compiled.effective_returning)),
                    int(imv.sort_by_parameter_order),
                    imv.num_sentinel_columns,
                    int(imv.implicit_sentinel),
                    int(bool(imv.sentinel_param_keys)),
                    int(not compiled.positional),
                    imv.num_positional_params_counted if compiled.positional else 0,
                    int(bool(compiled._numeric_binds)),
                ], emask
                for b in orig_deliver(connection, cursor, statement, parameters, gsi, context):
                    state["cur_batch"] = b
                    rowmode = b.replaced_statement is statement and len(b.batch) == 1 and b.total_batches == len(parameters) and (
                        b.is_downgraded or imv.is_default_expr
                    )
                    g, nums, ctrs = canon_stmt(b, rowmode)
                    batches.append(
                        [
                            b.current_batch_size,
                            b.batchnum,
                            b.total_batches,
                            int(b.rows_sorted),
                            int(b.is_downgraded),
                            canon_params(b, rowmode),
                            g,
                            nums,
                            ctrs,
                        ]
                    )
                    yield b
                    if not compiled.effective_returning:
                        state["base"] += len(b.batch)

            d._deliver_insertmanyvalues_batches = deliver

            @event.listens_for(conn, "before_cursor_execute", retval=True)
            def _bce(conn_, cur, st, pa, ctx, many):
                return _rewrite_for_sqlite(st), pa

            try:
                res = conn.execution_options(insertmanyvalues_page_size=C["page_size"]).execute(stmt, params)
                if C["is_returning"]:
                    rows_out = [[_canon(v) for v in r] for r in res.all()]
            except ZeroDivisionError:
                status = 1
            except IndexError:
                status = 2
            except AssertionError:
                status = 3
            except exc.InvalidRequestError as e:
                if "did not produce correct number of rows" in str(e):
                    status = 4
                elif "Can't match sentinel values" in str(e):
                    status = 5
                else:
                    raise
            except exc.DBAPIError:
                if C["page_size"] < 0:
                    status = 6
                else:
                    raise
            if C["page_size"] < 0 and status in (2, 6):
                status, batches[:] = 6, []
            else:
                # what is in the table now (same transaction), in insertion order
                allrows = conn.execute(sa.select(t).order_by(sa.text("rowid"))).all()
                _LAST["table"] = [[_canon(v) for v in r] for r in allrows]
                _LAST["n"] = n
                inserted = list(range(len(allrows)))
            conn.rollback()
    finally:
        _default.DefaultExecutionContext.fetchall_for_returning = orig_fetch
        eng.dispose()
    if echo is None:
        return [[], [], [], batches, status, rows_out, inserted]
    return [echo[0], echo[1], batches, status, rows_out, inserted]
